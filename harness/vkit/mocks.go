package vkit

import (
	"context"
	"fmt"
	"runtime"
	"strconv"
	"strings"
	"sync"
	"sync/atomic"
	"time"

	"github.com/yandex/pandora/core"
	"github.com/yandex/pandora/core/aggregator/netsample"
	"github.com/yandex/pandora/core/warmup"
)

// Goid returns the current goroutine id (parsed from runtime.Stack; ~1µs).
func Goid() int64 {
	var buf [64]byte
	n := runtime.Stack(buf[:], false)
	s := strings.TrimPrefix(string(buf[:n]), "goroutine ")
	if i := strings.IndexByte(s, ' '); i > 0 {
		id, _ := strconv.ParseInt(s[:i], 10, 64)
		return id
	}
	return -1
}

// ---------------- provider ----------------

const (
	ammoPooled int32 = iota
	ammoAcquired
	ammoReleased
)

type MockAmmo struct {
	ID    int
	state atomic.Int32
	fired atomic.Int32
}

// MockProvider hands out Items ammo (−1 = unbounded) with a per-item state machine.
type MockProvider struct {
	Items int
	// Fault script.
	FailAfter  int           // Run returns Err once this many items were handed out (−1 never; 0 = at once)
	FailAtEnd  bool          // Run returns Err after the last item, after EndDelay
	EndDelay   time.Duration // delay between closing the queue and returning
	Err        error
	ReturnCtx  bool          // return ctx.Err() instead of nil on cancel
	IgnoreStop time.Duration // keep running this long after cancel (slow stop)
	// Buffer: size of the provider's queue. With Buffer ≥ Items the whole supply is queued at once
	// and Run returns while the ammo is still waiting to be taken (as the file providers do with
	// a small file and their queue of thousands).
	Buffer int

	ch          chan *MockAmmo
	once        sync.Once
	Acquired    atomic.Int64
	Released    atomic.Int64
	ExhaustedAt atomic.Int64 // first time Acquire returned ok=false
	Misuse      atomic.Int64 // double release, release of non-acquired
	RunStart    atomic.Int64
	RunReturn   atomic.Int64
	FaultFired  atomic.Bool
	misuseMu    sync.Mutex
	MisuseLog   []string
	closeOnce   sync.Once
}

func (p *MockProvider) init() {
	p.once.Do(func() { p.ch = make(chan *MockAmmo, p.Buffer) })
}

func (p *MockProvider) closeQueue() { p.closeOnce.Do(func() { close(p.ch) }) }

func (p *MockProvider) Run(ctx context.Context, _ core.ProviderDeps) error {
	p.init()
	p.RunStart.Add(1)
	defer p.RunReturn.Add(1)
	defer p.closeQueue()
	stop := func() error {
		if p.IgnoreStop > 0 {
			time.Sleep(p.IgnoreStop)
		}
		if p.ReturnCtx {
			return ctx.Err()
		}
		return nil
	}
	for i := 0; p.Items < 0 || i < p.Items; i++ {
		if p.Err != nil && !p.FailAtEnd && p.FailAfter >= 0 && i >= p.FailAfter {
			p.FaultFired.Store(true)
			return p.Err
		}
		a := &MockAmmo{ID: i}
		select {
		case p.ch <- a:
		case <-ctx.Done():
			return stop()
		}
	}
	if p.Err != nil && !p.FailAtEnd && p.FailAfter >= 0 && p.FailAfter >= p.Items {
		p.FaultFired.Store(true)
		return p.Err
	}
	p.closeQueue()
	if p.Err != nil && p.FailAtEnd {
		if p.EndDelay > 0 {
			time.Sleep(p.EndDelay)
		}
		p.FaultFired.Store(true)
		return p.Err
	}
	// a provider may return as soon as its ammo is exhausted
	return nil
}

func (p *MockProvider) Acquire() (core.Ammo, bool) {
	p.init()
	a, ok := <-p.ch
	if !ok {
		p.ExhaustedAt.CompareAndSwap(0, time.Now().UnixNano())
		return nil, false
	}
	if !a.state.CompareAndSwap(ammoPooled, ammoAcquired) {
		p.misuse("item %d acquired in state %d", a.ID, a.state.Load())
	}
	p.Acquired.Add(1)
	return a, true
}

func (p *MockProvider) Release(x core.Ammo) {
	a, ok := x.(*MockAmmo)
	if !ok {
		p.misuse("foreign ammo released: %T", x)
		return
	}
	if !a.state.CompareAndSwap(ammoAcquired, ammoReleased) {
		p.misuse("item %d released in state %d (double release or never acquired)", a.ID, a.state.Load())
	}
	p.Released.Add(1)
}

func (p *MockProvider) misuse(f string, a ...any) {
	p.Misuse.Add(1)
	p.misuseMu.Lock()
	if len(p.MisuseLog) < 10 {
		p.MisuseLog = append(p.MisuseLog, fmt.Sprintf(f, a...))
	}
	p.misuseMu.Unlock()
}

// ---------------- aggregator ----------------

type SampleRec struct {
	Tags  string
	Net   int
	Proto int
	ID    uint64
	Err   string
	Goid  int64
	At    time.Time
}

type MockAggregator struct {
	Err              error
	FailAfter        time.Duration // return Err this long after start (<0: only after ctx is cancelled)
	AfterCancelDelay time.Duration
	ReturnCtx        bool

	mu         sync.Mutex
	Samples    []SampleRec
	RunStart   atomic.Int64
	RunReturn  atomic.Int64
	FaultFired atomic.Bool
	Discarded  atomic.Int64
	Reported   atomic.Int64
	OnReport   func(SampleRec)
}

func (a *MockAggregator) Run(ctx context.Context, _ core.AggregatorDeps) error {
	a.RunStart.Add(1)
	defer a.RunReturn.Add(1)
	if a.Err != nil && a.FailAfter >= 0 {
		t := time.NewTimer(a.FailAfter)
		defer t.Stop()
		select {
		case <-t.C:
			a.FaultFired.Store(true)
			return a.Err
		case <-ctx.Done():
			if a.ReturnCtx {
				return ctx.Err()
			}
			return nil
		}
	}
	<-ctx.Done()
	if a.Err != nil {
		if a.AfterCancelDelay > 0 {
			time.Sleep(a.AfterCancelDelay)
		}
		a.FaultFired.Store(true)
		return a.Err
	}
	if a.ReturnCtx {
		return ctx.Err()
	}
	return nil
}

func (a *MockAggregator) Report(s core.Sample) {
	rec := SampleRec{Goid: Goid(), At: time.Now()}
	if ns, ok := s.(*netsample.Sample); ok {
		rec.Tags = ns.Tags()
		rec.Proto = ns.ProtoCode()
		rec.ID = ns.ID()
		if e := ns.Err(); e != nil {
			rec.Err = e.Error()
		}
		f := strings.Split(strings.TrimSpace(ns.String()), "\t")
		if len(f) >= 12 {
			rec.Net, _ = strconv.Atoi(f[10])
		}
	} else if ms, ok := s.(*MockSample); ok {
		rec.Tags = ms.Tag
	}
	a.Reported.Add(1)
	if rec.Tags == netsample.DiscardedShootTag {
		a.Discarded.Add(1)
	}
	if a.OnReport != nil {
		a.OnReport(rec)
	}
	a.mu.Lock()
	a.Samples = append(a.Samples, rec)
	a.mu.Unlock()
}

// Snapshot returns a copy of the samples reported so far.
func (a *MockAggregator) Snapshot() []SampleRec {
	a.mu.Lock()
	defer a.mu.Unlock()
	return append([]SampleRec(nil), a.Samples...)
}

type MockSample struct {
	Tag    string
	AmmoID int
}

// ---------------- gun ----------------

type ShotRec struct {
	AmmoID     int
	InstanceID int
	Goid       int64
	Start, End time.Time
}

// GunPlan is shared by all guns of a pool.
type GunPlan struct {
	ShotDur     func(instance, shotIndex, ammoID int) time.Duration // nil = instantaneous
	PanicAtShot int                                                 // global shot index that panics (−1 never)
	PanicVal    any
	NewGunErrAt int // NewGun call index that fails (−1 never); call 0 is the engine's warm-up gun
	NewGunErr   error
	BindErrAt   int // Bind call index that fails (−1 never)
	BindErr     error
	WarmUp      bool // guns implement warmup.WarmedUp
	WarmUpErr   error
	WarmUps     atomic.Int64
	Closer      bool
	OnShoot     func(g *MockGun, a *MockAmmo, entry time.Time)
	OnBind      func(g *MockGun)
	OnClose     func(g *MockGun)
	CloseTakes  time.Duration // a closable gun's Close lasts this long before it counts as closed

	newGunCalls atomic.Int64
	bindCalls   atomic.Int64
	shots       atomic.Int64
	mu          sync.Mutex
	Guns        []*MockGun
	Shots       []ShotRec
	Problems    []string
	FaultFired  atomic.Bool
}

func NewGunPlan() *GunPlan { return &GunPlan{PanicAtShot: -1, NewGunErrAt: -1, BindErrAt: -1} }

func (pl *GunPlan) problem(f string, a ...any) {
	pl.mu.Lock()
	if len(pl.Problems) < 20 {
		pl.Problems = append(pl.Problems, fmt.Sprintf(f, a...))
	}
	pl.mu.Unlock()
}

func (pl *GunPlan) ShotCount() int64 { return pl.shots.Load() }

// NewGun is the engine's gun factory.
func (pl *GunPlan) NewGun() (core.Gun, error) {
	n := int(pl.newGunCalls.Add(1) - 1)
	if pl.NewGunErrAt >= 0 && n == pl.NewGunErrAt {
		pl.FaultFired.Store(true)
		return nil, pl.NewGunErr
	}
	g := &MockGun{plan: pl, seq: n, InstanceID: -1}
	pl.mu.Lock()
	pl.Guns = append(pl.Guns, g)
	pl.mu.Unlock()
	switch {
	case pl.Closer && pl.WarmUp:
		return &warmCloserGun{closerGun{g}}, nil
	case pl.Closer:
		return &closerGun{g}, nil
	case pl.WarmUp:
		return &warmGun{g}, nil
	}
	return g, nil
}

type warmGun struct{ *MockGun }

func (g *warmGun) WarmUp(o *warmup.Options) (any, error) { return g.MockGun.warmUp(o) }

type warmCloserGun struct{ closerGun }

func (g *warmCloserGun) WarmUp(o *warmup.Options) (any, error) { return g.MockGun.warmUp(o) }

func (g *MockGun) warmUp(*warmup.Options) (any, error) {
	g.plan.WarmUps.Add(1)
	if g.plan.WarmUpErr != nil {
		g.plan.FaultFired.Store(true)
		return nil, g.plan.WarmUpErr
	}
	return "shared-deps", nil
}

type MockGun struct {
	plan        *GunPlan
	seq         int
	InstanceID  int
	Bound       atomic.Int32
	BindAt      time.Time
	aggr        core.Aggregator
	inflight    atomic.Int32
	shots       int
	lastShotEnd atomic.Int64
	Closed      atomic.Int32
	ClosedAt    atomic.Int64
	Ctx         context.Context
	User        any
}

type closerGun struct{ *MockGun }

func (g *closerGun) Close() error {
	// closing a real gun takes time (connections are shut down): a Close that nobody waits for
	// is still under way when the run is reported as over
	if d := g.plan.CloseTakes; d > 0 {
		time.Sleep(d)
	}
	g.Closed.Add(1)
	g.ClosedAt.Store(time.Now().UnixNano())
	if g.inflight.Load() != 0 {
		g.plan.problem("gun of instance %d closed while a shot is in flight", g.InstanceID)
	}
	if g.plan.OnClose != nil {
		g.plan.OnClose(g.MockGun)
	}
	return nil
}

func (g *MockGun) Bind(aggr core.Aggregator, deps core.GunDeps) error {
	n := int(g.plan.bindCalls.Add(1) - 1)
	if g.plan.BindErrAt >= 0 && n == g.plan.BindErrAt {
		g.plan.FaultFired.Store(true)
		return g.plan.BindErr
	}
	if g.Bound.Add(1) != 1 {
		g.plan.problem("gun bound twice")
	}
	g.BindAt = time.Now()
	g.aggr = aggr
	g.InstanceID = deps.InstanceID
	g.Ctx = deps.Ctx
	if g.plan.OnBind != nil {
		g.plan.OnBind(g)
	}
	return nil
}

func (g *MockGun) Shoot(x core.Ammo) {
	entry := time.Now()
	a, _ := x.(*MockAmmo)
	if g.inflight.Add(1) != 1 {
		g.plan.problem("two shots overlap on the gun of instance %d", g.InstanceID)
	}
	defer g.inflight.Add(-1)
	if g.Closed.Load() != 0 {
		g.plan.problem("shot on a closed gun (instance %d)", g.InstanceID)
	}
	if a == nil {
		g.plan.problem("Shoot got %T", x)
		return
	}
	if st := a.state.Load(); st != ammoAcquired {
		g.plan.problem("ammo %d shot in state %d (not acquired / already released)", a.ID, st)
	}
	if a.fired.Add(1) != 1 {
		g.plan.problem("ammo %d fired twice", a.ID)
	}
	n := int(g.plan.shots.Add(1) - 1)
	if g.plan.OnShoot != nil {
		g.plan.OnShoot(g, a, entry)
	}
	if g.plan.PanicAtShot >= 0 && n == g.plan.PanicAtShot {
		g.plan.FaultFired.Store(true)
		panic(g.plan.PanicVal)
	}
	if g.plan.ShotDur != nil {
		if d := g.plan.ShotDur(g.InstanceID, g.shots, a.ID); d > 0 {
			time.Sleep(d)
		}
	}
	g.shots++
	g.aggr.Report(&MockSample{Tag: "shot", AmmoID: a.ID})
	end := time.Now()
	g.lastShotEnd.Store(end.UnixNano())
	g.plan.mu.Lock()
	g.plan.Shots = append(g.plan.Shots, ShotRec{AmmoID: a.ID, InstanceID: g.InstanceID, Goid: Goid(), Start: entry, End: end})
	g.plan.mu.Unlock()
}

// ---------------- schedule recorder ----------------

type TokenRec struct {
	T     time.Time // token time
	OK    bool
	Goid  int64
	After time.Time // wall reading just after the inner Next returned
}

// RecSchedule wraps a real schedule and records every Next result per calling goroutine.
type RecSchedule struct {
	core.Schedule
	mu     sync.Mutex
	Tokens []TokenRec
	last   sync.Map // goid -> TokenRec
	// FinishSeenAt is the first time a caller observed the schedule as finished
	// (Next returned !ok or Left returned 0); 0 = never.
	FinishSeenAt atomic.Int64
}

func (r *RecSchedule) Left() int {
	l := r.Schedule.Left()
	if l == 0 {
		r.FinishSeenAt.CompareAndSwap(0, time.Now().UnixNano())
	}
	return l
}

func (r *RecSchedule) Next() (time.Time, bool) {
	t, ok := r.Schedule.Next()
	rec := TokenRec{T: t, OK: ok, Goid: Goid(), After: time.Now()}
	if !ok {
		r.FinishSeenAt.CompareAndSwap(0, rec.After.UnixNano())
	}
	r.last.Store(rec.Goid, rec)
	r.mu.Lock()
	r.Tokens = append(r.Tokens, rec)
	r.mu.Unlock()
	return t, ok
}

// Last returns the last token drawn by the calling goroutine.
func (r *RecSchedule) Last(goid int64) (TokenRec, bool) {
	v, ok := r.last.Load(goid)
	if !ok {
		return TokenRec{}, false
	}
	return v.(TokenRec), true
}

func (r *RecSchedule) OKTokens() int {
	r.mu.Lock()
	defer r.mu.Unlock()
	n := 0
	for _, t := range r.Tokens {
		if t.OK {
			n++
		}
	}
	return n
}
