package vkit

import (
	"context"
	"strings"
	"time"

	"github.com/yandex/pandora/core/config"
	"github.com/yandex/pandora/core/engine"
	"go.uber.org/zap"
	"gopkg.in/yaml.v2"
)

// DecodePools decodes {"pools": [...]} (as a map or YAML text) into an engine config through
// the same config path the CLI uses.
func DecodePools(conf any) (engine.Config, error) {
	Fs()
	var m map[string]any
	switch c := conf.(type) {
	case map[string]any:
		m = c
	case string:
		m = map[string]any{}
		if err := yaml.Unmarshal([]byte(c), &m); err != nil {
			return engine.Config{}, err
		}
	}
	var ec engine.Config
	err := config.DecodeAndValidate(m, &ec)
	return ec, err
}

type RunResult struct {
	Err      error
	Hang     bool // Engine.Run did not return within the watchdog
	WaitHang bool
	Stacks   string
}

// RunEngine runs the engine to the end with a watchdog.
func RunEngine(conf engine.Config, log *zap.Logger, watchdog time.Duration) RunResult {
	if log == nil {
		log = zap.NewNop()
	}
	eng := engine.New(log, NewMetrics(), conf)
	ctx, cancel := context.WithCancel(context.Background())
	defer cancel()
	done := make(chan error, 1)
	go func() { done <- eng.Run(ctx) }()
	var r RunResult
	select {
	case r.Err = <-done:
	case <-time.After(watchdog):
		r.Hang = true
		r.Stacks = strings.Join(PandoraGoroutines(), "\n\n")
		cancel()
		select {
		case r.Err = <-done:
		case <-time.After(5 * time.Second):
		}
	}
	cancel()
	wd := make(chan struct{})
	go func() { eng.Wait(); close(wd) }()
	select {
	case <-wd:
	case <-time.After(10 * time.Second):
		r.WaitHang = true
	}
	return r
}
