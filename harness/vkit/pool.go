package vkit

import (
	"context"
	"strings"
	"time"

	"github.com/yandex/pandora/core/config"
	"github.com/yandex/pandora/core/engine"
	"go.uber.org/zap"
	"gopkg.in/yaml.v2"
)

// DecodePools decodes {"pools": [...]} (as a map or YAML text) into an engine config through
// the same config path the CLI uses.
func DecodePools(conf any) (engine.Config, error) {
	Fs()
	var m map[string]any
	switch c := conf.(type) {
	case map[string]any:
		m = c
	case string:
		m = map[string]any{}
		if err := yaml.Unmarshal([]byte(c), &m); err != nil {
			return engine.Config{}, err
		}
	}
	var ec engine.Config
	err := config.DecodeAndValidate(m, &ec)
	return ec, err
}

type RunResult struct {
	Err      error
	Hang     bool // Engine.Run did not return within the watchdog
	WaitHang bool
	Stacks   string
}

// RunEngine runs the engine to the end with a watchdog.
func RunEngine(conf engine.Config, log *zap.Logger, watchdog time.Duration) RunResult {
	if log == nil {
		log = zap.NewNop()
	}
	eng := engine.New(log, NewMetrics(), conf)
	ctx, cancel := context.WithCancel(context.Background())
	defer cancel()
	done := make(chan error, 1)
	go func() { done <- eng.Run(ctx) }()
	var r RunResult
	select {
	case r.Err = <-done:
	case <-time.After(watchdog):
		r.Hang = true
		r.Stacks = strings.Join(PandoraGoroutines(), "\n\n")
		cancel()
		select {
		case r.Err = <-done:
		case <-time.After(5 * time.Second):
		}
	}
	cancel()
	wd := make(chan struct{})
	go func() { eng.Wait(); close(wd) }()
	select {
	case <-wd:
	case <-time.After(10 * time.Second):
		r.WaitHang = true
	}
	return r
}

// DecodedPool decodes one pool whose rps (and optionally startup) section is given as config —
// a mapping or a list, as a user writes it — and returns the pool config with the factories the
// config decoder built; provider, gun and aggregator are for the caller to replace.
func DecodedPool(rps any, startup any, perInstance bool) (engine.InstancePoolConfig, error) {
	ammo := WriteMem([]byte("/x\n"))
	defer RemoveMem(ammo)
	if startup == nil {
		startup = map[string]any{"type": "once", "times": 1}
	}
	ec, err := DecodePools(map[string]any{"pools": []any{map[string]any{
		"id": "p", "ammo": map[string]any{"type": "uri", "file": ammo}, "result": map[string]any{"type": "discard"},
		"gun": map[string]any{"type": "http", "target": "127.0.0.1:1"}, "rps": rps, "startup": startup, "rps-per-instance": perInstance,
	}}})
	if err != nil {
		return engine.InstancePoolConfig{}, err
	}
	return ec.Pools[0], nil
}

// ConfMap renders a SchedSpec as the config a user would write (a mapping; composites as lists).
func (s SchedSpec) ConfMap() any {
	dur := func() string { return (time.Duration(s.DurMs) * time.Millisecond).String() }
	switch s.Kind {
	case "once":
		return map[string]any{"type": "once", "times": s.N}
	case "const":
		return map[string]any{"type": "const", "ops": s.A, "duration": dur()}
	case "line":
		return map[string]any{"type": "line", "from": s.A, "to": s.B, "duration": dur()}
	case "step":
		return map[string]any{"type": "step", "from": s.A, "to": s.B, "step": s.N, "duration": dur()}
	case "instance_step":
		return map[string]any{"type": "instance_step", "from": int64(s.A), "to": int64(s.B), "step": s.N, "stepduration": dur()}
	case "unlimited":
		return map[string]any{"type": "unlimited", "duration": dur()}
	case "composite":
		var xs []any
		for _, p := range s.Parts {
			xs = append(xs, p.ConfMap())
		}
		return xs
	}
	panic("unknown schedule kind " + s.Kind)
}
