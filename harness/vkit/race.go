package vkit

import (
	"fmt"
	"os"
	"path/filepath"
	"regexp"
	"sort"
	"strings"
)

// RaceReport is one de-duplicated data race report.
type RaceReport struct {
	Frames [2]string `json:"outermost_pandora_frames"`
	Top    [2]string `json:"top_frames"`
	Count  int       `json:"count"`
	Text   string    `json:"text"`
}

var frameRe = regexp.MustCompile(`^\s+(\S+)\(`)

// ParseRaceLogs reads race detector logs written with GORACE=log_path=<prefix> and returns
// reports de-duplicated by the pair of top pandora frames. inHarness counts reports none of
// whose stacks has a pandora frame (harness bugs).
func ParseRaceLogs(prefix string) (reports []RaceReport, raw int, inHarness int) {
	files, _ := filepath.Glob(prefix + "*")
	byKey := map[string]*RaceReport{}
	for _, f := range files {
		b, err := os.ReadFile(f)
		if err != nil {
			continue
		}
		blocks := strings.Split(string(b), "WARNING: DATA RACE")
		for _, blk := range blocks[1:] {
			raw++
			if i := strings.Index(blk, "=================="); i >= 0 {
				blk = blk[:i]
			}
			// stacks are separated by blank lines; the first two are the racing accesses
			var stacks [][]string
			for _, part := range strings.Split(blk, "\n\n") {
				var fr []string
				for _, l := range strings.Split(part, "\n") {
					if m := frameRe.FindStringSubmatch(l); m != nil {
						fr = append(fr, m[1])
					}
				}
				if len(fr) > 0 {
					stacks = append(stacks, fr)
				}
			}
			var tops, pand []string
			hasPandora := false
			for i, st := range stacks {
				if i >= 2 {
					break
				}
				tops = append(tops, st[0])
				pf := ""
				for _, fn := range st {
					if strings.Contains(fn, "github.com/yandex/pandora/") {
						pf = fn
						break
					}
				}
				if pf != "" {
					hasPandora = true
				}
				pand = append(pand, pf)
			}
			if !hasPandora {
				inHarness++
				continue
			}
			for len(pand) < 2 {
				pand = append(pand, "")
				tops = append(tops, "")
			}
			sort.Strings(pand)
			key := pand[0] + " <-> " + pand[1]
			if r, ok := byKey[key]; ok {
				r.Count++
			} else {
				txt := blk
				if len(txt) > 3000 {
					txt = txt[:3000]
				}
				byKey[key] = &RaceReport{Frames: [2]string{pand[0], pand[1]}, Top: [2]string{tops[0], tops[1]}, Count: 1, Text: txt}
			}
		}
	}
	for _, r := range byKey {
		reports = append(reports, *r)
	}
	sort.Slice(reports, func(i, j int) bool {
		return reports[i].Frames[0]+reports[i].Frames[1] < reports[j].Frames[0]+reports[j].Frames[1]
	})
	return
}

// RaceLogPrefix returns the log_path configured in GORACE ("" if none).
func RaceLogPrefix() string {
	for _, f := range strings.Fields(os.Getenv("GORACE")) {
		if strings.HasPrefix(f, "log_path=") {
			return strings.TrimPrefix(f, "log_path=")
		}
	}
	return ""
}

func shortFn(s string) string {
	s = strings.TrimPrefix(s, "github.com/yandex/pandora/")
	return s
}

// CheckRaceLog turns race reports with a pandora frame into violations keyed by frame pair.
func CheckRaceLog(res *Result, prop string) {
	prefix := RaceLogPrefix()
	if prefix == "" {
		res.Set("race_detector", "not enabled in this run")
		return
	}
	reports, raw, harness := ParseRaceLogs(prefix)
	res.Set("race_reports_raw", raw)
	res.Set("race_reports_distinct", len(reports))
	for _, r := range reports {
		key := fmt.Sprintf("%s/race/%s<->%s", prop, shortFn(r.Frames[0]), shortFn(r.Frames[1]))
		res.Violate(key, fmt.Sprintf("data race reported %d times between %s and %s", r.Count, r.Top[0], r.Top[1]), r)
	}
	if harness > 0 {
		res.Inconclusive(true, "%d race reports without any pandora frame (harness bug)", harness)
	}
}
