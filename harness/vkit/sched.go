package vkit

import (
	"time"

	"github.com/yandex/pandora/core"
	"github.com/yandex/pandora/core/schedule"
)

// SchedSpec is a serialisable description of a schedule tree.
type SchedSpec struct {
	Kind  string      `json:"kind"` // once const line step instance_step unlimited composite
	A     float64     `json:"a,omitempty"`
	B     float64     `json:"b,omitempty"`
	N     int64       `json:"n,omitempty"`
	DurMs int         `json:"dur_ms,omitempty"`
	Parts []SchedSpec `json:"parts,omitempty"`
}

func (s SchedSpec) Build() core.Schedule {
	d := time.Duration(s.DurMs) * time.Millisecond
	switch s.Kind {
	case "once":
		return schedule.NewOnce(s.N)
	case "const":
		return schedule.NewConst(s.A, d)
	case "line":
		return schedule.NewLine(s.A, s.B, d)
	case "step":
		return schedule.NewStep(s.A, s.B, s.N, d)
	case "instance_step":
		return schedule.NewInstanceStep(int64(s.A), int64(s.B), s.N, d)
	case "unlimited":
		return schedule.NewUnlimited(d)
	case "composite":
		var ps []core.Schedule
		for _, p := range s.Parts {
			ps = append(ps, p.Build())
		}
		return schedule.NewComposite(ps...)
	}
	panic("unknown schedule kind " + s.Kind)
}

// Leaves returns the leaf specs in order (composites flattened).
func (s SchedSpec) Leaves() []SchedSpec {
	if s.Kind != "composite" {
		return []SchedSpec{s}
	}
	var out []SchedSpec
	for _, p := range s.Parts {
		out = append(out, p.Leaves()...)
	}
	return out
}
