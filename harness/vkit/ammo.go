package vkit

import (
	"bytes"
	"context"
	"encoding/json"
	"fmt"
	"io"
	"math/rand"
	"net/http"
	"net/textproto"
	"path"
	"runtime/debug"
	"sort"
	"strings"
	"sync"
	"sync/atomic"
	"time"

	"github.com/spf13/afero"
	"github.com/yandex/pandora/core"
	"github.com/yandex/pandora/core/aggregator/netsample"
	"github.com/yandex/pandora/core/config"
	"go.uber.org/zap"
)

// ---------------- abstract ammo ----------------

type KV struct {
	K string `json:"k"`
	V string `json:"v"`
}

// Entry is one abstract request.
type Entry struct {
	Method  string `json:"method"`
	URI     string `json:"uri"`
	Host    string `json:"host,omitempty"`
	Headers []KV   `json:"headers,omitempty"` // entry's own headers (raw, jsonline)
	Body    []byte `json:"body,omitempty"`
	Tag     string `json:"tag,omitempty"`
}

// Item is a line group of an ammo file: an in-file header line (uri/uripost) or an entry.
type Item struct {
	Header *KV    `json:"header,omitempty"`
	Entry  *Entry `json:"entry,omitempty"`
}

type Layout struct {
	BlankLines   bool   `json:"blank_lines"`
	SurroundWS   bool   `json:"surround_ws"`
	FinalNewline bool   `json:"final_newline"`
	JSONMode     string `json:"json_mode,omitempty"` // lines pretty array
	Seed         int64  `json:"seed"`
}

type AmmoFile struct {
	Format string `json:"format"` // uri uripost raw jsonline
	Items  []Item `json:"items"`
	Layout Layout `json:"layout"`
}

func (f AmmoFile) Entries() []Entry {
	var out []Entry
	for _, it := range f.Items {
		if it.Entry != nil {
			out = append(out, *it.Entry)
		}
	}
	return out
}

// Expect is what the gun must see for one delivered ammo.
type Expect struct {
	Method string      `json:"method"`
	URI    string      `json:"uri"`
	Host   string      `json:"host"`
	Header http.Header `json:"header"`
	Body   []byte      `json:"body"`
	Tag    string      `json:"tag"`
}

func canon(k string) string { return textproto.CanonicalMIMEHeaderKey(k) }

// ExpectedPass returns the requests of one pass over the file. confHeaders are the provider's
// `headers` option (already "[K: v]"-decoded); they are added only where the entry does not
// define the header (headers in the ammo file have priority).
func (f AmmoFile) ExpectedPass(confHeaders []KV) []Expect {
	var out []Expect
	acc := http.Header{}
	for _, it := range f.Items {
		if it.Header != nil {
			acc.Set(it.Header.K, strings.TrimSpace(it.Header.V))
			continue
		}
		e := it.Entry
		x := Expect{Method: e.Method, URI: e.URI, Host: e.Host, Header: http.Header{}, Body: e.Body, Tag: e.Tag}
		if len(x.Body) == 0 {
			x.Body = nil
		}
		switch f.Format {
		case "uri":
			x.Method = "GET"
			x.Body = nil
			x.Header = acc.Clone()
		case "uripost":
			x.Method = "POST"
			x.Header = acc.Clone()
		case "raw":
			for _, kv := range e.Headers {
				x.Header.Add(kv.K, strings.TrimSpace(kv.V))
			}
			if len(e.Body) > 0 {
				x.Header.Set("Content-Length", fmt.Sprint(len(e.Body)))
			}
		case "jsonline":
			if x.Method == "" {
				// an entry that leaves the method out is a GET (net/http's convention, which the
				// decoder's own method validator spells out)
				x.Method = "GET"
			}
			for _, kv := range e.Headers {
				x.Header.Set(kv.K, kv.V)
			}
			// a Host key inside headers is ignored when the host field is given
			if e.Host != "" {
				x.Header.Del("Host")
			}
		}
		if h := x.Header.Get("Host"); h != "" || len(x.Header["Host"]) > 0 {
			if x.Host == "" {
				x.Host = h
			}
			x.Header.Del("Host")
		}
		// configured headers apply where the entry does not define the header itself; a name
		// configured more than once carries all its values, in the order written
		own := map[string]bool{}
		for k := range x.Header {
			own[k] = true
		}
		hostSet := x.Host != ""
		for _, kv := range confHeaders {
			k := canon(kv.K)
			if k == "Host" {
				if !hostSet {
					x.Host, hostSet = kv.V, true
				}
				continue
			}
			if !own[k] {
				x.Header[k] = append(x.Header[k], kv.V)
			}
		}
		out = append(out, x)
	}
	return out
}

// ---------------- rendering ----------------

func (f AmmoFile) Render() []byte {
	rng := rand.New(rand.NewSource(f.Layout.Seed))
	var b bytes.Buffer
	ws := func() string {
		if f.Layout.SurroundWS && rng.Intn(2) == 0 {
			return []string{" ", "  ", "\t", " \t"}[rng.Intn(4)]
		}
		return ""
	}
	blank := func() {
		if f.Layout.BlankLines && rng.Intn(3) == 0 {
			for i := 0; i <= rng.Intn(2); i++ {
				if f.Layout.SurroundWS && rng.Intn(3) == 0 {
					b.WriteString("  ")
				}
				b.WriteByte('\n')
			}
		}
	}
	n := len(f.Items)
	switch f.Format {
	case "uri", "uripost":
		for i, it := range f.Items {
			blank()
			last := i == n-1
			if it.Header != nil {
				fmt.Fprintf(&b, "%s[%s:%s%s]%s", ws(), it.Header.K, []string{" ", "", "  "}[rng.Intn(3)], it.Header.V, ws())
				if !last || f.Layout.FinalNewline {
					b.WriteByte('\n')
				}
				continue
			}
			e := it.Entry
			if f.Format == "uri" {
				b.WriteString(ws() + e.URI)
				if e.Tag != "" {
					b.WriteString(" " + e.Tag)
				}
				b.WriteString(ws())
				if !last || f.Layout.FinalNewline {
					b.WriteByte('\n')
				}
				continue
			}
			fmt.Fprintf(&b, "%s%d %s", ws(), len(e.Body), e.URI)
			if e.Tag != "" {
				b.WriteString(" " + e.Tag)
			}
			b.WriteString(ws())
			if len(e.Body) > 0 {
				b.WriteByte('\n')
				b.Write(e.Body)
				if !last || f.Layout.FinalNewline {
					b.WriteByte('\n')
				}
			} else if !last || f.Layout.FinalNewline {
				b.WriteByte('\n')
			}
		}
	case "raw":
		for i, it := range f.Items {
			if it.Entry == nil {
				continue
			}
			blank()
			e := it.Entry
			var blk bytes.Buffer
			fmt.Fprintf(&blk, "%s %s HTTP/1.1\r\n", e.Method, e.URI)
			if e.Host != "" {
				fmt.Fprintf(&blk, "Host: %s\r\n", e.Host)
			}
			for _, kv := range e.Headers {
				fmt.Fprintf(&blk, "%s: %s\r\n", kv.K, kv.V)
			}
			if len(e.Body) > 0 {
				fmt.Fprintf(&blk, "Content-Length: %d\r\n", len(e.Body))
			}
			blk.WriteString("\r\n")
			blk.Write(e.Body)
			fmt.Fprintf(&b, "%s%d", ws(), blk.Len())
			if e.Tag != "" {
				b.WriteString(" " + e.Tag)
			}
			b.WriteString(ws() + "\n")
			b.Write(blk.Bytes())
			if i != n-1 || f.Layout.FinalNewline {
				b.WriteByte('\n')
			}
		}
	case "jsonline":
		var objs []map[string]any
		for _, it := range f.Items {
			if it.Entry == nil {
				continue
			}
			e := it.Entry
			o := map[string]any{"method": e.Method, "uri": e.URI}
			if e.Method == "" && len(e.URI)%2 == 0 {
				delete(o, "method")
			}
			if e.Host != "" || rng.Intn(2) == 0 {
				o["host"] = e.Host
			}
			if len(e.Headers) > 0 || rng.Intn(2) == 0 {
				h := map[string]string{}
				for _, kv := range e.Headers {
					h[kv.K] = kv.V
				}
				o["headers"] = h
			}
			if e.Tag != "" || rng.Intn(2) == 0 {
				o["tag"] = e.Tag
			}
			if len(e.Body) > 0 || rng.Intn(2) == 0 {
				o["body"] = string(e.Body)
			}
			objs = append(objs, o)
		}
		switch f.Layout.JSONMode {
		case "array":
			var js []byte
			if f.Layout.BlankLines {
				js, _ = json.MarshalIndent(objs, ws(), "  ")
			} else {
				js, _ = json.Marshal(objs)
			}
			b.WriteString(ws())
			b.Write(js)
			if f.Layout.FinalNewline {
				b.WriteByte('\n')
			}
		default:
			for i, o := range objs {
				blank()
				var js []byte
				if f.Layout.JSONMode == "pretty" {
					js, _ = json.MarshalIndent(o, "", "\t")
				} else {
					js, _ = json.Marshal(o)
				}
				b.WriteString(ws())
				b.Write(js)
				b.WriteString(ws())
				if i != len(objs)-1 || f.Layout.FinalNewline {
					b.WriteByte('\n')
				}
			}
		}
	}
	return b.Bytes()
}

// ---------------- generation ----------------

var methods = []string{"GET", "POST", "PUT", "DELETE", "HEAD", "OPTIONS", "PATCH", "PURGE"}
var headerNames = []string{"X-Req", "Accept", "User-Agent", "x-lower", "X-UPPER-CASE", "Cookie", "Authorization", "X-Tr-Id", "Content-Type", "Connection-Hint"}

func genToken(rng *rand.Rand, n int, alphabet string) string {
	b := make([]byte, n)
	for i := range b {
		b[i] = alphabet[rng.Intn(len(alphabet))]
	}
	return string(b)
}

const pathChars = "abcdefghijklmnopqrstuvwxyzABCDEFGHIJKLMNOPQRSTUVWXYZ0123456789-_.~"

func GenURI(rng *rand.Rand, vid int) string {
	var b strings.Builder
	segs := 1 + rng.Intn(3)
	for i := 0; i < segs; i++ {
		b.WriteByte('/')
		b.WriteString(genToken(rng, 1+rng.Intn(6), pathChars))
		if rng.Intn(6) == 0 {
			b.WriteString([]string{"%20", "%2F", "%41", "%C3%A9"}[rng.Intn(4)])
		}
	}
	if rng.Intn(4) == 0 {
		b.WriteByte('/')
	}
	b.WriteString(fmt.Sprintf("?vid=%d", vid))
	for i := rng.Intn(3); i > 0; i-- {
		b.WriteString("&" + genToken(rng, 1+rng.Intn(4), pathChars) + "=" + genToken(rng, rng.Intn(5), pathChars+"%20+"))
	}
	return strings.ReplaceAll(b.String(), "%20+", "+")
}

func genHeaderValue(rng *rand.Rand) string {
	switch rng.Intn(7) {
	case 0:
		return ""
	case 1:
		return "a: b; c=d"
	case 2:
		return "v [x] y"
	case 3:
		// brackets at the ends of the value: in-file header lines are themselves bracketed
		return []string{"[1,2,3]", "items[0]", "[::1]", "]x[", "[[nested]]", "[", "]"}[rng.Intn(7)]
	default:
		return genToken(rng, 1+rng.Intn(12), pathChars+" ;=,/")
	}
}

func trimHV(s string) string { return strings.TrimSpace(s) }

func genTag(rng *rand.Rand) string {
	switch rng.Intn(5) {
	case 0:
		return ""
	case 1:
		return genToken(rng, 1+rng.Intn(5), pathChars) + " " + genToken(rng, 1+rng.Intn(5), pathChars)
	case 2:
		return genToken(rng, 1+rng.Intn(3), pathChars) + "  two  spaces " + genToken(rng, 1, pathChars)
	default:
		return genToken(rng, 1+rng.Intn(8), pathChars+"#|")
	}
}

func genBody(rng *rand.Rand, binary bool) []byte {
	switch rng.Intn(6) {
	case 0:
		return nil
	case 1:
		return []byte("line1\n[X-Fake: header]\n5 /fake tag\n")
	case 2:
		return []byte("\n\n  \n")
	case 3:
		return []byte(`{"k":"v","q":"\"quoted\" é ☃"}`)
	}
	n := 1 + rng.Intn(60)
	b := make([]byte, n)
	for i := range b {
		if binary {
			b[i] = byte(rng.Intn(256))
		} else {
			b[i] = byte(32 + rng.Intn(95))
		}
	}
	return b
}

// GenAmmoFile generates a well-formed file of the given format with 1..maxEntries entries.
// Every URI carries a unique ?vid=<n> marker (n counted from vidBase).
func GenAmmoFile(rng *rand.Rand, format string, maxEntries int, vidBase int) AmmoFile {
	f := AmmoFile{Format: format, Layout: Layout{BlankLines: rng.Intn(2) == 0, SurroundWS: rng.Intn(2) == 0, FinalNewline: rng.Intn(2) == 0, Seed: rng.Int63()}}
	if format == "jsonline" {
		f.Layout.JSONMode = []string{"lines", "pretty", "array"}[rng.Intn(3)]
	}
	n := 1 + rng.Intn(maxEntries)
	for i := 0; i < n; i++ {
		if (format == "uri" || format == "uripost") && rng.Intn(3) == 0 {
			for k := rng.Intn(3); k >= 0; k-- {
				h := KV{K: headerNames[rng.Intn(len(headerNames))], V: trimHV(genHeaderValue(rng))}
				if rng.Intn(8) == 0 {
					h = KV{K: "Host", V: "h" + genToken(rng, 3, "abcdef") + ".example.org"}
				}
				if rng.Intn(20) == 0 {
					h.V = strings.Repeat("v", 4000+rng.Intn(6000))
				}
				f.Items = append(f.Items, Item{Header: &h})
			}
		}
		e := Entry{URI: GenURI(rng, vidBase+i), Tag: genTag(rng)}
		if rng.Intn(12) == 0 {
			// a long line (4–20 KB): well below every format's documented limit, but longer
			// than the buffers the decoders read with
			e.URI += "&pad=" + strings.Repeat("x", 4000+rng.Intn(16000)) + "&end=1"
		}
		switch format {
		case "uri":
			e.Method = "GET"
		case "uripost":
			e.Method = "POST"
			e.Body = genBody(rng, true)
		case "raw":
			e.Method = methods[rng.Intn(len(methods))]
			if rng.Intn(4) != 0 {
				e.Host = "raw" + genToken(rng, 3, "abcdef") + ".example.org"
			}
			seenUA := false
			for k := rng.Intn(4); k > 0; k-- {
				kv := KV{K: headerNames[rng.Intn(len(headerNames))], V: trimHV(genHeaderValue(rng))}
				// net/http sends only the first User-Agent value: repeat other names only
				if canon(kv.K) == "User-Agent" {
					if seenUA {
						continue
					}
					seenUA = true
				}
				e.Headers = append(e.Headers, kv)
			}
			if e.Method != "GET" && e.Method != "HEAD" && e.Method != "OPTIONS" {
				e.Body = genBody(rng, true)
			}
		case "jsonline":
			e.Method = methods[rng.Intn(len(methods))]
			if rng.Intn(10) == 0 {
				e.Method = "" // left out (or written as ""): GET
			}
			if rng.Intn(3) != 0 {
				e.Host = "js" + genToken(rng, 3, "abcdef") + ".example.org"
			}
			seen := map[string]bool{}
			for k := rng.Intn(4); k > 0; k-- {
				kv := KV{K: headerNames[rng.Intn(len(headerNames))], V: trimHV(genHeaderValue(rng))}
				if seen[canon(kv.K)] {
					continue
				}
				seen[canon(kv.K)] = true
				e.Headers = append(e.Headers, kv)
			}
			if e.Host != "" && rng.Intn(5) == 0 {
				e.Headers = append(e.Headers, KV{K: "Host", V: "ignored.example.org"})
			}
			e.Body = genBody(rng, false)
		}
		f.Items = append(f.Items, Item{Entry: &e})
	}
	if (format == "uripost" || format == "raw") && rng.Intn(60) == 0 {
		// payloads above 1 MiB (the decoders read those in another way), several per file
		for k := 0; k < 2+rng.Intn(2); k++ {
			e := Entry{Method: "POST", URI: GenURI(rng, vidBase+n+k), Tag: genTag(rng)}
			body := make([]byte, 1<<20+4096+rng.Intn(3))
			fill := byte('a' + k)
			for i := range body {
				body[i] = fill
			}
			copy(body, fmt.Sprintf("big-%d-", vidBase+n+k))
			e.Body = body
			if format == "raw" {
				e.Host = "rawbig.example.org"
			}
			f.Items = append(f.Items, Item{Entry: &e})
		}
	}
	return f
}

// ---------------- running a provider ----------------

var fileSeq atomic.Int64

// WriteMem writes data to a fresh file on the shared in-memory fs and returns its path.
func WriteMem(data []byte) string {
	p := fmt.Sprintf("/verif/ammo-%d", fileSeq.Add(1))
	_ = WriteMemAt(p, data)
	return p
}

// WriteMemAt writes data at the given path of the in-memory fs.
func WriteMemAt(p string, data []byte) error {
	_ = Fs().MkdirAll(path.Dir(p), 0o755)
	return afero.WriteFile(Fs(), p, data, 0o644)
}

func RemoveMem(p string) { _ = Fs().Remove(p) }

// NewProvider decodes a provider from a config map ({type: uri, file: …, limit: …}) through
// the plugin config hooks, exactly as a pool's `ammo:` section is decoded.
func NewProvider(conf map[string]any) (core.Provider, error) {
	Fs()
	var h struct {
		P core.Provider `config:"ammo" validate:"required"`
	}
	err := config.DecodeAndValidate(map[string]any{"ammo": conf}, &h)
	return h.P, err
}

// Got is one ammo as seen through the gun-facing interface.
type Got struct {
	Expect
	ID uint64 `json:"id"`
}

type httpAmmo interface {
	Request() (*http.Request, *netsample.Sample)
	ID() uint64
}

// OpenHTTPAmmo reads an acquired HTTP ammo through the interface the guns use.
func OpenHTTPAmmo(a core.Ammo) (Got, error) {
	ha, ok := a.(httpAmmo)
	if !ok {
		return Got{}, fmt.Errorf("ammo of type %T is not an HTTP ammo", a)
	}
	req, sample := ha.Request()
	g := Got{ID: ha.ID()}
	g.Tag = sample.Tags()
	g.Method = req.Method
	g.URI = req.URL.RequestURI()
	g.Host = req.Host
	g.Header = req.Header.Clone()
	if req.Body != nil {
		b, err := io.ReadAll(req.Body)
		if err != nil {
			return g, err
		}
		if len(b) > 0 {
			g.Body = b
		}
	}
	return g, nil
}

type DrainResult struct {
	Items     []core.Ammo
	RunErr    error
	RunDone   bool // Run returned by itself (or after cancel) within the watchdog
	Cancelled bool // the drain had to cancel the provider (unbounded)
	EndOK     bool // every consumer saw ok=false
	Hang      string
	Panic     string // a panic inside Run or Acquire/Release (recovered by the harness goroutine)
	// EndedByConsumers: all consumers got ok=false before Run returned, and the harness
	// cancelled the provider as the engine does when all instances have finished.
	EndedByConsumers bool
}

// Drain runs the provider with n consumers until every consumer sees ok=false and Run
// returns, or until max items were delivered (then the context is cancelled), with a
// watchdog. Items are in acquisition order only when consumers == 1.
func Drain(p core.Provider, consumers, max int, watchdog time.Duration) DrainResult {
	return drain(p, consumers, max, watchdog, 0)
}

// DrainLate is Drain with one consumer that only begins to acquire once Run has returned, or
// after the given delay if Run is still going (blocked on its full queue) by then.
func DrainLate(p core.Provider, max int, watchdog, delay time.Duration) DrainResult {
	return drain(p, 1, max, watchdog, delay)
}

func drain(p core.Provider, consumers, max int, watchdog, lateBy time.Duration) DrainResult {
	ctx, cancel := context.WithCancel(context.Background())
	runReturned := make(chan struct{})
	defer cancel()
	var res DrainResult
	runDone := make(chan error, 1)
	var mu sync.Mutex
	notePanic := func(where string) {
		if r := recover(); r != nil {
			mu.Lock()
			if res.Panic == "" {
				res.Panic = fmt.Sprintf("panic in %s: %v\n%s", where, r, debug.Stack())
			}
			mu.Unlock()
			cancel()
		}
	}
	go func() {
		var err error
		defer func() { runDone <- err; close(runReturned) }()
		defer notePanic("Provider.Run")
		err = p.Run(ctx, core.ProviderDeps{Log: zap.NewNop(), PoolID: "verif"})
	}()
	var count atomic.Int64
	var wg sync.WaitGroup
	for i := 0; i < consumers; i++ {
		wg.Add(1)
		go func() {
			defer wg.Done()
			defer notePanic("Provider.Acquire/Release")
			if lateBy > 0 {
				select {
				case <-runReturned:
				case <-time.After(lateBy):
				}
			}
			for {
				a, ok := p.Acquire()
				if !ok {
					return
				}
				mu.Lock()
				res.Items = append(res.Items, a)
				mu.Unlock()
				p.Release(a)
				if int(count.Add(1)) >= max {
					mu.Lock()
					res.Cancelled = true
					mu.Unlock()
					cancel()
					return
				}
			}
		}()
	}
	consDone := make(chan struct{})
	go func() { wg.Wait(); close(consDone) }()
	timer := time.NewTimer(watchdog)
	defer timer.Stop()
	gotRun, gotCons := false, false
	for !gotRun || !gotCons {
		select {
		case err := <-runDone:
			res.RunErr, res.RunDone, gotRun = err, true, true
		case <-consDone:
			res.EndOK, gotCons = true, true
			consDone = nil
			if !gotRun {
				// Every consumer has seen end of ammo while Run is still going (e.g. an ammo
				// whose request cannot be built ends the consumer). The engine cancels the
				// provider once all instances have finished; do the same after a short grace.
				select {
				case err := <-runDone:
					res.RunErr, res.RunDone, gotRun = err, true, true
				case <-time.After(300 * time.Millisecond):
					res.EndedByConsumers = true
					cancel()
				}
			}
		case <-timer.C:
			var what []string
			if !gotRun {
				what = append(what, "Run did not return")
			}
			if !gotCons {
				what = append(what, "a consumer is still blocked in Acquire")
			}
			res.Hang = strings.Join(what, " and ")
			cancel()
			// give it a moment to honour the cancel, for the report
			select {
			case err := <-runDone:
				res.RunErr = err
				res.Hang += " (Run returned after cancel)"
			case <-time.After(500 * time.Millisecond):
				res.Hang += " (Run ignores cancel)"
			}
			return res
		}
	}
	return res
}

// DiffExpect compares a delivered ammo with the model; "" when equal.
func DiffExpect(g Got, x Expect) string {
	var d []string
	if g.Method != x.Method {
		d = append(d, fmt.Sprintf("method %q want %q", g.Method, x.Method))
	}
	if g.URI != x.URI {
		d = append(d, fmt.Sprintf("uri %s want %s", short(g.URI), short(x.URI)))
	}
	if g.Host != x.Host {
		d = append(d, fmt.Sprintf("host %q want %q", g.Host, x.Host))
	}
	if !bytes.Equal(g.Body, x.Body) {
		d = append(d, fmt.Sprintf("body %s want %s", short(string(g.Body)), short(string(x.Body))))
	}
	if g.Tag != x.Tag && !(x.Tag == "" && g.Tag == "__EMPTY__") {
		d = append(d, fmt.Sprintf("tag %q want %q", g.Tag, x.Tag))
	}
	if hd := DiffHeader(g.Header, x.Header); hd != "" {
		d = append(d, "headers: "+hd)
	}
	return strings.Join(d, "; ")
}

// short quotes a value, cutting long ones (generated queries and bodies can be megabytes).
func short(s string) string {
	if len(s) <= 160 {
		return fmt.Sprintf("%q", s)
	}
	return fmt.Sprintf("%q…(%d bytes)…%q", s[:80], len(s), s[len(s)-40:])
}

func DiffHeader(got, want http.Header) string {
	var d []string
	keys := map[string]bool{}
	for k := range got {
		keys[k] = true
	}
	for k := range want {
		keys[k] = true
	}
	var ks []string
	for k := range keys {
		ks = append(ks, k)
	}
	sort.Strings(ks)
	for _, k := range ks {
		g, w := got[k], want[k]
		if fmt.Sprint(g) != fmt.Sprint(w) {
			d = append(d, fmt.Sprintf("%s=%q want %q", k, g, w))
		}
	}
	return strings.Join(d, ", ")
}

// ConfHeaders renders KVs as the provider's `headers` option.
func ConfHeaders(kvs []KV) []any {
	var out []any
	for _, kv := range kvs {
		out = append(out, fmt.Sprintf("[%s: %s]", kv.K, kv.V))
	}
	return out
}
