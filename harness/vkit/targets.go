package vkit

import (
	"crypto/ecdsa"
	"crypto/elliptic"
	"crypto/rand"
	"crypto/tls"
	"crypto/x509"
	"crypto/x509/pkix"
	"io"
	"math/big"
	"net"
	"net/http"
	"sync"
	"sync/atomic"
	"time"
)

// ReqRec is one request as received by the target.
type ReqRec struct {
	Seq    int
	Method string
	URI    string
	Host   string
	Header http.Header
	Body   []byte
	Conn   string // remote address = connection identity
	At     time.Time
	TLS    bool
	Proto  string
}

// HTTPTarget is an in-process recording HTTP(S) server.
type HTTPTarget struct {
	Addr       string
	ln         net.Listener
	srv        *http.Server
	mu         sync.Mutex
	reqs       []*ReqRec
	NewConns   atomic.Int64
	Connects   atomic.Int64 // CONNECT requests served (tunnels)
	tunnelOnce sync.Once
	tunnelLn   *chanListener
	// Respond writes the response; nil ⇒ 200 "ok". It runs after the request was recorded.
	Respond func(rec *ReqRec, w http.ResponseWriter, r *http.Request)
}

func NewHTTPTarget(useTLS bool) (*HTTPTarget, error) { return NewHTTPTargetAt("127.0.0.1:0", useTLS) }

// FreePort returns a loopback port that was free a moment ago (nothing listens on it now).
func FreePort() int {
	ln, err := net.Listen("tcp", "127.0.0.1:0")
	if err != nil {
		return 0
	}
	defer ln.Close()
	return ln.Addr().(*net.TCPAddr).Port
}

// NewHTTPTargetAt starts the recording target on a given address (a target that comes up late).
func NewHTTPTargetAt(addr string, useTLS bool) (*HTTPTarget, error) {
	ln, err := net.Listen("tcp", addr)
	if err != nil {
		return nil, err
	}
	t := &HTTPTarget{Addr: ln.Addr().String(), ln: ln}
	t.srv = &http.Server{
		Handler: http.HandlerFunc(t.handle),
		ConnState: func(c net.Conn, s http.ConnState) {
			if s == http.StateNew {
				t.NewConns.Add(1)
			}
		},
		ReadHeaderTimeout: 30 * time.Second,
	}
	if useTLS {
		cert, err := selfSigned()
		if err != nil {
			return nil, err
		}
		t.srv.TLSConfig = &tls.Config{Certificates: []tls.Certificate{cert}, NextProtos: []string{"h2", "http/1.1"}}
		go func() { _ = t.srv.ServeTLS(ln, "", "") }()
	} else {
		go func() { _ = t.srv.Serve(ln) }()
	}
	return t, nil
}

// chanListener feeds hijacked CONNECT tunnels back into an HTTP server.
type chanListener struct {
	ch   chan net.Conn
	addr net.Addr
	done chan struct{}
}

func (l *chanListener) Accept() (net.Conn, error) {
	select {
	case c := <-l.ch:
		return c, nil
	case <-l.done:
		return nil, net.ErrClosed
	}
}
func (l *chanListener) Close() error   { return nil }
func (l *chanListener) Addr() net.Addr { return l.addr }

func (t *HTTPTarget) handle(w http.ResponseWriter, r *http.Request) {
	if r.Method == http.MethodConnect {
		// act as the proxy and as the origin: answer 200 and serve HTTP inside the tunnel
		t.Connects.Add(1)
		hj, ok := w.(http.Hijacker)
		if !ok {
			w.WriteHeader(500)
			return
		}
		c, _, err := hj.Hijack()
		if err != nil {
			return
		}
		_, _ = c.Write([]byte("HTTP/1.1 200 OK\r\n\r\n"))
		t.tunnelOnce.Do(func() {
			t.tunnelLn = &chanListener{ch: make(chan net.Conn, 64), addr: t.ln.Addr(), done: make(chan struct{})}
			inner := &http.Server{Handler: http.HandlerFunc(t.handle)}
			go func() { _ = inner.Serve(t.tunnelLn) }()
		})
		t.tunnelLn.ch <- c
		return
	}
	body, _ := io.ReadAll(r.Body)
	rec := &ReqRec{Method: r.Method, URI: r.RequestURI, Host: r.Host, Header: r.Header.Clone(), Body: body,
		Conn: r.RemoteAddr, At: time.Now(), TLS: r.TLS != nil, Proto: r.Proto}
	t.mu.Lock()
	rec.Seq = len(t.reqs)
	t.reqs = append(t.reqs, rec)
	t.mu.Unlock()
	if t.Respond != nil {
		t.Respond(rec, w, r)
		return
	}
	w.WriteHeader(200)
	_, _ = w.Write([]byte("ok"))
}

// Requests returns a snapshot of the requests received so far.
func (t *HTTPTarget) Requests() []*ReqRec {
	t.mu.Lock()
	defer t.mu.Unlock()
	return append([]*ReqRec(nil), t.reqs...)
}

func (t *HTTPTarget) Count() int {
	t.mu.Lock()
	defer t.mu.Unlock()
	return len(t.reqs)
}

func (t *HTTPTarget) Reset() {
	t.mu.Lock()
	t.reqs = nil
	t.mu.Unlock()
	t.NewConns.Store(0)
	t.Connects.Store(0)
}

func (t *HTTPTarget) Close() {
	if t.srv != nil {
		_ = t.srv.Close()
	}
}

// SelfSignedCert returns a fresh self-signed certificate for 127.0.0.1 / localhost.
func SelfSignedCert() (tls.Certificate, error) { return selfSigned() }

func selfSigned() (tls.Certificate, error) {
	key, err := ecdsa.GenerateKey(elliptic.P256(), rand.Reader)
	if err != nil {
		return tls.Certificate{}, err
	}
	tmpl := &x509.Certificate{SerialNumber: big.NewInt(1), Subject: pkix.Name{CommonName: "verif-target"},
		NotBefore: time.Now().Add(-time.Hour), NotAfter: time.Now().Add(24 * time.Hour),
		KeyUsage: x509.KeyUsageDigitalSignature | x509.KeyUsageKeyEncipherment, ExtKeyUsage: []x509.ExtKeyUsage{x509.ExtKeyUsageServerAuth},
		IPAddresses: []net.IP{net.ParseIP("127.0.0.1")}, DNSNames: []string{"localhost"}}
	der, err := x509.CreateCertificate(rand.Reader, tmpl, tmpl, &key.PublicKey, key)
	if err != nil {
		return tls.Certificate{}, err
	}
	return tls.Certificate{Certificate: [][]byte{der}, PrivateKey: key}, nil
}

// RawTarget is a plain TCP listener that runs a scripted handler per connection.
type RawTarget struct {
	Addr    string
	ln      net.Listener
	Conns   atomic.Int64
	Handler func(c net.Conn, n int64)
}

func NewRawTarget(h func(c net.Conn, n int64)) (*RawTarget, error) {
	ln, err := net.Listen("tcp", "127.0.0.1:0")
	if err != nil {
		return nil, err
	}
	t := &RawTarget{Addr: ln.Addr().String(), ln: ln, Handler: h}
	go func() {
		for {
			c, err := ln.Accept()
			if err != nil {
				return
			}
			n := t.Conns.Add(1)
			go func() {
				defer c.Close()
				t.Handler(c, n)
			}()
		}
	}()
	return t, nil
}

func (t *RawTarget) Close() { _ = t.ln.Close() }

// ClosedPort returns an address on which nothing listens.
func ClosedPort() string {
	ln, _ := net.Listen("tcp", "127.0.0.1:0")
	a := ln.Addr().String()
	_ = ln.Close()
	return a
}
