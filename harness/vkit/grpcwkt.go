package vkit

import (
	"context"
	"sync"

	"google.golang.org/grpc"
	"google.golang.org/protobuf/proto"
	"google.golang.org/protobuf/reflect/protodesc"
	"google.golang.org/protobuf/reflect/protoregistry"
	"google.golang.org/protobuf/types/descriptorpb"
	"google.golang.org/protobuf/types/known/durationpb"
	"google.golang.org/protobuf/types/known/emptypb"
	"google.golang.org/protobuf/types/known/structpb"
	"google.golang.org/protobuf/types/known/timestamppb"
	"google.golang.org/protobuf/types/known/wrapperspb"
)

// A second service on the gRPC target whose methods answer with protobuf well-known types
// (Empty, Timestamp, Duration, Struct, StringValue) — valid and common in real services, and
// returned by grpc stubs as their generated Go types, not as dynamic messages. Its descriptor
// is built at run time and put into the global registry, so server reflection serves it.

type wktServer interface{}

var wktOnce sync.Once

func registerWKTService(s *grpc.Server) {
	wktOnce.Do(func() {
		str := func(x string) *string { return &x }
		empty := ".google.protobuf.Empty"
		fdp := &descriptorpb.FileDescriptorProto{
			Name: str("verif_wkt.proto"), Package: str("verifwkt"), Syntax: str("proto3"),
			Dependency: []string{"google/protobuf/empty.proto", "google/protobuf/timestamp.proto", "google/protobuf/duration.proto", "google/protobuf/struct.proto", "google/protobuf/wrappers.proto"},
			Service: []*descriptorpb.ServiceDescriptorProto{{Name: str("Wkt"), Method: []*descriptorpb.MethodDescriptorProto{
				{Name: str("Ping"), InputType: str(empty), OutputType: str(empty)},
				{Name: str("Now"), InputType: str(empty), OutputType: str(".google.protobuf.Timestamp")},
				{Name: str("Took"), InputType: str(empty), OutputType: str(".google.protobuf.Duration")},
				{Name: str("Info"), InputType: str(empty), OutputType: str(".google.protobuf.Struct")},
				{Name: str("Name"), InputType: str(empty), OutputType: str(".google.protobuf.StringValue")},
			}}},
		}
		// make sure the dependencies are linked in and registered
		_ = []proto.Message{&emptypb.Empty{}, &timestamppb.Timestamp{}, &durationpb.Duration{}, &structpb.Struct{}, &wrapperspb.StringValue{}}
		if fd, err := protodesc.NewFile(fdp, protoregistry.GlobalFiles); err == nil {
			_ = protoregistry.GlobalFiles.RegisterFile(fd)
		}
	})
	reply := func(out func() proto.Message) func(any, context.Context, func(any) error, grpc.UnaryServerInterceptor) (any, error) {
		return func(srv any, ctx context.Context, dec func(any) error, interceptor grpc.UnaryServerInterceptor) (any, error) {
			in := new(emptypb.Empty)
			if err := dec(in); err != nil {
				return nil, err
			}
			h := func(ctx context.Context, req any) (any, error) { return out(), nil }
			if interceptor == nil {
				return h(ctx, in)
			}
			return interceptor(ctx, in, &grpc.UnaryServerInfo{Server: srv, FullMethod: "/verifwkt.Wkt/x"}, h)
		}
	}
	s.RegisterService(&grpc.ServiceDesc{ServiceName: "verifwkt.Wkt", HandlerType: (*wktServer)(nil), Metadata: "verif_wkt.proto",
		Methods: []grpc.MethodDesc{
			{MethodName: "Ping", Handler: reply(func() proto.Message { return &emptypb.Empty{} })},
			{MethodName: "Now", Handler: reply(func() proto.Message { return timestamppb.Now() })},
			{MethodName: "Took", Handler: reply(func() proto.Message { return durationpb.New(1500000000) })},
			{MethodName: "Info", Handler: reply(func() proto.Message {
				s, _ := structpb.NewStruct(map[string]any{"k": "v", "n": 1.5})
				return s
			})},
			{MethodName: "Name", Handler: reply(func() proto.Message { return wrapperspb.String("wrapped") })},
		}}, struct{}{})
}
