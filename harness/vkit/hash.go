package vkit

import (
	"crypto/sha1"
	"encoding/hex"
	"fmt"
	"hash"
	"reflect"
	"sort"
	"strings"
	"unsafe"
)

// DeepHash computes a structural hash of v including unexported fields. Values whose type
// lives in sync, sync/atomic, math/rand or go.uber.org/atomic (locks, counters, PRNG state),
// functions, channels and unsafe pointers are skipped, and so is every type for which skip
// returns true. It is used to show that shared definitions are not altered by a run.
func DeepHash(v any, skip func(t reflect.Type) bool) string {
	h := sha1.New()
	w := &hasher{h: h, seen: map[uintptr]bool{}, skip: skip}
	w.walk(reflect.ValueOf(v), 0)
	return hex.EncodeToString(h.Sum(nil))
}

// DeepHash2 is DeepHash for a reflect.Value (e.g. an unexported field found by FindField).
func DeepHash2(v reflect.Value, skip func(t reflect.Type) bool) string {
	h := sha1.New()
	w := &hasher{h: h, seen: map[uintptr]bool{}, skip: skip}
	w.walk(v, 0)
	return hex.EncodeToString(h.Sum(nil))
}

type hasher struct {
	h    hash.Hash
	seen map[uintptr]bool
	skip func(t reflect.Type) bool
}

func (w *hasher) put(s string) { _, _ = w.h.Write([]byte(s)); _, _ = w.h.Write([]byte{0}) }

var skipPkgs = map[string]bool{"sync": true, "sync/atomic": true, "math/rand": true, "go.uber.org/atomic": true, "go.uber.org/zap": true}

func (w *hasher) walk(v reflect.Value, depth int) {
	if !v.IsValid() {
		w.put("<invalid>")
		return
	}
	if depth > 40 {
		return
	}
	t := v.Type()
	if skipPkgs[t.PkgPath()] || (w.skip != nil && w.skip(t)) {
		return
	}
	switch v.Kind() {
	case reflect.Bool:
		w.put(fmt.Sprint(v.Bool()))
	case reflect.Int, reflect.Int8, reflect.Int16, reflect.Int32, reflect.Int64:
		w.put(fmt.Sprint(v.Int()))
	case reflect.Uint, reflect.Uint8, reflect.Uint16, reflect.Uint32, reflect.Uint64, reflect.Uintptr:
		w.put(fmt.Sprint(v.Uint()))
	case reflect.Float32, reflect.Float64:
		w.put(fmt.Sprint(v.Float()))
	case reflect.Complex64, reflect.Complex128:
		w.put(fmt.Sprint(v.Complex()))
	case reflect.String:
		w.put("s:" + v.String())
	case reflect.Ptr:
		if v.IsNil() {
			w.put("nil")
			return
		}
		if skipPkgs[t.Elem().PkgPath()] || (w.skip != nil && w.skip(t.Elem())) {
			return
		}
		if w.seen[v.Pointer()] {
			w.put("cycle")
			return
		}
		w.seen[v.Pointer()] = true
		w.put("ptr")
		w.walk(v.Elem(), depth+1)
	case reflect.Interface:
		if v.IsNil() {
			w.put("nil")
			return
		}
		w.put("iface:" + v.Elem().Type().String())
		w.walk(v.Elem(), depth+1)
	case reflect.Struct:
		w.put("struct:" + t.String())
		for i := 0; i < v.NumField(); i++ {
			w.put(t.Field(i).Name)
			w.walk(v.Field(i), depth+1)
		}
	case reflect.Slice:
		if v.IsNil() {
			w.put("nilslice")
			return
		}
		fallthrough
	case reflect.Array:
		w.put(fmt.Sprintf("len:%d", v.Len()))
		if t.Elem().Kind() == reflect.Uint8 && v.Kind() == reflect.Slice {
			w.put(string(v.Bytes()))
			return
		}
		for i := 0; i < v.Len(); i++ {
			w.walk(v.Index(i), depth+1)
		}
	case reflect.Map:
		if v.IsNil() {
			w.put("nilmap")
			return
		}
		w.put(fmt.Sprintf("map:%d", v.Len()))
		type kv struct {
			k string
			v reflect.Value
		}
		var kvs []kv
		it := v.MapRange()
		for it.Next() {
			kh := &hasher{h: sha1.New(), seen: map[uintptr]bool{}, skip: w.skip}
			kh.walk(it.Key(), depth+1)
			kvs = append(kvs, kv{hex.EncodeToString(kh.h.Sum(nil)), it.Value()})
		}
		sort.Slice(kvs, func(i, j int) bool { return kvs[i].k < kvs[j].k })
		for _, e := range kvs {
			w.put(e.k)
			w.walk(e.v, depth+1)
		}
	}
}

// FindField searches the object graph of root (through pointers, interfaces and struct
// fields, unexported included) for the first struct field with the given name and returns it.
func FindField(root any, name string) (reflect.Value, bool) {
	seen := map[uintptr]bool{}
	var found reflect.Value
	var walk func(v reflect.Value, depth int) bool
	walk = func(v reflect.Value, depth int) bool {
		if !v.IsValid() || depth > 10 {
			return false
		}
		switch v.Kind() {
		case reflect.Ptr:
			if v.IsNil() || seen[v.Pointer()] {
				return false
			}
			seen[v.Pointer()] = true
			return walk(v.Elem(), depth+1)
		case reflect.Interface:
			if v.IsNil() {
				return false
			}
			return walk(v.Elem(), depth+1)
		case reflect.Struct:
			t := v.Type()
			if strings.HasPrefix(t.PkgPath(), "sync") {
				return false
			}
			for i := 0; i < v.NumField(); i++ {
				if t.Field(i).Name == name {
					found = v.Field(i)
					return true
				}
			}
			for i := 0; i < v.NumField(); i++ {
				f := v.Field(i)
				if !f.CanInterface() && f.CanAddr() {
					f = reflect.NewAt(f.Type(), unsafe.Pointer(f.UnsafeAddr())).Elem()
				}
				if walk(f, depth+1) {
					return true
				}
			}
		}
		return false
	}
	ok := walk(reflect.ValueOf(root), 0)
	return found, ok
}
