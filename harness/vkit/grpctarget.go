package vkit

import (
	"context"
	"net"
	"sync"
	"time"

	server "github.com/yandex/pandora/examples/grpc/server"
	"google.golang.org/grpc"
	"google.golang.org/grpc/codes"
	"google.golang.org/grpc/metadata"
	"google.golang.org/grpc/reflection"
	"google.golang.org/grpc/status"
	"google.golang.org/protobuf/proto"
)

// CallRec is one unary call as received by the gRPC target.
type CallRec struct {
	Seq         int
	Method      string // full method, e.g. /target.TargetService/Hello
	Req         proto.Message
	MD          metadata.MD
	HasDeadline bool
	Timeout     time.Duration // deadline − arrival
	At          time.Time
}

// GRPCTarget implements the example TargetService with reflection and records every call.
type GRPCTarget struct {
	server.UnimplementedTargetServiceServer
	Addr  string
	srv   *grpc.Server
	mu    sync.Mutex
	calls []*CallRec
	// Status decides the reply per call; nil or codes.OK ⇒ a normal response.
	Status func(rec *CallRec) (codes.Code, string)
	// Delay is applied before replying.
	Delay func(rec *CallRec) time.Duration
}

func NewGRPCTarget() (*GRPCTarget, error) {
	ln, err := net.Listen("tcp", "127.0.0.1:0")
	if err != nil {
		return nil, err
	}
	t := &GRPCTarget{Addr: ln.Addr().String()}
	t.srv = grpc.NewServer(grpc.UnaryInterceptor(t.intercept))
	server.RegisterTargetServiceServer(t.srv, t)
	registerWKTService(t.srv)
	reflection.Register(t.srv)
	go func() { _ = t.srv.Serve(ln) }()
	return t, nil
}

func (t *GRPCTarget) intercept(ctx context.Context, req any, info *grpc.UnaryServerInfo, handler grpc.UnaryHandler) (any, error) {
	rec := &CallRec{Method: info.FullMethod, At: time.Now()}
	if m, ok := req.(proto.Message); ok {
		rec.Req = proto.Clone(m)
	}
	if md, ok := metadata.FromIncomingContext(ctx); ok {
		rec.MD = md.Copy()
	}
	if dl, ok := ctx.Deadline(); ok {
		rec.HasDeadline = true
		rec.Timeout = dl.Sub(rec.At)
	}
	t.mu.Lock()
	rec.Seq = len(t.calls)
	t.calls = append(t.calls, rec)
	t.mu.Unlock()
	if t.Delay != nil {
		if d := t.Delay(rec); d > 0 {
			select {
			case <-time.After(d):
			case <-ctx.Done():
			}
		}
	}
	if t.Status != nil {
		if c, msg := t.Status(rec); c != codes.OK {
			return nil, status.Error(c, msg)
		}
	}
	return handler(ctx, req)
}

func (t *GRPCTarget) Hello(_ context.Context, r *server.HelloRequest) (*server.HelloResponse, error) {
	return &server.HelloResponse{Hello: "Hello " + r.Name + "!"}, nil
}
func (t *GRPCTarget) Auth(_ context.Context, r *server.AuthRequest) (*server.AuthResponse, error) {
	return &server.AuthResponse{UserId: 1, Token: "tok-" + r.Login}, nil
}
func (t *GRPCTarget) List(_ context.Context, r *server.ListRequest) (*server.ListResponse, error) {
	return &server.ListResponse{Result: []*server.ListItem{{ItemId: r.UserId*1000 + 1}, {ItemId: r.UserId*1000 + 2}}}, nil
}
func (t *GRPCTarget) Order(_ context.Context, r *server.OrderRequest) (*server.OrderResponse, error) {
	return &server.OrderResponse{OrderId: r.ItemId + 12345}, nil
}

func (t *GRPCTarget) Calls() []*CallRec {
	t.mu.Lock()
	defer t.mu.Unlock()
	return append([]*CallRec(nil), t.calls...)
}

func (t *GRPCTarget) ResetCalls() {
	t.mu.Lock()
	t.calls = nil
	t.mu.Unlock()
}

func (t *GRPCTarget) Close() { t.srv.Stop() }
