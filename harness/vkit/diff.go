package vkit

import (
	"fmt"
	"reflect"
	"sort"
)

// Diff is a normalised deep comparison used by the differential monitors: exported struct
// fields only, nil ≡ empty for maps and slices, pointers and interfaces are followed (a nil
// pointer differs from a pointer to a zero value), functions and channels are ignored.
// It returns "" when equal, else the path and the two values of the first difference.
func Diff(a, b any) string {
	return diffValue("", reflect.ValueOf(a), reflect.ValueOf(b), 0)
}

func diffValue(path string, a, b reflect.Value, depth int) string {
	if depth > 60 {
		return ""
	}
	if !a.IsValid() || !b.IsValid() {
		if a.IsValid() != b.IsValid() {
			// an invalid value is an untyped nil: equal to nil/empty things
			v := a
			if !v.IsValid() {
				v = b
			}
			if isEmptyish(v) {
				return ""
			}
			return fmt.Sprintf("%s: one side is nil, the other is %s", path, show(v))
		}
		return ""
	}
	// unwrap interfaces
	if a.Kind() == reflect.Interface || b.Kind() == reflect.Interface {
		if a.Kind() == reflect.Interface {
			if a.IsNil() {
				a = reflect.Value{}
			} else {
				a = a.Elem()
			}
		}
		if b.Kind() == reflect.Interface {
			if b.IsNil() {
				b = reflect.Value{}
			} else {
				b = b.Elem()
			}
		}
		return diffValue(path, a, b, depth+1)
	}
	if a.Type() != b.Type() {
		return fmt.Sprintf("%s: type %s vs %s", path, a.Type(), b.Type())
	}
	switch a.Kind() {
	case reflect.Ptr:
		if a.IsNil() || b.IsNil() {
			if a.IsNil() != b.IsNil() {
				return fmt.Sprintf("%s: nil pointer vs %s", path, show(nonNil(a, b)))
			}
			return ""
		}
		return diffValue(path, a.Elem(), b.Elem(), depth+1)
	case reflect.Struct:
		t := a.Type()
		for i := 0; i < t.NumField(); i++ {
			f := t.Field(i)
			if f.PkgPath != "" { // unexported
				continue
			}
			if d := diffValue(path+"."+f.Name, a.Field(i), b.Field(i), depth+1); d != "" {
				return d
			}
		}
		return ""
	case reflect.Slice, reflect.Array:
		if a.Len() != b.Len() {
			return fmt.Sprintf("%s: length %d vs %d (%s vs %s)", path, a.Len(), b.Len(), show(a), show(b))
		}
		for i := 0; i < a.Len(); i++ {
			if d := diffValue(fmt.Sprintf("%s[%d]", path, i), a.Index(i), b.Index(i), depth+1); d != "" {
				return d
			}
		}
		return ""
	case reflect.Map:
		if a.Len() != b.Len() {
			return fmt.Sprintf("%s: map size %d vs %d (%s vs %s)", path, a.Len(), b.Len(), show(a), show(b))
		}
		keys := a.MapKeys()
		sort.Slice(keys, func(i, j int) bool { return fmt.Sprint(keys[i]) < fmt.Sprint(keys[j]) })
		for _, k := range keys {
			bv := b.MapIndex(k)
			if !bv.IsValid() {
				return fmt.Sprintf("%s: key %q missing on one side", path, fmt.Sprint(k))
			}
			if d := diffValue(fmt.Sprintf("%s[%q]", path, fmt.Sprint(k)), a.MapIndex(k), bv, depth+1); d != "" {
				return d
			}
		}
		return ""
	case reflect.Func, reflect.Chan, reflect.UnsafePointer:
		return ""
	default:
		if a.CanInterface() && b.CanInterface() {
			if !reflect.DeepEqual(a.Interface(), b.Interface()) {
				return fmt.Sprintf("%s: %s vs %s", path, show(a), show(b))
			}
			return ""
		}
		if fmt.Sprint(a) != fmt.Sprint(b) {
			return fmt.Sprintf("%s: %v vs %v", path, a, b)
		}
		return ""
	}
}

func nonNil(a, b reflect.Value) reflect.Value {
	if a.IsNil() {
		return b
	}
	return a
}

func isEmptyish(v reflect.Value) bool {
	switch v.Kind() {
	case reflect.Map, reflect.Slice:
		return v.Len() == 0
	case reflect.Ptr, reflect.Interface:
		return v.IsNil()
	}
	return false
}

func show(v reflect.Value) string {
	s := fmt.Sprintf("%#v", v)
	if v.Kind() == reflect.Ptr && !v.IsNil() {
		s = "&" + fmt.Sprintf("%#v", v.Elem())
	}
	if len(s) > 300 {
		s = s[:300] + "…"
	}
	return s
}
