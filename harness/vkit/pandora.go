package vkit

import (
	"sync"

	"github.com/spf13/afero"
	grpcimport "github.com/yandex/pandora/components/grpc/import"
	phttpimport "github.com/yandex/pandora/components/phttp/import"
	"github.com/yandex/pandora/core/engine"
	coreimport "github.com/yandex/pandora/core/import"
	"github.com/yandex/pandora/lib/monitoring"
	"go.uber.org/zap"
)

var (
	importOnce sync.Once
	memFs      afero.Fs
)

// Fs imports all pandora components once per process (Import panics when called twice) on a
// single in-memory filesystem and returns that filesystem.
func Fs() afero.Fs {
	importOnce.Do(func() {
		memFs = afero.NewMemMapFs()
		coreimport.Import(memFs)
		phttpimport.Import(memFs)
		grpcimport.Import(memFs)
	})
	return memFs
}

// OsFsImport is like Fs but imports the components on the real filesystem (for monitors that
// need real files). Only one of Fs/OsFsImport may be used in a process.
func OsFsImport() afero.Fs {
	importOnce.Do(func() {
		memFs = afero.NewOsFs()
		coreimport.Import(memFs)
		phttpimport.Import(memFs)
		grpcimport.Import(memFs)
	})
	return memFs
}

// NewMetrics returns fresh engine metrics.
func NewMetrics() engine.Metrics {
	// Counters are not published to expvar (NewCounter panics on duplicate names).
	return engine.Metrics{
		Request:        &monitoring.Counter{},
		Response:       &monitoring.Counter{},
		InstanceStart:  &monitoring.Counter{},
		InstanceFinish: &monitoring.Counter{},
	}
}

func NopLog() *zap.Logger { return zap.NewNop() }
