package vkit

import (
	"errors"
	"os"
	"strconv"
	"strings"
	"sync"
	"sync/atomic"
	"time"

	"github.com/spf13/afero"
	grpcimport "github.com/yandex/pandora/components/grpc/import"
	phttpimport "github.com/yandex/pandora/components/phttp/import"
	"github.com/yandex/pandora/core/config"
	"github.com/yandex/pandora/core/engine"
	coreimport "github.com/yandex/pandora/core/import"
	"github.com/yandex/pandora/lib/monitoring"
	"go.uber.org/zap"
)

var (
	importOnce sync.Once
	memFs      afero.Fs
)

// Fs imports all pandora components once per process (Import panics when called twice) on a
// single in-memory filesystem and returns that filesystem.
func Fs() afero.Fs {
	importOnce.Do(func() {
		var base afero.Fs = afero.NewMemMapFs()
		if os.Getenv("VERIF_FS") == "os" {
			// the same paths on the real filesystem, under a scratch directory: files are *os.File
			// (a second Close fails, reads can be short, …), as in a real run
			if dir, err := os.MkdirTemp(TmpDir(), "osfs"); err == nil {
				base = afero.NewBasePathFs(afero.NewOsFs(), dir)
			}
		}
		memFs = &slowFs{Fs: base}
		coreimport.Import(memFs)
		phttpimport.Import(memFs)
		grpcimport.Import(memFs)
		warmUpDecoder()
	})
	return memFs
}

// warmUpDecoder makes the first config decode of the process here, on one goroutine, as the CLI
// does when it reads its config: core/config compiles its hook chain lazily and without a lock
// on the first decode, so a monitor whose first decodes run in parallel would race there.
func warmUpDecoder() {
	var sink struct{}
	_ = config.Decode(map[string]any{}, &sink)
}

// OsFsImport is like Fs but imports the components on the real filesystem (for monitors that
// need real files). Only one of Fs/OsFsImport may be used in a process.
func OsFsImport() afero.Fs {
	importOnce.Do(func() {
		memFs = afero.NewOsFs()
		coreimport.Import(memFs)
		phttpimport.Import(memFs)
		grpcimport.Import(memFs)
		warmUpDecoder()
	})
	return memFs
}

// slowFs is the in-memory filesystem with injected faults. Files whose path starts with
// /slow/ are read slowly (at most 4 KiB per Read, SlowReadDelay per call) and every such Read
// is counted, so that a monitor can cancel a component while it is still reading its input
// and then count — logically, not by the clock — how much it went on reading. Opening a path
// under /failopen/ for reading fails after FailOpenDelay (a source that cannot be opened,
// found out late); a file under /failread/<n>/ delivers n bytes and then fails every Read; a
// file under /failwrite/<n>/ accepts n bytes and then fails every Write.
type slowFs struct{ afero.Fs }

var (
	FailOpenDelay   = 40 * time.Millisecond
	ErrInjectedOpen = errors.New("injected fault: the source cannot be opened")
	ErrInjectedRead = errors.New("injected fault: read error")
)

type failReadFile struct {
	afero.File
	left int
}

func (f *failReadFile) Read(p []byte) (int, error) {
	if f.left <= 0 {
		return 0, ErrInjectedRead
	}
	if len(p) > f.left {
		p = p[:f.left]
	}
	n, err := f.File.Read(p)
	f.left -= n
	return n, err
}

func faulty(name string, f afero.File, err error) (afero.File, error) {
	switch {
	case strings.HasPrefix(name, "/failopen/"):
		if f != nil {
			_ = f.Close()
		}
		time.Sleep(FailOpenDelay)
		return nil, ErrInjectedOpen
	case err != nil:
		return f, err
	case strings.HasPrefix(name, "/slow/"):
		return &slowFile{File: f}, nil
	case strings.HasPrefix(name, "/failread/"):
		n, _ := strconv.Atoi(strings.SplitN(strings.TrimPrefix(name, "/failread/"), "/", 2)[0])
		return &failReadFile{File: f, left: n}, nil
	case strings.HasPrefix(name, "/failclose/"):
		return &failCloseFile{File: f}, nil
	}
	return f, nil
}

// ErrInjectedClose: a file under /failclose/ reads fine; closing it reports an error (a network
// filesystem that finds out late).
var ErrInjectedClose = errors.New("injected fault: close failed")

type failCloseFile struct{ afero.File }

func (f *failCloseFile) Close() error {
	_ = f.File.Close()
	return ErrInjectedClose
}

var (
	SlowReads     atomic.Int64
	SlowReadDelay = 2 * time.Millisecond
)

func (s *slowFs) Open(name string) (afero.File, error) {
	f, err := s.Fs.Open(name)
	return faulty(name, f, err)
}

func (s *slowFs) OpenFile(name string, flag int, perm os.FileMode) (afero.File, error) {
	f, err := s.Fs.OpenFile(name, flag, perm)
	if flag&(os.O_WRONLY|os.O_RDWR) != 0 {
		return faultyWrite(name, f, err)
	}
	return faulty(name, f, err)
}

func (s *slowFs) Create(name string) (afero.File, error) {
	f, err := s.Fs.Create(name)
	return faultyWrite(name, f, err)
}

// ErrInjectedWrite: a file under /failwrite/<n>/ accepts n bytes and then fails every Write
// (a full disk).
var ErrInjectedWrite = errors.New("injected fault: no space left on device")

type failWriteFile struct {
	afero.File
	mu   sync.Mutex
	left int
}

func (f *failWriteFile) Write(p []byte) (int, error) {
	f.mu.Lock()
	defer f.mu.Unlock()
	if len(p) > f.left {
		n, _ := f.File.Write(p[:f.left])
		f.left -= n
		return n, ErrInjectedWrite
	}
	n, err := f.File.Write(p)
	f.left -= n
	return n, err
}

func (f *failWriteFile) WriteString(s string) (int, error) { return f.Write([]byte(s)) }

func faultyWrite(name string, f afero.File, err error) (afero.File, error) {
	if err == nil && strings.HasPrefix(name, "/failwrite/") {
		n, _ := strconv.Atoi(strings.SplitN(strings.TrimPrefix(name, "/failwrite/"), "/", 2)[0])
		return &failWriteFile{File: f, left: n}, nil
	}
	return f, err
}

type slowFile struct{ afero.File }

func (f *slowFile) Read(p []byte) (int, error) {
	SlowReads.Add(1)
	time.Sleep(SlowReadDelay)
	if len(p) > 4096 {
		p = p[:4096]
	}
	return f.File.Read(p)
}

// NewMetrics returns fresh engine metrics.
func NewMetrics() engine.Metrics {
	// Counters are not published to expvar (NewCounter panics on duplicate names).
	return engine.Metrics{
		Request:        &monitoring.Counter{},
		Response:       &monitoring.Counter{},
		InstanceStart:  &monitoring.Counter{},
		InstanceFinish: &monitoring.Counter{},
	}
}

func NopLog() *zap.Logger { return zap.NewNop() }
