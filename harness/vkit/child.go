package vkit

import (
	"encoding/json"
	"fmt"
	"os"
	"os/exec"
	"path/filepath"
	"strconv"
	"strings"
	"sync"
	"sync/atomic"
	"syscall"
	"time"
)

// Child processes: a monitor re-executes its own binary with a batch of cases. The child
// logs the index of every case *before* running it, so that the parent knows which input
// killed it (panic in a foreign goroutine, fatal error, OOM, hang).

func IsChild() bool { return os.Getenv("VERIF_CHILD") != "" }

// ChildKind returns the free-form kind string the parent passed.
func ChildKind() string { return os.Getenv("VERIF_CHILD") }

// ChildCases returns the batch of the current child.
func ChildCases() []json.RawMessage {
	b, err := os.ReadFile(os.Getenv("VERIF_BATCH"))
	if err != nil {
		fmt.Fprintln(os.Stderr, "child: cannot read batch:", err)
		os.Exit(5)
	}
	var cs []json.RawMessage
	if err := json.Unmarshal(b, &cs); err != nil {
		fmt.Fprintln(os.Stderr, "child: bad batch:", err)
		os.Exit(5)
	}
	return cs
}

var caseLogMu sync.Mutex

// LogCase records that case i of the batch is about to run (synced to disk).
func LogCase(i int) {
	caseLogMu.Lock()
	defer caseLogMu.Unlock()
	f, err := os.OpenFile(os.Getenv("VERIF_CASELOG"), os.O_APPEND|os.O_CREATE|os.O_WRONLY, 0o644)
	if err != nil {
		return
	}
	fmt.Fprintf(f, "%d\n", i)
	f.Close()
}

// ChildDone writes the child's result (with fingerprints for the parent to merge).
func (r *Result) ChildDone() {
	if err := r.WriteTo(os.Getenv("VERIF_OUT"), true); err != nil {
		fmt.Fprintln(os.Stderr, "child: cannot write result:", err)
		os.Exit(4)
	}
}

type Crash struct {
	Case     json.RawMessage
	Output   string // tail of the child's stdout+stderr
	TimedOut bool
	ExitCode int
}

type ChildSpec struct {
	Kind     string
	Batches  [][]json.RawMessage
	Parallel int
	Timeout  time.Duration // per child process
	MemKB    int64         // ulimit -v in KiB (0 = none)
	Env      []string
	// OnCrash classifies a child that died or hung while running Case.
	OnCrash func(c Crash)
}

var childSeq atomic.Int64

// RunChildren runs all batches, Parallel at a time, merging their results into res.
// When a child dies at case i the crash is reported and the rest of the batch (i+1…)
// continues in a fresh child.
func RunChildren(res *Result, spec ChildSpec) {
	if spec.Parallel <= 0 {
		spec.Parallel = 8
	}
	sem := make(chan struct{}, spec.Parallel)
	var wg sync.WaitGroup
	for _, b := range spec.Batches {
		wg.Add(1)
		sem <- struct{}{}
		go func(batch []json.RawMessage) {
			defer wg.Done()
			defer func() { <-sem }()
			for len(batch) > 0 {
				died := runOneChild(res, spec, batch)
				if died < 0 {
					return
				}
				batch = batch[died+1:]
			}
		}(b)
	}
	wg.Wait()
}

// runOneChild returns −1 when the child completed, else the index of the case it died at.
func runOneChild(res *Result, spec ChildSpec, batch []json.RawMessage) int {
	id := childSeq.Add(1)
	dir := TmpDir()
	base := filepath.Join(dir, fmt.Sprintf("child-%d", id))
	bb, _ := json.Marshal(batch)
	_ = os.WriteFile(base+".batch", bb, 0o644)
	outF, _ := os.Create(base + ".out")
	defer outF.Close()
	exe, _ := os.Executable()
	var cmd *exec.Cmd
	if spec.MemKB > 0 {
		cmd = exec.Command("/bin/sh", "-c", fmt.Sprintf("ulimit -v %d; exec \"$0\"", spec.MemKB), exe)
	} else {
		cmd = exec.Command(exe)
	}
	kind := spec.Kind
	if kind == "" {
		kind = "1"
	}
	env := os.Environ()
	env = append(env, "VERIF_CHILD="+kind, "VERIF_BATCH="+base+".batch", "VERIF_OUT="+base+".result", "VERIF_CASELOG="+base+".cases")
	if p := RaceLogPrefix(); p != "" {
		// exitcode=0: a child that observed races still ends normally; the reports are read from the log
		env = append(env, fmt.Sprintf("GORACE=halt_on_error=0 exitcode=0 log_path=%s-c%d", p, id))
	}
	env = append(env, spec.Env...)
	cmd.Env = env
	cmd.Stdout = outF
	cmd.Stderr = outF
	cmd.Dir = dir
	cmd.SysProcAttr = &syscall.SysProcAttr{Setpgid: true}
	if err := cmd.Start(); err != nil {
		res.Inconclusive(true, "cannot start child: %v", err)
		return -1
	}
	done := make(chan error, 1)
	go func() { done <- cmd.Wait() }()
	timedOut := false
	var werr error
	select {
	case werr = <-done:
	case <-time.After(spec.Timeout):
		timedOut = true
		// SIGQUIT makes the Go runtime dump all goroutines into the output file.
		_ = syscall.Kill(-cmd.Process.Pid, syscall.SIGQUIT)
		select {
		case werr = <-done:
		case <-time.After(5 * time.Second):
			_ = syscall.Kill(-cmd.Process.Pid, syscall.SIGKILL)
			werr = <-done
		}
	}
	// merge whatever the child managed to write
	merged := res.Merge(base+".result") == nil
	if werr == nil && merged && !timedOut {
		cleanup(base)
		return -1
	}
	// find the case it died at
	last := -1
	if b, err := os.ReadFile(base + ".cases"); err == nil {
		lines := strings.Fields(string(b))
		if len(lines) > 0 {
			last, _ = strconv.Atoi(lines[len(lines)-1])
		}
	}
	out, _ := os.ReadFile(base + ".out")
	tail := string(out)
	if len(tail) > 6000 {
		// keep the head of the fatal message: look for the first panic/fatal line
		if i := strings.Index(tail, "fatal error:"); i >= 0 && len(tail)-i > 6000 {
			tail = tail[i : i+6000]
		} else if i := strings.Index(tail, "panic:"); i >= 0 && len(tail)-i > 6000 {
			tail = tail[i : i+6000]
		} else {
			tail = tail[len(tail)-6000:]
		}
	}
	code := -1
	if cmd.ProcessState != nil {
		code = cmd.ProcessState.ExitCode()
	}
	if last < 0 || last >= len(batch) {
		res.Inconclusive(true, "child %d died (exit %d, timeout %v) outside any case: %s", id, code, timedOut, tail)
		cleanup(base)
		return -1
	}
	if merged && werr == nil {
		// completed normally but timed out flag — cannot happen
		cleanup(base)
		return -1
	}
	if spec.OnCrash != nil {
		spec.OnCrash(Crash{Case: batch[last], Output: tail, TimedOut: timedOut, ExitCode: code})
	}
	cleanup(base)
	return last
}

func cleanup(base string) {
	for _, s := range []string{".batch", ".out", ".result", ".cases"} {
		os.Remove(base + s)
	}
}

// Batches splits cases into batches of size n, marshalled.
func Batches[T any](cases []T, n int) [][]json.RawMessage {
	var out [][]json.RawMessage
	var cur []json.RawMessage
	for _, c := range cases {
		b, _ := json.Marshal(c)
		cur = append(cur, b)
		if len(cur) == n {
			out = append(out, cur)
			cur = nil
		}
	}
	if len(cur) > 0 {
		out = append(out, cur)
	}
	return out
}
