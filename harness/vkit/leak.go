package vkit

import (
	"runtime"
	"strings"
	"time"
)

// PandoraGoroutines returns the stacks of all goroutines that were created by code inside
// github.com/yandex/pandora/.
func PandoraGoroutines() []string {
	buf := make([]byte, 1<<20)
	for {
		n := runtime.Stack(buf, true)
		if n < len(buf) {
			buf = buf[:n]
			break
		}
		buf = make([]byte, 2*len(buf))
	}
	var out []string
	for i, g := range strings.Split(string(buf), "\n\n") {
		if i == 0 {
			continue // the caller
		}
		// goroutines started by pandora code (mock components run inside them); goroutines
		// started by the harness that merely call into pandora are the harness's business
		if i := strings.LastIndex(g, "created by "); i >= 0 && strings.HasPrefix(g[i+len("created by "):], "github.com/yandex/pandora/") {
			out = append(out, g)
		}
	}
	return out
}

// WaitNoPandoraGoroutines polls until no pandora goroutine is left or the timeout expires;
// it returns the stacks still alive.
func WaitNoPandoraGoroutines(timeout time.Duration) []string {
	deadline := time.Now().Add(timeout)
	for {
		gs := PandoraGoroutines()
		if len(gs) == 0 || time.Now().After(deadline) {
			return gs
		}
		time.Sleep(5 * time.Millisecond)
	}
}
