// Package vkit is the shared kit of the runtime monitors: result/evidence recording,
// seeded randomness, watchdogs, child processes, mock components and recording targets.
package vkit

import (
	"crypto/sha1"
	"encoding/hex"
	"encoding/json"
	"fmt"
	"math/rand"
	"os"
	"sort"
	"strconv"
	"sync"
)

// Violation is one refutation of the property on a recorded execution.
type Violation struct {
	Key  string `json:"key"`  // finding key: input class / call site, never just the property
	What string `json:"what"` // human readable: what was observed vs what the oracle demands
	Case any    `json:"case"` // the input / history that failed (replayable)
}

// Result accumulates what a monitor observed. Safe for concurrent use.
type Result struct {
	mu           sync.Mutex
	evaluations  int
	fps          map[string]struct{}
	rule         string
	samples      []any
	maxSamples   int
	counters     map[string]int64
	extra        map[string]any
	violations   []Violation
	vioPerKey    map[string]int
	inconclusive []string
	fatalInc     bool
	assumptions  []string
}

func NewResult(rule string) *Result {
	return &Result{fps: map[string]struct{}{}, rule: rule, maxSamples: 6, counters: map[string]int64{},
		extra: map[string]any{}, vioPerKey: map[string]int{}}
}

// Eval records one judged execution. fp identifies the case (distinctness); nontrivial says
// whether it passed the monitor's non-triviality rule.
func (r *Result) Eval(fp string, nontrivial bool) {
	r.mu.Lock()
	defer r.mu.Unlock()
	r.evaluations++
	if nontrivial {
		h := sha1.Sum([]byte(fp))
		r.fps[hex.EncodeToString(h[:8])] = struct{}{}
	}
}

// Sample keeps a few actual cases for the evidence file.
func (r *Result) Sample(s any) {
	r.mu.Lock()
	defer r.mu.Unlock()
	if len(r.samples) < r.maxSamples {
		r.samples = append(r.samples, s)
	}
}

func (r *Result) Count(name string, d int64) {
	r.mu.Lock()
	r.counters[name] += d
	r.mu.Unlock()
}

func (r *Result) Counter(name string) int64 {
	r.mu.Lock()
	defer r.mu.Unlock()
	return r.counters[name]
}

func (r *Result) Max(name string, v int64) {
	r.mu.Lock()
	if cur, ok := r.counters[name]; !ok || v > cur {
		r.counters[name] = v
	}
	r.mu.Unlock()
}

func (r *Result) Set(name string, v any) {
	r.mu.Lock()
	r.extra[name] = v
	r.mu.Unlock()
}

func (r *Result) Assume(a string) {
	r.mu.Lock()
	r.assumptions = append(r.assumptions, a)
	r.mu.Unlock()
}

// Violate records a violation; at most 20 full cases per key are kept (all are counted).
func (r *Result) Violate(key, what string, c any) {
	r.mu.Lock()
	defer r.mu.Unlock()
	r.vioPerKey[key]++
	if r.vioPerKey[key] <= 20 {
		r.violations = append(r.violations, Violation{Key: key, What: what, Case: c})
	}
}

func (r *Result) Violations() int {
	r.mu.Lock()
	defer r.mu.Unlock()
	n := 0
	for _, c := range r.vioPerKey {
		n += c
	}
	return n
}

// Inconclusive notes something that could not be judged. fatal = the whole monitor observed
// too little to count as evidence (check exits 3, never a VIOLATION).
func (r *Result) Inconclusive(fatal bool, format string, a ...any) {
	r.mu.Lock()
	defer r.mu.Unlock()
	if len(r.inconclusive) < 200 {
		r.inconclusive = append(r.inconclusive, fmt.Sprintf(format, a...))
	}
	if fatal {
		r.fatalInc = true
	}
}

// Merge folds a child's result file into r.
func (r *Result) Merge(path string) error {
	b, err := os.ReadFile(path)
	if err != nil {
		return err
	}
	var f fileResult
	if err := json.Unmarshal(b, &f); err != nil {
		return err
	}
	r.mu.Lock()
	defer r.mu.Unlock()
	r.evaluations += f.Evaluations
	for _, k := range f.Fingerprints {
		r.fps[k] = struct{}{}
	}
	for _, s := range f.Coverage.Samples {
		if len(r.samples) < r.maxSamples {
			r.samples = append(r.samples, s)
		}
	}
	for k, v := range f.Counters {
		r.counters[k] += v
	}
	for _, v := range f.Violations {
		r.vioPerKey[v.Key]++
		if r.vioPerKey[v.Key] <= 20 {
			r.violations = append(r.violations, v)
		}
	}
	r.inconclusive = append(r.inconclusive, f.Inconclusive...)
	if f.FatalInconclusive {
		r.fatalInc = true
	}
	return nil
}

type coverage struct {
	Evaluations        int              `json:"evaluations"`
	DistinctNontrivial int              `json:"distinct_nontrivial"`
	Rule               string           `json:"rule"`
	Samples            []any            `json:"samples"`
	Counters           map[string]int64 `json:"counters,omitempty"`
	Extra              map[string]any   `json:"observed,omitempty"`
	ViolationsPerKey   map[string]int   `json:"violations_per_key,omitempty"`
	Exhaustive         bool             `json:"exhaustive,omitempty"`
}

type fileResult struct {
	Property          string           `json:"property"`
	Evaluations       int              `json:"evaluations"`
	Fingerprints      []string         `json:"fingerprints,omitempty"`
	Counters          map[string]int64 `json:"counters,omitempty"`
	Coverage          coverage         `json:"coverage"`
	Violations        []Violation      `json:"violations"`
	Inconclusive      []string         `json:"inconclusive"`
	FatalInconclusive bool             `json:"fatal_inconclusive"`
	Assumptions       []string         `json:"assumptions"`
}

// Write writes the result to path (VERIF_OUT by default). withFPs keeps raw fingerprints
// (children do, so the parent can count distinct cases across batches).
func (r *Result) WriteTo(path string, withFPs bool) error {
	r.mu.Lock()
	defer r.mu.Unlock()
	f := fileResult{Property: os.Getenv("VERIF_PROPERTY"), Evaluations: r.evaluations,
		Violations: r.violations, Inconclusive: r.inconclusive, FatalInconclusive: r.fatalInc, Assumptions: r.assumptions}
	f.Coverage = coverage{Evaluations: r.evaluations, DistinctNontrivial: len(r.fps), Rule: r.rule, Samples: r.samples,
		Counters: r.counters, Extra: r.extra, ViolationsPerKey: r.vioPerKey}
	if e, ok := r.extra["exhaustive"].(bool); ok {
		f.Coverage.Exhaustive = e
	}
	if f.Coverage.Samples == nil {
		f.Coverage.Samples = []any{}
	}
	if f.Violations == nil {
		f.Violations = []Violation{}
	}
	if withFPs {
		for k := range r.fps {
			f.Fingerprints = append(f.Fingerprints, k)
		}
		sort.Strings(f.Fingerprints)
		f.Counters = r.counters
	}
	b, err := json.MarshalIndent(f, "", " ")
	if err != nil {
		return err
	}
	tmp := path + ".tmp"
	if err := os.WriteFile(tmp, b, 0o644); err != nil {
		return err
	}
	return os.Rename(tmp, path)
}

func (r *Result) Write() {
	p := os.Getenv("VERIF_OUT")
	if p == "" {
		p = "result.json"
	}
	if err := r.WriteTo(p, false); err != nil {
		fmt.Fprintln(os.Stderr, "cannot write result:", err)
		os.Exit(4)
	}
	r.mu.Lock()
	defer r.mu.Unlock()
	fmt.Printf("monitor done: evaluations=%d distinct=%d violations=%d inconclusive=%d\n", r.evaluations, len(r.fps), len(r.violations), len(r.inconclusive))
	keys := make([]string, 0, len(r.counters))
	for k := range r.counters {
		keys = append(keys, k)
	}
	sort.Strings(keys)
	for _, k := range keys {
		fmt.Printf("  %s = %d\n", k, r.counters[k])
	}
	for k, n := range r.vioPerKey {
		fmt.Printf("  VIOL %s x%d\n", k, n)
	}
}

// ---- tier / seed ----

func Thorough() bool { return os.Getenv("VERIF_TIER") == "thorough" }

// N picks a case count by tier.
func N(quick, thorough int) int {
	if Thorough() {
		return thorough
	}
	return quick
}

func Seed() int64 {
	s, err := strconv.ParseInt(os.Getenv("VERIF_SEED"), 10, 64)
	if err != nil {
		return 1
	}
	return s
}

// Rand returns a PRNG determined by (VERIF_SEED, name).
func Rand(name string) *rand.Rand {
	h := sha1.Sum([]byte(fmt.Sprintf("%d/%s", Seed(), name)))
	var s int64
	for i := 0; i < 8; i++ {
		s = s<<8 | int64(h[i])
	}
	return rand.New(rand.NewSource(s))
}

func TmpDir() string {
	if d := os.Getenv("VERIF_TMP"); d != "" {
		return d
	}
	return os.TempDir()
}

func JSON(v any) string {
	b, _ := json.Marshal(v)
	return string(b)
}
