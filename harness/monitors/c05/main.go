// C05 — Run outcome and termination at every finish, failure and cancel point.
//
// Fault plan = component × position, each with a unique marker. The real engine is run with
// mock components; the oracle is: injected failure that fired ⇒ error carrying its marker;
// no fault ⇒ nil; cancel in progress ⇒ context.Canceled; and in every case Wait() returns,
// every started component Run has returned, instances started = finished, closable guns of
// started instances are closed once after their last shot, no pandora goroutine survives.
package main

import (
	"context"
	"encoding/json"
	"errors"
	"fmt"
	"net/http"
	"os"
	"strings"
	"sync"
	"sync/atomic"
	"time"

	pkgerrors "github.com/pkg/errors"
	"github.com/yandex/pandora/components/providers/http/middleware"
	httpRegister "github.com/yandex/pandora/components/providers/http/register"
	"github.com/yandex/pandora/core"
	"github.com/yandex/pandora/core/aggregator/netsample"
	"github.com/yandex/pandora/core/engine"
	"github.com/yandex/pandora/core/register"
	"github.com/yandex/pandora/core/schedule"
	"go.uber.org/zap"
	"go.uber.org/zap/zapcore"
	"go.uber.org/zap/zaptest/observer"

	"verif/harness/vkit"
)

type Plan struct {
	Name        string `json:"name"`
	Component   string `json:"component"` // none provider aggregator newgun bind warmup schedule shot cancel
	Pos         string `json:"pos"`
	Instances   int    `json:"instances"`
	PerInstance bool   `json:"rps_per_instance"`
	Pools       int    `json:"pools"`
	FaultPool   int    `json:"fault_pool"`
	ShotUs      int    `json:"shot_us"`
	Rep         int    `json:"rep"`
}

const tokensPerPool = 120

type poolMocks struct {
	wantShots int64 // requests this pool fires when it runs to its end (−1: not known)
	prov       *vkit.MockProvider
	aggr       *vkit.MockAggregator
	plan       *vkit.GunPlan
	schedCalls int
	schedFault bool
}

func buildPool(p Plan, idx int, marker error) (engine.InstancePoolConfig, *poolMocks) {
	fault := idx == p.FaultPool
	pm := &poolMocks{prov: &vkit.MockProvider{Items: tokensPerPool, FailAfter: -1}, aggr: &vkit.MockAggregator{FailAfter: -1}, plan: vkit.NewGunPlan()}
	pm.plan.Closer = true
	if p.Rep%2 == 0 {
		pm.plan.CloseTakes = 15 * time.Millisecond
	}
	us := p.ShotUs
	pm.plan.ShotDur = func(inst, shot, ammo int) time.Duration { return time.Duration(us) * time.Microsecond }
	longNeighbour := !fault && p.Pools > 1 && p.Component != "none" && p.Component != "warmup-ok"
	pm.wantShots = int64(tokensPerPool)
	if p.PerInstance {
		pm.wantShots = int64(p.Instances * (tokensPerPool / p.Instances))
	}
	shortNeighbour := false
	if longNeighbour && p.Rep%10 == 9 {
		// in the same-label plans the healthy neighbours are short instead (six requests at once):
		// they are through, with success, before the faulty pool fails
		longNeighbour, shortNeighbour = false, true
		pm.prov.Items = 6
		pm.wantShots = 6
		if p.PerInstance {
			pm.wantShots = int64(min(6, 6*p.Instances))
		}
	}
	if longNeighbour {
		pm.wantShots = -1
		// healthy neighbours keep running long enough (3 s) to still be busy when the fault happens
		pm.prov.Items = -1
	}
	schedErrAt := -1
	if fault {
		switch p.Component {
		case "provider":
			pm.prov.Err = marker
			switch p.Pos {
			case "at-once":
				pm.prov.FailAfter = 0
			case "mid":
				pm.prov.FailAfter = tokensPerPool / 2
			case "last-item":
				pm.prov.FailAfter = tokensPerPool
			case "end+0":
				pm.prov.FailAtEnd = true
			case "end+late":
				pm.prov.FailAtEnd = true
				pm.prov.EndDelay = 30 * time.Millisecond
			}
		case "aggregator":
			pm.aggr.Err = marker
			switch p.Pos {
			case "at-once":
				pm.aggr.FailAfter = 0
			case "mid":
				pm.aggr.FailAfter = 5 * time.Millisecond
			case "after-cancel":
				pm.aggr.FailAfter = -1
			case "after-cancel+late":
				pm.aggr.FailAfter = -1
				pm.aggr.AfterCancelDelay = 20 * time.Millisecond
			}
		case "newgun":
			pm.plan.NewGunErr = marker
			switch p.Pos {
			case "warmup-call":
				pm.plan.NewGunErrAt = 0
			case "first-instance":
				pm.plan.NewGunErrAt = 1
			case "later-instance":
				pm.plan.NewGunErrAt = 2
			}
		case "bind":
			pm.plan.BindErr = marker
			if p.Pos == "first" {
				pm.plan.BindErrAt = 0
			} else {
				pm.plan.BindErrAt = 1
			}
		case "warmup":
			pm.plan.WarmUp = true
			pm.plan.WarmUpErr = marker
		case "schedule":
			switch p.Pos {
			case "shared", "per-instance-first":
				schedErrAt = 0
			case "per-instance-later":
				schedErrAt = 1
			}
		case "shot":
			pm.plan.PanicVal = marker
			switch p.Pos {
			case "first":
				pm.plan.PanicAtShot = 0
			case "middle":
				pm.plan.PanicAtShot = tokensPerPool / 2
			case "last":
				pm.plan.PanicAtShot = tokensPerPool - 1
			}
		}
	}
	if p.Component == "warmup-ok" {
		pm.plan.WarmUp = true
	}
	var shared core.Schedule
	newSched := func() (core.Schedule, error) {
		n := pm.schedCalls
		pm.schedCalls++
		if n == schedErrAt {
			pm.schedFault = true
			return nil, marker
		}
		mk := func() core.Schedule {
			if longNeighbour {
				return schedule.NewConst(5000, 3*time.Second)
			}
			if shortNeighbour {
				return schedule.NewOnce(6)
			}
			if p.PerInstance {
				return schedule.NewConst(float64(tokensPerPool/p.Instances)*50, 20*time.Millisecond)
			}
			return schedule.NewConst(tokensPerPool*50, 20*time.Millisecond)
		}
		if p.PerInstance {
			return mk(), nil
		}
		if shared == nil {
			shared = mk()
		}
		return shared, nil
	}
	// newSched is called from one goroutine at a time by the engine (start loop), except
	// per-instance mode where instances are created concurrently: guard with a mutex.
	guarded := lockFactory(newSched)
	id := fmt.Sprintf("pool%d", idx)
	if p.Pools > 1 && p.Rep%10 == 9 {
		// pool ids are labels that nothing requires to differ: every pool of this plan bears the same one
		id = "same-label"
	}
	cfg := engine.InstancePoolConfig{ID: id, Provider: pm.prov, Aggregator: pm.aggr, NewGun: pm.plan.NewGun,
		RPSPerInstance: p.PerInstance, NewRPSSchedule: guarded, StartupSchedule: schedule.NewOnce(int64(p.Instances)), DiscardOverflow: true}
	return cfg, pm
}

func lockFactory(f func() (core.Schedule, error)) func() (core.Schedule, error) {
	ch := make(chan struct{}, 1)
	return func() (core.Schedule, error) {
		ch <- struct{}{}
		defer func() { <-ch }()
		return f()
	}
}

func (pm *poolMocks) faultFired() bool {
	return pm.prov.FaultFired.Load() || pm.aggr.FaultFired.Load() || pm.plan.FaultFired.Load() || pm.schedFault
}

func runPlan(res *vkit.Result, p Plan) {
	marker := fmt.Errorf("verif-marker-%s-%s-%d", p.Component, p.Pos, p.Rep)
	if p.Rep%3 == 2 && p.Component != "shot" && p.Component != "cancel" && p.Component != "none" {
		// the component's own failure is a timeout of its own (a final upload, a flush): an error
		// caused by context.DeadlineExceeded, which is not the cancellation of the run
		marker = pkgerrors.WithMessage(context.DeadlineExceeded, marker.Error())
	}
	core_, logs := observer.New(zapcore.DebugLevel)
	log := zap.New(core_)
	var cfg engine.Config
	var pms []*poolMocks
	for i := 0; i < p.Pools; i++ {
		c, pm := buildPool(p, i, marker)
		cfg.Pools = append(cfg.Pools, c)
		pms = append(pms, pm)
	}
	m := vkit.NewMetrics()
	eng := engine.New(log, m, cfg)
	// the caller's context has a deadline of its own, far in the future (an embedding program or a
	// CI job would set one): a component's timeout error must not be taken for the run's
	base, baseCancel := context.WithTimeout(context.Background(), time.Hour)
	defer baseCancel()
	ctx, cancel := context.WithCancel(base)
	defer cancel()
	cancelled := false
	if p.Component == "cancel" {
		switch p.Pos {
		case "before-start":
			cancel()
			cancelled = true
		}
	}
	done := make(chan error, 1)
	go func() { done <- eng.Run(ctx) }()
	var cancelAt time.Duration = -1
	if p.Component == "cancel" {
		switch p.Pos {
		case "during-startup":
			cancelAt = 0
		case "mid-run":
			cancelAt = 5 * time.Millisecond
		case "near-end":
			cancelAt = 19 * time.Millisecond
		}
	}
	fail := func(check, f string, a ...any) {
		res.Violate(fmt.Sprintf("C05/%s/%s/%s", p.Component, p.Pos, check), fmt.Sprintf(f, a...), p)
	}
	var err error
	returnedBeforeCancel := false
	if cancelAt >= 0 {
		select {
		case err = <-done:
			returnedBeforeCancel = true
		case <-time.After(cancelAt):
			cancel()
			cancelled = true
		}
	}
	if !returnedBeforeCancel {
		select {
		case err = <-done:
		case <-time.After(20 * time.Second):
			fail("run-hang", "Engine.Run did not return within 20s\n%s", strings.Join(vkit.PandoraGoroutines(), "\n\n"))
			return
		}
	}
	// what every pool had fired when Engine.Run returned (the engine stops all pools before it
	// reports the failure of one)
	var shotsAtReturn []int64
	for _, pm := range pms {
		shotsAtReturn = append(shotsAtReturn, pm.plan.ShotCount())
	}
	// ---- outcome ----
	fired := false
	for _, pm := range pms {
		if pm.faultFired() {
			fired = true
		}
	}
	outcome := "nil"
	switch {
	case err == nil:
	case errors.Is(err, context.Canceled):
		outcome = "canceled"
	case strings.Contains(err.Error(), marker.Error()):
		outcome = "marker"
	default:
		outcome = "other-error"
	}
	switch {
	case p.Component == "cancel":
		if cancelled && !returnedBeforeCancel {
			// cancel may race the normal end (near-end): nil is acceptable only if all work was done
			if outcome == "nil" {
				if p.Pos != "near-end" {
					fail("cancel-ignored", "run cancelled while in progress returned nil")
				}
			} else if outcome != "canceled" {
				fail("cancel-outcome", "cancelled run returned %v, want context.Canceled", err)
			}
		} else if outcome != "nil" {
			fail("outcome", "run without fault returned %v", err)
		}
	case fired:
		if outcome == "nil" {
			order := awaitOrder(logs)
			fail("swallowed", "component failure %q fired but Engine.Run returned nil (await order: %s)", marker, order)
		} else if outcome != "marker" {
			fail("cause-lost", "component failure %q fired but the error returned is %q", marker, err)
		}
	default:
		if outcome != "nil" {
			fail("outcome", "no fault fired but run returned %v", err)
		}
	}
	if outcome == "nil" && !cancelled {
		// success means that every pool ran out of ammo or schedule: each pool's requests were all fired
		for i, pm := range pms {
			want := pm.wantShots
			if got := pm.plan.ShotCount(); want >= 0 && got != want {
				fail("success-with-unfinished-pool", "Engine.Run returned nil although pool %d fired %d of its %d requests (fault fired: %v)", i, got, want, fired)
			}
		}
	}
	res.Count("outcome_"+outcome, 1)
	if fired {
		res.Count("faults_fired", 1)
	}
	// the caller cancels nothing of its own after a failed or finished run: stopping the pools
	// is the engine's business (a cancelled plan has been cancelled above already)
	// ---- termination ----
	wdone := make(chan struct{})
	go func() { eng.Wait(); close(wdone) }()
	select {
	case <-wdone:
	case <-time.After(10 * time.Second):
		fail("wait-hang", "Engine.Wait() did not return within 10s after the run ended (%s)", outcome)
		return
	}
	for i, pm := range pms {
		// a healthy neighbour of a failed pool is stopped by the engine, not left to run to the
		// end of its own profile: once Engine.Run has returned, an instance can finish the shot
		// it is in and at most one more that it had already been cleared for (counted, not timed)
		if extra := pm.plan.ShotCount() - shotsAtReturn[i]; outcome != "nil" && i != p.FaultPool && extra > int64(3*p.Instances+2) {
			fail("neighbour-pool-not-stopped", "pool %d fired %d more shots with %d instances after Engine.Run had returned %q", i, extra, p.Instances, err)
		}
		if s, r := pm.prov.RunStart.Load(), pm.prov.RunReturn.Load(); s != r {
			fail("provider-running", "pool %d: provider Run started %d returned %d after Wait()", i, s, r)
		}
		if s, r := pm.aggr.RunStart.Load(), pm.aggr.RunReturn.Load(); s != r {
			fail("aggregator-running", "pool %d: aggregator Run started %d returned %d after Wait()", i, s, r)
		}
		for _, g := range pm.plan.Guns {
			if g.Bound.Load() == 0 {
				continue // warm-up gun or bind failed: not required to be closed
			}
			if c := g.Closed.Load(); c != 1 {
				fail("gun-not-closed", "pool %d: gun of instance %d closed %d times", i, g.InstanceID, c)
			}
		}
		if len(pm.plan.Problems) > 0 {
			fail("gun-usage", "%s", strings.Join(pm.plan.Problems, "; "))
		}
	}
	if s, f := m.InstanceStart.Get(), m.InstanceFinish.Get(); s != f {
		fail("instances", "instances started %d finished %d after Wait()", s, f)
	}
	if left := vkit.WaitNoPandoraGoroutines(3 * time.Second); len(left) > 0 {
		fail("goroutine-leak", "%d pandora goroutines alive after Wait():\n%s", len(left), left[0])
	}
	order := awaitOrder(logs)
	res.Eval(p.Component+"/"+p.Pos+"/"+order+fmt.Sprint(p.Instances, p.PerInstance, p.Pools), fired || cancelled)
	res.Count("orders/"+order, 1)
	if p.Rep == 0 {
		res.Sample(map[string]any{"plan": p, "fault_fired": fired, "outcome": outcome, "error": fmt.Sprint(err), "await_order": order})
	}
}

// awaitOrder extracts from the engine's debug log the order in which the pool's await loop
// saw its results (P provider, A aggregator, S start, I last instance).
func awaitOrder(logs *observer.ObservedLogs) string {
	var b strings.Builder
	for _, e := range logs.All() {
		switch e.Message {
		case "AmmoQueue awaited":
			b.WriteByte('P')
		case "Aggregator awaited":
			b.WriteByte('A')
		case "Instances start awaited":
			b.WriteByte('S')
		case "All instances runs awaited.":
			b.WriteByte('I')
		}
		if b.Len() > 12 {
			break
		}
	}
	return b.String()
}

func plans() []Plan {
	var ps []Plan
	add := func(comp, pos string) {
		ps = append(ps, Plan{Component: comp, Pos: pos})
	}
	add("none", "-")
	add("warmup-ok", "-")
	for _, pos := range []string{"at-once", "mid", "last-item", "end+0", "end+late"} {
		add("provider", pos)
	}
	for _, pos := range []string{"at-once", "mid", "after-cancel", "after-cancel+late"} {
		add("aggregator", pos)
	}
	for _, pos := range []string{"warmup-call", "first-instance", "later-instance"} {
		add("newgun", pos)
	}
	add("bind", "first")
	add("bind", "later")
	add("warmup", "-")
	for _, pos := range []string{"shared", "per-instance-first", "per-instance-later"} {
		add("schedule", pos)
	}
	for _, pos := range []string{"first", "middle", "last"} {
		add("shot", pos)
	}
	for _, pos := range []string{"before-start", "during-startup", "mid-run", "near-end"} {
		add("cancel", pos)
	}
	return ps
}

func child() {
	res := vkit.NewResult("")
	for i, raw := range vkit.ChildCases() {
		var p Plan
		_ = json.Unmarshal(raw, &p)
		vkit.LogCase(i)
		runPlan(res, p)
	}
	res.ChildDone()
}

// ---------------------------------------------------------------- real providers whose source fails

// anyGun shoots whatever ammo a real provider delivers.
type anyGun struct {
	st     *realState
	aggr   core.Aggregator
	closed atomic.Int32
}

type realState struct {
	mu    sync.Mutex
	guns  []*anyGun
	shots atomic.Int64
}

func (g *anyGun) Bind(a core.Aggregator, _ core.GunDeps) error { g.aggr = a; return nil }
func (g *anyGun) Shoot(core.Ammo) {
	g.st.shots.Add(1)
	g.aggr.Report(&vkit.MockSample{Tag: "shot"})
}
func (g *anyGun) Close() error { g.closed.Add(1); return nil }

type realCase struct {
	Provider  string `json:"provider"`
	Fault     string `json:"fault"` // open-fails-late | read-fails-after-<n>
	Instances int    `json:"instances"`
}

var realAmmo = map[string]string{
	"uri":       strings.Repeat("/a/b?c=d tag\n", 400),
	"uripost":   strings.Repeat("5 /p tag\nhello\n", 400),
	"raw":       strings.Repeat("36 tag\nGET /r HTTP/1.1\r\nHost: h.example\r\n\r\n\n", 400),
	"http/json": strings.Repeat(`{"host":"h","method":"GET","uri":"/j","tag":"t"}`+"\n", 400),
	"grpc/json": strings.Repeat(`{"tag":"t","call":"target.TargetService.Hello","payload":{"name":"x"}}`+"\n", 400),
	"json":      strings.Repeat(`{"k":"v"}`+"\n", 400),
}

// realProviderFault: the ammo source of a real provider cannot be opened (found out after 40 ms,
// when the instances are already waiting for ammo) or fails in the middle of the file. The run
// must return an error carrying the cause, Wait must return, every started instance must
// finish and every gun be closed.
// failingMW is a request middleware (registered like the built-in header/date) whose start-up
// fails 60 ms into the run — when the instances are already waiting for ammo.
type failingMW struct{}

func (failingMW) InitMiddleware(ctx context.Context, _ *zap.Logger) error {
	select {
	case <-time.After(60 * time.Millisecond):
	case <-ctx.Done():
	}
	return errMWInit
}
func (failingMW) UpdateRequest(*http.Request) error { return nil }

var errMWInit = errors.New("verif: middleware could not be started")
var registerMW sync.Once

func realProviderFault(res *vkit.Result, c realCase) {
	key := "C05/real-provider/" + c.Provider + "/" + strings.SplitN(c.Fault, "-after-", 2)[0]
	dir := "/failopen/"
	cause := vkit.ErrInjectedOpen
	if strings.HasPrefix(c.Fault, "read-fails-after-") {
		dir = "/failread/" + strings.TrimPrefix(c.Fault, "read-fails-after-") + "/"
		cause = vkit.ErrInjectedRead
	}
	path := dir + strings.ReplaceAll(c.Provider, "/", "_") + fmt.Sprintf("-%d.ammo", c.Instances)
	content := realAmmo[c.Provider]
	if c.Fault == "nothing-to-shoot" {
		// a source that opens and reads fine but holds nothing to shoot: the provider finds out in Run
		dir, cause = "/verif/", errors.New("no ammo")
		path = dir + strings.ReplaceAll(c.Provider, "/", "_") + fmt.Sprintf("-%d-empty.yaml", c.Instances)
		content = nothingToShoot[c.Provider]
	}
	if c.Fault == "middleware-start-fails-late" {
		// source and ammo are fine; a middleware of the provider cannot be started
		registerMW.Do(func() {
			httpRegister.HTTPMW("verif/failing", func() (middleware.Middleware, error) { return failingMW{}, nil })
		})
		dir, cause = "/verif/", errMWInit
		path = dir + strings.ReplaceAll(c.Provider, "/", "_") + fmt.Sprintf("-%d-mw.ammo", c.Instances)
	}
	_ = vkit.WriteMemAt(path, []byte(content))
	defer vkit.RemoveMem(path)
	ammo := map[string]any{"type": c.Provider, "file": path}
	if c.Fault == "middleware-start-fails-late" {
		ammo["middlewares"] = []any{map[string]any{"type": "verif/failing"}}
	}
	if c.Provider == "json" {
		ammo = map[string]any{"type": "json", "source": map[string]any{"type": "file", "path": path}}
	}
	ec, err := vkit.DecodePools(map[string]any{"pools": []any{map[string]any{
		"id": "p", "ammo": ammo, "result": map[string]any{"type": "discard"},
		"gun": map[string]any{"type": "http", "target": "127.0.0.1:1"}, "rps": map[string]any{"type": "unlimited", "duration": "60s"},
		"startup": map[string]any{"type": "once", "times": c.Instances},
	}}})
	if err != nil {
		// a provider that opens its source when it is created may refuse the config: that is an outcome too
		if errors.Is(err, cause) || strings.Contains(err.Error(), cause.Error()) || c.Fault == "nothing-to-shoot" {
			res.Count("real_provider_rejected_at_creation", 1)
			res.Eval(vkit.JSON(c), true)
			return
		}
		res.Inconclusive(true, "real-provider pool rejected: %v", err)
		return
	}
	st := &realState{}
	ec.Pools[0].Aggregator = &vkit.MockAggregator{FailAfter: -1}
	ec.Pools[0].NewGun = func() (core.Gun, error) {
		g := &anyGun{st: st}
		st.mu.Lock()
		st.guns = append(st.guns, g)
		st.mu.Unlock()
		return g, nil
	}
	m := vkit.NewMetrics()
	eng := engine.New(vkit.NopLog(), m, ec)
	done := make(chan error, 1)
	go func() { done <- eng.Run(context.Background()) }()
	var rerr error
	select {
	case rerr = <-done:
	case <-time.After(30 * time.Second):
		res.Violate(key+"/run-hang", "Engine.Run did not return within 30 s after the provider's source failed:\n"+strings.Join(vkit.PandoraGoroutines(), "\n\n"), c)
		return
	}
	// the run must fail and name the provider; the text of the cause is the provider's business (a
	// line cut short by a read error is reported by some decoders as undecodable ammo)
	if rerr == nil || !strings.Contains(rerr.Error(), "provider failed") {
		res.Violate(key+"/outcome", fmt.Sprintf("the provider's source failed (%v) but the run returned %v", cause, rerr), c)
	}
	if rerr != nil && strings.Contains(rerr.Error(), cause.Error()) {
		res.Count("real_provider_error_names_cause", 1)
	}
	wd := make(chan struct{})
	go func() { eng.Wait(); close(wd) }()
	select {
	case <-wd:
	case <-time.After(15 * time.Second):
		res.Violate(key+"/wait-hang", fmt.Sprintf("Engine.Wait had not returned 15 s after the failed run (instances started %d, finished %d, %d shots):\n%s",
			m.InstanceStart.Get(), m.InstanceFinish.Get(), st.shots.Load(), strings.Join(vkit.PandoraGoroutines(), "\n\n")), c)
		return
	}
	if s, f := m.InstanceStart.Get(), m.InstanceFinish.Get(); s != f {
		res.Violate(key+"/instances", fmt.Sprintf("%d instances started, %d finished", s, f), c)
	}
	st.mu.Lock()
	for i, g := range st.guns {
		// gun 0 may be the engine's warm-up gun, which is never bound
		if g.aggr != nil && g.closed.Load() != 1 {
			res.Violate(key+"/gun-close", fmt.Sprintf("gun %d closed %d times", i, g.closed.Load()), c)
		}
	}
	st.mu.Unlock()
	res.Count("real_provider_faults", 1)
	res.Count("real_provider_shots_before_fault", st.shots.Load())
	res.Eval(vkit.JSON(c), true)
}

var nothingToShoot = map[string]string{
	"http/scenario": "requests:\n  - name: \"r\"\n    method: \"GET\"\n    uri: \"/\"\n    headers: {}\nscenarios: []\n",
	"grpc/scenario": "calls:\n  - name: \"c\"\n    call: \"target.TargetService.Hello\"\n    payload: '{}'\nscenarios: []\n",
	"uri":           "\n\n",
	"raw":           "\n",
	"http/json":     "\n",
}

func realProviderFaults(res *vkit.Result) {
	vkit.Fs()
	if rp := os.Getenv("VERIF_REPLAY"); rp != "" {
		// replay of one real-provider case, repeated
		b, _ := os.ReadFile(rp)
		var rj struct {
			Case realCase `json:"case"`
		}
		if json.Unmarshal(b, &rj) == nil && rj.Case.Provider != "" {
			for i := 0; i < 200; i++ {
				realProviderFault(res, rj.Case)
			}
		}
		return
	}
	for _, prov := range []string{"uri", "uripost", "raw", "http/json", "grpc/json", "json"} {
		for _, fault := range []string{"open-fails-late", "read-fails-after-0", "read-fails-after-3000", "read-fails-after-9000"} {
			for _, inst := range []int{1, 4} {
				realProviderFault(res, realCase{Provider: prov, Fault: fault, Instances: inst})
			}
		}
	}
	for _, prov := range []string{"uri", "uripost", "raw", "http/json"} {
		for _, inst := range []int{1, 4} {
			realProviderFault(res, realCase{Provider: prov, Fault: "middleware-start-fails-late", Instances: inst})
		}
	}
	for _, prov := range []string{"http/scenario", "grpc/scenario", "uri", "raw", "http/json"} {
		for _, inst := range []int{1, 4, 16} {
			for rep := 0; rep < 3; rep++ {
				realProviderFault(res, realCase{Provider: prov, Fault: "nothing-to-shoot", Instances: inst})
			}
		}
	}
}

// ---------------------------------------------------------------- real aggregators whose sink fails

type nsGun struct {
	st     *realState
	aggr   core.Aggregator
	closed atomic.Int32
}

func (g *nsGun) Bind(a core.Aggregator, _ core.GunDeps) error { g.aggr = a; return nil }
func (g *nsGun) Shoot(core.Ammo) {
	s := netsample.Acquire("t")
	s.SetProtoCode(200)
	g.st.shots.Add(1)
	g.aggr.Report(s)
}
func (g *nsGun) Close() error { g.closed.Add(1); return nil }

type aggrCase struct {
	Aggregator string `json:"aggregator"` // phout | jsonlines
	FailAfter  int    `json:"sink_fails_after_bytes"`
	Queue      int    `json:"sample_queue_size"`
	Instances  int    `json:"instances"`
}

// realAggregatorFault: the result file of a real aggregator accepts FailAfter bytes and then
// fails every write (a full disk) while all instances keep reporting, into a small or a large
// sample queue. The run must fail naming the aggregator, and after that Wait must return, every
// instance finish and every gun be closed — nobody may stay blocked in Report.
func realAggregatorFault(res *vkit.Result, c aggrCase) {
	key := "C05/real-aggregator/" + c.Aggregator
	path := fmt.Sprintf("/failwrite/%d/%s-%d-%d.out", c.FailAfter, c.Aggregator, c.Queue, c.Instances)
	defer vkit.RemoveMem(path)
	ammo := vkit.WriteMem([]byte("/x\n"))
	defer vkit.RemoveMem(ammo)
	result := map[string]any{"type": "phout", "destination": path, "sample-queue-size": c.Queue, "flush-time": "20ms", "buffer-size": "4KB"}
	if c.Aggregator == "jsonlines" {
		result = map[string]any{"type": "jsonlines", "sink": map[string]any{"type": "file", "path": path}, "sample-queue-size": c.Queue, "flush-interval": "20ms", "buffer-size": 512}
	}
	ec, err := vkit.DecodePools(map[string]any{"pools": []any{map[string]any{
		"id": "p", "ammo": map[string]any{"type": "uri", "file": ammo}, "result": result,
		"gun": map[string]any{"type": "http", "target": "127.0.0.1:1"}, "rps": map[string]any{"type": "unlimited", "duration": "60s"},
		"startup": map[string]any{"type": "once", "times": c.Instances},
	}}})
	if err != nil {
		res.Inconclusive(true, "real-aggregator pool rejected: %v", err)
		return
	}
	st := &realState{}
	var guns []*nsGun
	ec.Pools[0].NewGun = func() (core.Gun, error) {
		g := &nsGun{st: st}
		st.mu.Lock()
		guns = append(guns, g)
		st.mu.Unlock()
		return g, nil
	}
	m := vkit.NewMetrics()
	eng := engine.New(vkit.NopLog(), m, ec)
	done := make(chan error, 1)
	go func() { done <- eng.Run(context.Background()) }()
	var rerr error
	select {
	case rerr = <-done:
	case <-time.After(30 * time.Second):
		res.Violate(key+"/run-hang", "Engine.Run did not return within 30 s after the aggregator's sink failed:\n"+strings.Join(vkit.PandoraGoroutines(), "\n\n"), c)
		return
	}
	if rerr == nil || !strings.Contains(rerr.Error(), "aggregator failed") {
		res.Violate(key+"/outcome", fmt.Sprintf("the aggregator's sink failed (%v) but the run returned %v", vkit.ErrInjectedWrite, rerr), c)
	}
	wd := make(chan struct{})
	go func() { eng.Wait(); close(wd) }()
	select {
	case <-wd:
	case <-time.After(15 * time.Second):
		res.Violate(key+"/wait-hang", fmt.Sprintf("Engine.Wait had not returned 15 s after the failed run (instances started %d, finished %d, %d reports):\n%s",
			m.InstanceStart.Get(), m.InstanceFinish.Get(), st.shots.Load(), strings.Join(vkit.PandoraGoroutines(), "\n\n")), c)
		return
	}
	if s, f := m.InstanceStart.Get(), m.InstanceFinish.Get(); s != f {
		res.Violate(key+"/instances", fmt.Sprintf("%d instances started, %d finished", s, f), c)
	}
	st.mu.Lock()
	for i, g := range guns {
		if g.aggr != nil && g.closed.Load() != 1 {
			res.Violate(key+"/gun-close", fmt.Sprintf("gun %d closed %d times", i, g.closed.Load()), c)
		}
	}
	st.mu.Unlock()
	res.Count("real_aggregator_faults", 1)
	res.Count("real_aggregator_reports_before_fault", st.shots.Load())
	res.Eval(vkit.JSON(c), true)
}

func realAggregatorFaults(res *vkit.Result) {
	vkit.Fs()
	for _, a := range []string{"phout", "jsonlines"} {
		for _, after := range []int{0, 300, 65536} {
			for _, q := range []int{1, 4096} {
				for _, inst := range []int{1, 16} {
					realAggregatorFault(res, aggrCase{Aggregator: a, FailAfter: after, Queue: q, Instances: inst})
				}
			}
		}
	}
}

// ---------------------------------------------------------------- registered guns whose creation fails

type regGunConf struct {
	FailAt int `config:"fail-at"` // the FailAt-th gun of the pool cannot be created (1 = the first)
}

type regGun struct {
	shots *atomic.Int64
	aggr  core.Aggregator
}

func (g *regGun) Bind(a core.Aggregator, _ core.GunDeps) error { g.aggr = a; return nil }
func (g *regGun) Shoot(core.Ammo) {
	g.shots.Add(1)
	s := netsample.Acquire("t")
	s.SetProtoCode(200)
	g.aggr.Report(s)
}

var regShots atomic.Int64
var regMade sync.Map // pool marker → *atomic.Int64

const regMarker = "verif-marker-registered-gun-creation"

func regFail(conf regGunConf, n int64) error {
	if conf.FailAt > 0 && n == int64(conf.FailAt) {
		return errors.New(regMarker)
	}
	return nil
}

// registeredGunFaults: guns registered the way custom guns are (register.Gun) in every documented
// constructor shape — returning the interface or the implementation type, directly or as a
// factory, with an error result — whose creation fails for the first or for a later instance.
// The pool is decoded from a config map and run by the real engine: the run must end with an
// error that carries the constructor's error, never with success.
type regCase struct {
	Type   string `json:"gun_type"`
	FailAt int    `json:"creation_fails_at"`
}

// registeredGunFaults runs the matrix in a child process: a nil gun handed to the engine would take
// the whole process down, which the parent reports as a violation of its own.
func registeredGunFaults(res *vkit.Result) {
	var cases []regCase
	for _, typ := range []string{"verif-c05-iface", "verif-c05-impl", "verif-c05-factory-iface", "verif-c05-factory-impl"} {
		for _, failAt := range []int{0, 1, 3} {
			cases = append(cases, regCase{typ, failAt})
		}
	}
	vkit.RunChildren(res, vkit.ChildSpec{Kind: "reggun", Batches: vkit.Batches(cases, len(cases)), Parallel: 1, Timeout: 5 * time.Minute,
		OnCrash: func(c vkit.Crash) {
			var rc regCase
			_ = json.Unmarshal(c.Case, &rc)
			res.Violate("C05/registered-gun/"+strings.TrimPrefix(rc.Type, "verif-c05-")+"/process-died", "the process died or hung while running a pool whose gun creation fails:\n"+c.Output, rc)
		}})
}

func registeredGunChild() {
	res := vkit.NewResult("")
	counter := func() *atomic.Int64 { return new(atomic.Int64) }
	// component constructors are called once per gun; factories once per pool, their product once per gun
	cIface, cImpl, fIface, fImpl := counter(), counter(), counter(), counter()
	register.Gun("verif-c05-iface", func(conf regGunConf) (core.Gun, error) {
		if err := regFail(conf, cIface.Add(1)); err != nil {
			return nil, err
		}
		return &regGun{shots: &regShots}, nil
	})
	register.Gun("verif-c05-impl", func(conf regGunConf) (*regGun, error) {
		if err := regFail(conf, cImpl.Add(1)); err != nil {
			return nil, err
		}
		return &regGun{shots: &regShots}, nil
	})
	register.Gun("verif-c05-factory-iface", func(conf regGunConf) func() (core.Gun, error) {
		return func() (core.Gun, error) {
			if err := regFail(conf, fIface.Add(1)); err != nil {
				return nil, err
			}
			return &regGun{shots: &regShots}, nil
		}
	})
	register.Gun("verif-c05-factory-impl", func(conf regGunConf) func() (*regGun, error) {
		return func() (*regGun, error) {
			if err := regFail(conf, fImpl.Add(1)); err != nil {
				return nil, err
			}
			return &regGun{shots: &regShots}, nil
		}
	})
	counters := map[string]*atomic.Int64{"verif-c05-iface": cIface, "verif-c05-impl": cImpl, "verif-c05-factory-iface": fIface, "verif-c05-factory-impl": fImpl}
	for i, raw := range vkit.ChildCases() {
		var rc regCase
		_ = json.Unmarshal(raw, &rc)
		vkit.LogCase(i)
		typ, failAt := rc.Type, rc.FailAt
		{
			c := map[string]any{"gun_type": typ, "creation_fails_at": failAt, "instances": 4}
			counters[typ].Store(0)
			regShots.Store(0)
			ec, err := vkit.DecodePools(map[string]any{"pools": []any{map[string]any{"id": "p",
				"gun":    map[string]any{"type": typ, "fail-at": failAt},
				"ammo":   map[string]any{"type": "dummy"},
				"result": map[string]any{"type": "discard"},
				"rps":    map[string]any{"type": "once", "times": 40}, "startup": map[string]any{"type": "once", "times": 4}}}})
			if err != nil {
				res.Inconclusive(true, "pool with a registered gun rejected: %v", err)
				continue
			}
			rr := vkit.RunEngine(ec, nil, 60*time.Second)
			key := "C05/registered-gun/" + strings.TrimPrefix(typ, "verif-c05-")
			switch {
			case rr.Hang || rr.WaitHang:
				res.Violate(key+"/hang", "the run did not end within 60 s:\n"+rr.Stacks, c)
			case failAt == 0 && rr.Err != nil:
				res.Violate(key+"/healthy-run-failed", fmt.Sprintf("no fault planned, the run ended with %v", rr.Err), c)
			case failAt == 0 && regShots.Load() != 40:
				res.Violate(key+"/healthy-run-shots", fmt.Sprintf("no fault planned, %d of 40 shots made", regShots.Load()), c)
			case failAt > 0 && counters[typ].Load() < int64(failAt):
				res.Inconclusive(false, "%s: the failing creation (number %d) was never reached", typ, failAt)
			case failAt > 0 && rr.Err == nil:
				res.Violate(key+"/swallowed", fmt.Sprintf("creation number %d of the pool's guns failed with %q but Engine.Run returned nil (%d shots made)", failAt, regMarker, regShots.Load()), c)
			case failAt > 0 && !strings.Contains(rr.Err.Error(), regMarker):
				res.Violate(key+"/cause-lost", fmt.Sprintf("the run failed with %q, which does not carry the constructor's error %q", rr.Err, regMarker), c)
			}
			if failAt > 0 {
				res.Count("faults_fired", 1)
			}
			res.Count("registered_gun_runs", 1)
			res.Eval(vkit.JSON(c), failAt > 0)
		}
	}
	res.ChildDone()
}

func main() {
	if vkit.IsChild() {
		if vkit.ChildKind() == "reggun" {
			registeredGunChild()
		} else {
			child()
		}
		return
	}
	res := vkit.NewResult("fault plan = component (provider, aggregator, gun factory, bind, warm-up, schedule factory, shot panic, cancel, none) × position, each repeated K times with 1–8 instances, shared/per-instance profile and 1–3 pools; distinct = distinct (plan, instances, pools, observed await order of the pool's result channels); non-trivial = a fault fired or a cancel was delivered")
	rng := vkit.Rand("c05")
	reps := vkit.N(10, 50)
	if b, err := os.ReadFile(os.Getenv("VERIF_REPLAY")); err == nil && strings.Contains(string(b), "C05/real-provider/") {
		realProviderFaults(res)
		res.Write()
		return
	}
	var cases []Plan
	for _, base := range plans() {
		for r := 0; r < reps; r++ {
			p := base
			p.Rep = r
			p.Instances = []int{1, 2, 3, 8}[rng.Intn(4)]
			p.Pools = 1
			if vkit.Thorough() || r%5 == 4 {
				p.Pools = 1 + rng.Intn(3)
			}
			p.FaultPool = rng.Intn(p.Pools)
			p.ShotUs = []int{0, 50, 300}[rng.Intn(3)]
			p.PerInstance = rng.Intn(2) == 0
			switch {
			case p.Component == "schedule" && p.Pos == "shared":
				p.PerInstance = false
			case p.Component == "schedule":
				p.PerInstance = true
				if p.Instances < 2 {
					p.Instances = 2
				}
			case p.Component == "newgun" && p.Pos == "later-instance", p.Component == "bind" && p.Pos == "later":
				if p.Instances < 2 {
					p.Instances = 3
				}
			}
			cases = append(cases, p)
		}
	}
	rng.Shuffle(len(cases), func(i, j int) { cases[i], cases[j] = cases[j], cases[i] })
	vkit.RunChildren(res, vkit.ChildSpec{Kind: "plans", Batches: vkit.Batches(cases, 30), Parallel: 8, Timeout: 10 * time.Minute,
		OnCrash: func(c vkit.Crash) {
			var p Plan
			_ = json.Unmarshal(c.Case, &p)
			res.Violate(fmt.Sprintf("C05/%s/%s/process-died", p.Component, p.Pos), "child process died or hung while running this plan:\n"+c.Output, p)
		}})
	realProviderFaults(res)
	realAggregatorFaults(res)
	registeredGunFaults(res)
	vkit.CheckRaceLog(res, "C05")
	if res.Counter("faults_fired") < int64(len(cases)/3) {
		res.Inconclusive(true, "too few faults fired: %d of %d runs", res.Counter("faults_fired"), len(cases))
	}
	res.Write()
}
