// C07 — Ammo decoding fidelity for the uri, uripost, raw and http/json formats.
//
// Abstract request lists are rendered into each format with the permitted layout variations,
// read by the real provider (decoded from a config map, on the in-memory fs) for 1–3 passes,
// and every delivered ammo is opened through the gun-facing interface and compared with the
// model, in order, with wrap-around.
package main

import (
	"fmt"
	"math/rand"
	"time"

	"verif/harness/vkit"
)

type Case struct {
	File    vkit.AmmoFile `json:"file"`
	Passes  int           `json:"passes"`
	Preload bool          `json:"preload"`
	Limit   int           `json:"limit,omitempty"` // > 0: the provider stops after that many entries
	Conf    []vkit.KV     `json:"conf_headers,omitempty"`
	Text    string        `json:"text,omitempty"`
}

var typeName = map[string]string{"uri": "uri", "uripost": "uripost", "raw": "raw", "jsonline": "http/json"}

func layoutKey(l vkit.Layout) string {
	s := ""
	if l.BlankLines {
		s += "b"
	}
	if l.SurroundWS {
		s += "w"
	}
	if !l.FinalNewline {
		s += "n"
	}
	return l.JSONMode + s
}

func runCase(res *vkit.Result, c Case) {
	data := c.File.Render()
	path := vkit.WriteMem(data)
	defer vkit.RemoveMem(path)
	c.Text = string(data)
	if len(c.Text) > 3000 {
		c.Text = c.Text[:3000]
	}
	fail := func(check, f string, a ...any) {
		nl := "final-newline"
		if !c.File.Layout.FinalNewline {
			nl = "no-final-newline"
		}
		res.Violate(fmt.Sprintf("C07/%s/%s/%s", c.File.Format, nl, check), fmt.Sprintf(f, a...), c)
	}
	conf := map[string]any{"type": typeName[c.File.Format], "file": path, "passes": c.Passes}
	if c.Preload {
		conf["preload"] = true
	}
	if c.Limit > 0 {
		conf["limit"] = c.Limit
	}
	if len(c.Conf) > 0 {
		conf["headers"] = vkit.ConfHeaders(c.Conf)
	}
	p, err := vkit.NewProvider(conf)
	if err != nil {
		fail("rejected", "well-formed file rejected at provider creation: %v", err)
		return
	}
	pass := c.File.ExpectedPass(c.Conf)
	want := len(pass) * c.Passes
	if c.Limit > 0 && c.Limit < want {
		want = c.Limit
	}
	dr := vkit.Drain(p, 1, want+len(pass)+3, 10*time.Second)
	if dr.Hang != "" {
		res.Inconclusive(false, "provider hang (C08's subject): %s", dr.Hang)
	}
	n := len(dr.Items)
	for i, a := range dr.Items {
		if i >= want {
			break
		}
		g, err := vkit.OpenHTTPAmmo(a)
		if err != nil {
			fail("unreadable", "delivered ammo %d cannot be opened: %v", i, err)
			return
		}
		if d := vkit.DiffExpect(g, pass[i%len(pass)]); d != "" {
			fail("entry-differs", "delivered ammo %d (entry %d of pass %d) differs from the file: %s", i, i%len(pass), i/len(pass), d)
			return
		}
		if g.ID != uint64(i+1) {
			fail("ids", "ammo %d has id %d", i, g.ID)
		}
	}
	// count: drops, duplicates, merges (ending semantics proper are C08's subject, but a
	// dropped last entry shows as a short pass here)
	if n != want && !dr.Cancelled {
		fail("count", "%d entries × %d passes, limit %d: %d ammo delivered, want %d (run error: %v)", len(pass), c.Passes, c.Limit, n, want, dr.RunErr)
	} else if n > want {
		fail("count", "%d entries × %d passes: more than %d ammo delivered", len(pass), c.Passes, want)
	}
	res.Count("files_"+c.File.Format+"/"+layoutKey(c.File.Layout), 1)
	res.Count("entries_compared", int64(min(n, want)))
	res.Count("passes_total", int64(c.Passes))
	res.Eval(c.Text+fmt.Sprint(c.Passes, c.Preload, c.Limit), len(pass) >= 2 || c.Passes >= 2)
	if c.File.Layout.Seed%400 == 0 {
		res.Sample(map[string]any{"format": c.File.Format, "layout": c.File.Layout, "passes": c.Passes, "preload": c.Preload, "file_text": c.Text, "delivered": n})
	}
}

func zeroBodyLast(format string, finalNL bool) Case {
	f := vkit.AmmoFile{Format: format, Layout: vkit.Layout{FinalNewline: finalNL, Seed: 1, JSONMode: "lines"}}
	e1 := vkit.Entry{Method: "POST", URI: "/a?vid=1", Body: []byte("hello"), Tag: "t1"}
	e2 := vkit.Entry{Method: "POST", URI: "/b?vid=2", Tag: "t2"}
	if format == "uri" || format == "jsonline" || format == "raw" {
		e1.Method, e2.Method = "GET", "GET"
		e1.Body = nil
	}
	f.Items = []vkit.Item{{Entry: &e1}, {Entry: &e2}}
	return Case{File: f, Passes: 2}
}

func main() {
	vkit.Fs()
	res := vkit.NewResult("abstract request lists (1–8 entries; uri→GET, uripost→POST with binary/empty bodies, raw→any method with full HTTP/1.1 blocks, http/json→any method with UTF-8 bodies; URIs with queries and %-escapes, tags with inner spaces, header sets, in-file [Header: value] lines at random positions incl. Host) rendered with the permitted layout variations (blank lines, surrounding whitespace, final newline present/absent; http/json as lines, pretty-printed objects or an array), read for 1–3 passes with preload off/on and non-colliding configured headers; distinct = distinct (file text, passes, preload); non-trivial = ≥ 2 entries or ≥ 2 passes")
	rng := vkit.Rand("c07")
	var cases []Case
	for _, f := range []string{"uri", "uripost", "raw", "jsonline"} {
		for _, nl := range []bool{true, false} {
			cases = append(cases, zeroBodyLast(f, nl))
		}
	}
	n := vkit.N(6000, 60000)
	formats := []string{"uri", "uripost", "raw", "jsonline"}
	for i := 0; i < n; i++ {
		c := Case{File: vkit.GenAmmoFile(rng, formats[rng.Intn(4)], 8, 1), Passes: 1 + rng.Intn(3), Preload: rng.Intn(4) == 0}
		if rng.Intn(3) == 0 {
			c.Conf = []vkit.KV{{K: "X-Conf-Only", V: "c" + fmt.Sprint(rng.Intn(100))}}
			if rng.Intn(2) == 0 {
				c.Conf = append(c.Conf, vkit.KV{K: "x-conf-second", V: "two words"})
			}
		}
		if rng.Intn(6) == 0 {
			// a header name configured twice (two list items): both values belong to every request
			// that does not define the header itself
			c.Conf = append(c.Conf, vkit.KV{K: "Accept-Language", V: "en"}, vkit.KV{K: "accept-language", V: "fr;q=0." + fmt.Sprint(1+rng.Intn(8))})
		}
		if rng.Intn(3) == 0 {
			// a limit somewhere between one entry and a little beyond everything the passes give
			c.Limit = 1 + rng.Intn(len(c.File.Entries())*c.Passes+2)
		}
		cases = append(cases, c)
	}
	_ = rand.Int
	for _, c := range cases {
		runCase(res, c)
	}
	if res.Counter("entries_compared") < 1000 {
		res.Inconclusive(true, "too few entries compared")
	}
	res.Write()
}
