// C04 — Timing: no early shots; discard_overflow bounds lateness to the 2 s window.
//
// Real time. Per token, with T = token time, L1 = (clock just after Schedule.Next returned) − T
// and L2 = (clock at Shoot entry or at the discarded Report) − T:
//
//	shot ⇒ shootEntry ≥ T;  discard on: shot ⇒ L1 < 2s, discarded ⇒ L2 ≥ 2s (tag, net 777);
//	discard off: no discards, shots = tokens.
//
// The engine's decision instant lies between the two readings, so both implications are
// sound however loaded the machine is.
package main

import (
	"bytes"
	"context"
	"fmt"
	"math"
	"math/rand"
	"net"
	"net/http"
	"os"
	"os/exec"
	"path/filepath"
	"strings"
	"sync"
	"sync/atomic"
	"time"

	"github.com/yandex/pandora/core"
	"github.com/yandex/pandora/core/coreutil"
	"github.com/yandex/pandora/core/engine"
	"github.com/yandex/pandora/core/schedule"

	"verif/harness/vkit"
)

type Case struct {
	Name      string  `json:"name"`
	Instances int     `json:"instances"`
	Line      bool    `json:"line"`
	From      float64 `json:"from"`
	To        float64 `json:"to"`
	DurMs     int     `json:"dur_ms"`
	Discard   bool    `json:"discard_overflow"`
	// response-time script
	ShotMs     int  `json:"shot_ms"`  // every shot
	StallAt    int  `json:"stall_at"` // global shot index with a long stall (−1 none)
	StallMs    int  `json:"stall_ms"`
	PreStartMs int  `json:"prestart_ms"`  // schedule started this long ago
	GapMs      int  `json:"gap_ms"`       // >0: burst (300 ms) — silence of GapMs — tail: after a stall the next token lies in the future
	UnlimMs    int  `json:"unlimited_ms"` // >0: the paced profile is combined with an unlimited part of this length (before it if UnlimFirst)
	UnlimFirst bool `json:"unlimited_first,omitempty"`
	// OnceMid: the profile is [paced, once 1, unlimited, paced again]: one single request stands
	// between the first paced part and the unlimited part
	OnceMid bool `json:"single_request_before_the_unlimited_part,omitempty"`
	JitterMs   int  `json:"jitter_ms"`
	// PerInstance: the pool is configured with rps-per-instance (the engine asks the factory once
	// per instance); discard_overflow applies to it in the same way
	PerInstance bool `json:"rps_per_instance,omitempty"`
	// Lead: the profile begins with a stretch that holds no request — "step0": a step profile
	// from 0 rps (its first level lasts DurMs and is empty), "pause": a 0-rps part of LeadMs before
	// a const part. Whatever the schedule hands out, no request may be fired before the run's
	// start plus that stretch: the scheduled time of a request is what the profile says.
	// UnlimOnly: the whole profile is `unlimited` for DurMs: every request is scheduled for the moment
	// it is drawn, so none can be late — however slow the target, nothing may be discarded
	UnlimOnly bool   `json:"unlimited_only,omitempty"`
	// Once > 0: the profile is `once` with that many requests, all scheduled for the same instant
	// (optionally followed by a const part of DurMs): how late each is depends on when it is drawn
	Once int `json:"once_times,omitempty"`
	Lead      string `json:"leading_empty_stretch,omitempty"`
	LeadMs    int    `json:"lead_ms,omitempty"`
}

const window = 2 * time.Second

func runCase(res *vkit.Result, c Case) {
	d := time.Duration(c.DurMs) * time.Millisecond
	var inner core.Schedule
	var lead time.Duration
	known := 0 // requests of the parts whose size is known, in a profile whose total is not
	if c.UnlimOnly {
		inner = schedule.NewUnlimited(d)
	} else if c.Once > 0 && c.From > 0 {
		inner = schedule.NewComposite(schedule.NewOnce(int64(c.Once)), schedule.NewConst(c.From, d))
	} else if c.Once > 0 {
		inner = schedule.NewOnce(int64(c.Once))
	} else if c.Lead == "step0" {
		inner = schedule.NewStep(0, 2*c.From, int64(c.From), d)
		lead = d
	} else if c.Lead == "pause" {
		lead = time.Duration(c.LeadMs) * time.Millisecond
		inner = schedule.NewComposite(schedule.NewConst(0, lead), schedule.NewConst(c.From, d))
	} else if c.UnlimMs > 0 && c.OnceMid {
		paced, tail := schedule.NewConst(c.From, d), schedule.NewConst(c.From, d/2)
		known = paced.Left() + 1 + tail.Left()
		inner = schedule.NewComposite(paced, schedule.NewOnce(1), schedule.NewUnlimited(time.Duration(c.UnlimMs)*time.Millisecond), tail)
	} else if c.UnlimMs > 0 {
		paced := schedule.NewConst(c.From, d)
		known = paced.Left()
		un := schedule.NewUnlimited(time.Duration(c.UnlimMs) * time.Millisecond)
		if c.UnlimFirst {
			inner = schedule.NewComposite(un, paced)
		} else {
			inner = schedule.NewComposite(paced, un)
		}
	} else if c.GapMs > 0 {
		inner = schedule.NewComposite(schedule.NewConst(c.From, 300*time.Millisecond),
			schedule.NewConst(0, time.Duration(c.GapMs)*time.Millisecond), schedule.NewConst(c.From, d))
	} else if c.Line {
		inner = schedule.NewLine(c.From, c.To, d)
	} else {
		inner = schedule.NewConst(c.From, d)
	}
	tokens := inner.Left()
	if c.PreStartMs > 0 {
		inner.Start(time.Now().Add(-time.Duration(c.PreStartMs) * time.Millisecond))
	}
	rec := &vkit.RecSchedule{Schedule: inner}
	fail := func(check, f string, a ...any) {
		mode := "discard-on"
		if !c.Discard {
			mode = "discard-off"
		}
		res.Violate("C04/"+mode+"/"+c.Name+"/"+check, fmt.Sprintf(f, a...), c)
	}
	var mu sync.Mutex
	var firedOnTime, firedLate, discarded int
	var maxL1Fired, minL2Disc time.Duration = 0, 1 << 62
	var samples []map[string]any
	plan := vkit.NewGunPlan()
	var entriesMu sync.Mutex
	var entries []time.Time
	var runStart atomic.Value
	plan.OnShoot = func(g *vkit.MockGun, a *vkit.MockAmmo, entry time.Time) {
		if rs, ok := runStart.Load().(time.Time); ok && lead > 0 && entry.Before(rs.Add(lead)) {
			fail("before-profile", "a request was fired %v after the start of the run; the profile holds no request in its first %v", entry.Sub(rs), lead)
		}
		entriesMu.Lock()
		entries = append(entries, entry)
		entriesMu.Unlock()
		tr, ok := rec.Last(vkit.Goid())
		if !ok {
			res.Inconclusive(false, "shot without a recorded token")
			return
		}
		l1 := tr.After.Sub(tr.T)
		mu.Lock()
		defer mu.Unlock()
		if entry.Before(tr.T) {
			fail("early-shot", "shot entered %v before its scheduled time", tr.T.Sub(entry))
		}
		if c.Discard && l1 >= window {
			fail("late-fired", "token was already %v late when it was drawn (≥ 2s) but it was fired, not discarded", l1)
		}
		if l1 > 0 {
			firedLate++
		} else {
			firedOnTime++
		}
		if l1 > maxL1Fired {
			maxL1Fired = l1
		}
		if len(samples) < 3 && l1 > 200*time.Millisecond {
			samples = append(samples, map[string]any{"event": "fired", "late_when_drawn_ms": l1.Milliseconds()})
		}
	}
	if c.ShotMs > 0 || c.StallAt >= 0 {
		var n int
		var nmu sync.Mutex
		plan.ShotDur = func(inst, shot, ammo int) time.Duration {
			nmu.Lock()
			k := n
			n++
			nmu.Unlock()
			if c.StallAt >= 0 && k == c.StallAt {
				return time.Duration(c.StallMs) * time.Millisecond
			}
			dd := time.Duration(c.ShotMs) * time.Millisecond
			if c.JitterMs > 0 {
				dd += time.Duration((k*7919)%c.JitterMs) * time.Millisecond
			}
			return dd
		}
	}
	aggr := &vkit.MockAggregator{}
	aggr.OnReport = func(s vkit.SampleRec) {
		if s.Tags != "discarded" && s.Net != 777 {
			return
		}
		tr, ok := rec.Last(s.Goid)
		mu.Lock()
		defer mu.Unlock()
		discarded++
		if s.Tags != "discarded" || s.Net != 777 {
			fail("discard-sample", "discarded sample has tag %q net code %d, want tag 'discarded' net 777", s.Tags, s.Net)
		}
		if !c.Discard {
			fail("discarded", "a token was discarded although discard_overflow is off")
			return
		}
		if !ok {
			return
		}
		l2 := s.At.Sub(tr.T)
		if l2 < window {
			fail("early-discard", "token discarded although it was only %v late at the time of the report (< 2s)", l2)
		}
		if l2 < minL2Disc {
			minL2Disc = l2
		}
		if len(samples) < 6 {
			samples = append(samples, map[string]any{"event": "discarded", "late_at_report_ms": l2.Milliseconds()})
		}
	}
	prov := &vkit.MockProvider{Items: -1, FailAfter: -1}
	m := vkit.NewMetrics()
	eng := engine.New(vkit.NopLog(), m, engine.Config{Pools: []engine.InstancePoolConfig{{
		ID: "p", Provider: prov, Aggregator: aggr, NewGun: plan.NewGun,
		NewRPSSchedule:  func() (core.Schedule, error) { return rec, nil },
		StartupSchedule: schedule.NewOnce(int64(c.Instances)), DiscardOverflow: c.Discard, RPSPerInstance: c.PerInstance,
	}}})
	t0 := time.Now()
	runStart.Store(t0)
	done := make(chan error, 1)
	go func() { done <- eng.Run(context.Background()) }()
	var err error
	select {
	case err = <-done:
	case <-time.After(120 * time.Second):
		res.Inconclusive(false, "case %s did not end within the 120s watchdog", c.Name)
		return
	}
	eng.Wait()
	run := time.Since(t0)
	if err != nil {
		fail("run-error", "run ended with %v", err)
		return
	}
	mu.Lock()
	defer mu.Unlock()
	fired := firedOnTime + firedLate
	if tokens < 0 {
		// a profile with an unlimited part has no known length: what was drawn is what there was
		tokens = rec.OKTokens()
	}
	if fired+discarded != tokens {
		fail("accounting", "%d tokens but %d fired + %d discarded", tokens, fired, discarded)
	}
	// the documented curve, not only the schedule's own word for it: with a plain shared const or
	// line profile that starts with the run, the k-th earliest shot uses a request numbered k or
	// higher, which the profile places no earlier than the instant at which its rate curve reaches k
	if plain := !c.UnlimOnly && c.Once == 0 && c.Lead == "" && c.UnlimMs == 0 && c.GapMs == 0 && c.PreStartMs == 0 && !c.PerInstance; plain {
		entriesMu.Lock()
		sortTimes(entries)
		a, b := 0.0, c.From
		if c.Line {
			a = (c.To - c.From) / d.Seconds()
		}
		for k, e := range entries {
			var tk float64
			if a > 1e-9 || a < -1e-9 {
				tk = (math.Sqrt(2*a*float64(k)+b*b) - b) / a
			} else if b > 0 {
				tk = float64(k) / b
			}
			if math.IsNaN(tk) || math.IsInf(tk, 0) {
				break
			}
			if lb := t0.Add(time.Duration(tk*1e9) - 10*time.Microsecond); e.Before(lb) {
				fail("before-documented-time", "the %d-th shot came %v after the start of the run; the profile's rate curve reaches %d only at +%v", k+1, e.Sub(t0), k, time.Duration(tk*1e9))
				break
			}
		}
		res.Count("shots_judged_against_the_documented_curve", int64(len(entries)))
		entriesMu.Unlock()
	}
	if known > 0 && fired+discarded < known {
		fail("known-part-not-fired", "the parts of known size hold %d requests, only %d were fired and %d discarded: the run ended %.2f s after its start, before the profile did", known, fired, discarded, run.Seconds())
	}
	if !c.Discard && fired != tokens {
		fail("not-fired", "discard off: %d tokens, %d fired", tokens, fired)
	}
	if c.UnlimOnly && discarded > 0 {
		fail("unlimited-discarded", "the profile is `unlimited` (every request is due when it is drawn, none can be 2 s late), yet %d of %d requests were discarded", discarded, tokens)
	}
	res.Count("tokens_judged", int64(tokens))
	res.Count("fired_on_time", int64(firedOnTime))
	res.Count("fired_late_lt_2s", int64(firedLate))
	res.Count("discarded", int64(discarded))
	res.Max("max_late_when_drawn_among_fired_ms", maxL1Fired.Milliseconds())
	if discarded > 0 {
		res.Count("cases_with_discards", 1)
		if cur := res.Counter("min_late_at_report_among_discarded_ms"); cur == 0 || minL2Disc.Milliseconds() < cur {
			res.Count("min_late_at_report_among_discarded_ms", minL2Disc.Milliseconds()-cur)
		}
	}
	res.Eval(vkit.JSON(c), firedLate > 0 || discarded > 0)
	res.Sample(map[string]any{"case": c, "tokens": tokens, "fired_on_time": firedOnTime, "fired_late": firedLate, "discarded": discarded,
		"run_s": run.Seconds(), "events": samples})
}

func base() []Case {
	return []Case{
		{Name: "all-fast", Instances: 2, From: 40, DurMs: 1500, Discard: true, ShotMs: 1, StallAt: -1},
		{Name: "all-fast", Instances: 1, From: 25, DurMs: 1200, Discard: false, ShotMs: 0, StallAt: -1},
		{Name: "all-fast", Instances: 4, Line: true, From: 1, To: 11, DurMs: 2500, Discard: false, ShotMs: 0, StallAt: -1},
		{Name: "all-fast", Instances: 2, Line: true, From: 12, To: 2, DurMs: 1700, Discard: true, ShotMs: 1, StallAt: -1},
		// one long stall: tokens scheduled during the stall are late when the instance comes back
		{Name: "one-stall", Instances: 1, From: 20, DurMs: 4000, Discard: true, ShotMs: 1, StallAt: 4, StallMs: 2600},
		{Name: "one-stall", Instances: 1, From: 20, DurMs: 3500, Discard: false, ShotMs: 1, StallAt: 4, StallMs: 2600},
		// sustained slow target: lateness grows 0.4 s per shot (separates a fresh from a stale clock)
		{Name: "sustained-slow", Instances: 1, From: 5, DurMs: 6000, Discard: true, ShotMs: 600, StallAt: -1},
		{Name: "sustained-slow", Instances: 2, From: 10, DurMs: 5000, Discard: true, ShotMs: 700, StallAt: -1},
		{Name: "one-stall", Instances: 1, From: 20, DurMs: 4000, Discard: true, ShotMs: 1, StallAt: 4, StallMs: 2600, PerInstance: true},
		{Name: "sustained-slow", Instances: 2, From: 10, DurMs: 5000, Discard: true, ShotMs: 700, StallAt: -1, PerInstance: true},
		// slower than the interval but never 2 s behind: nothing may be discarded
		{Name: "slow-within-window", Instances: 1, From: 10, DurMs: 1500, Discard: true, ShotMs: 150, StallAt: -1},
		{Name: "slow-within-window", Instances: 2, From: 20, DurMs: 2000, Discard: true, ShotMs: 140, StallAt: -1},
		// a stall that makes a burst of tokens > 2 s late, followed by tokens that lie in the future when
		// the instance comes back: the late ones are discarded, the on-time ones after them must be fired
		{Name: "stall-then-future", Instances: 1, From: 10, DurMs: 1000, Discard: true, ShotMs: 1, StallAt: 0, StallMs: 2600, GapMs: 2500},
		{Name: "stall-then-future", Instances: 1, From: 20, DurMs: 800, Discard: true, ShotMs: 0, StallAt: 1, StallMs: 2900, GapMs: 2700},
		// a paced part next to an unlimited part (the whole profile then has no known length): the paced
		// tokens must still wait for their time
		{Name: "paced-plus-unlimited", Instances: 2, From: 20, DurMs: 1000, Discard: true, ShotMs: 1, StallAt: -1, UnlimMs: 150, UnlimFirst: true},
		{Name: "paced-plus-unlimited", Instances: 1, From: 10, DurMs: 1200, Discard: false, ShotMs: 1, StallAt: -1, UnlimMs: 100},
		{Name: "paced-plus-unlimited", Instances: 1, From: 20, DurMs: 500, Discard: false, ShotMs: 1, StallAt: -1, UnlimMs: 300, OnceMid: true},
		{Name: "paced-plus-unlimited", Instances: 3, From: 20, DurMs: 500, Discard: true, ShotMs: 1, StallAt: -1, UnlimMs: 300, OnceMid: true},
		// the same with a stall during the paced part: the profile's length is unknown, its paced
		// tokens are bound to the 2 s window all the same
		{Name: "stall-in-paced-plus-unlimited", Instances: 1, From: 20, DurMs: 3500, Discard: true, ShotMs: 1, StallAt: 3, StallMs: 2600, UnlimMs: 60},
		{Name: "stall-in-paced-plus-unlimited", Instances: 2, From: 30, DurMs: 3500, Discard: true, ShotMs: 1, StallAt: 5, StallMs: 2700, UnlimMs: 40, UnlimFirst: true},
		// an unlimited profile against a slow target (few draws per second)
		{Name: "unlimited-slow-target", Instances: 1, DurMs: 4000, Discard: true, ShotMs: 250, StallAt: -1, UnlimOnly: true},
		{Name: "unlimited-slow-target", Instances: 3, DurMs: 4500, Discard: true, ShotMs: 700, StallAt: -1, UnlimOnly: true},
		// profiles that begin with an empty stretch
		{Name: "leading-empty-stretch", Instances: 4, From: 10, DurMs: 500, Discard: true, ShotMs: 1, StallAt: -1, Lead: "step0"},
		{Name: "leading-empty-stretch", Instances: 2, From: 20, DurMs: 400, Discard: false, ShotMs: 0, StallAt: -1, Lead: "step0"},
		{Name: "leading-empty-stretch", Instances: 2, From: 20, DurMs: 600, Discard: true, ShotMs: 1, StallAt: -1, Lead: "pause", LeadMs: 400},
		// many requests scheduled for one and the same instant against a slow target: each is as late
		// as the moment it is drawn says
		{Name: "once-slow-target", Instances: 1, Once: 8, Discard: true, ShotMs: 700, StallAt: -1},
		{Name: "once-slow-target", Instances: 2, Once: 14, Discard: true, ShotMs: 600, StallAt: -1},
		{Name: "once-slow-target", Instances: 1, Once: 6, From: 10, DurMs: 1000, Discard: true, ShotMs: 650, StallAt: -1},
		{Name: "once-slow-target", Instances: 1, Once: 5, Discard: false, ShotMs: 600, StallAt: -1},
		// schedule that started in the past: tokens overdue from the first draw on
		{Name: "prestarted", Instances: 1, From: 20, DurMs: 3000, Discard: true, ShotMs: 1, StallAt: -1, PreStartMs: 2500},
		{Name: "prestarted", Instances: 3, From: 30, DurMs: 3000, Discard: false, ShotMs: 1, StallAt: -1, PreStartMs: 2700},
		{Name: "prestarted", Instances: 1, From: 20, DurMs: 1000, Discard: true, ShotMs: 0, StallAt: -1, PreStartMs: 1900},
		{Name: "prestarted", Instances: 1, From: 50, DurMs: 1000, Discard: true, ShotMs: 0, StallAt: -1, PreStartMs: 3100},
	}
}

func gen(rng *rand.Rand) Case {
	c := Case{Instances: 1 + rng.Intn(4), From: float64(5 + rng.Intn(46)), DurMs: 1000 + rng.Intn(5000), Discard: rng.Intn(4) != 0, StallAt: -1}
	if rng.Intn(3) == 0 {
		c.Line = true
		c.To = float64(5 + rng.Intn(46))
	}
	c.PerInstance = rng.Intn(3) == 0
	switch rng.Intn(6) {
	case 5:
		c.Name = "stall-then-future"
		c.Instances = 1
		c.Line = false
		c.Discard = true
		c.GapMs = 2300 + rng.Intn(900)
		c.StallAt = rng.Intn(2)
		c.StallMs = c.GapMs + 50 + rng.Intn(150)
		c.DurMs = 500 + rng.Intn(1000)
		c.ShotMs = rng.Intn(2)
	case 0:
		c.Name = "all-fast"
		c.ShotMs = rng.Intn(3)
	case 1:
		c.Name = "one-stall"
		c.Instances = 1 + rng.Intn(2)
		c.ShotMs = 1
		c.StallAt = rng.Intn(10)
		c.StallMs = 2100 + rng.Intn(1500)
		if c.DurMs < c.StallMs+500 {
			c.DurMs = c.StallMs + 500
		}
		if rng.Intn(3) == 0 {
			c.Name = "stall-in-paced-plus-unlimited"
			c.Line = false
			c.UnlimMs = 20 + rng.Intn(80)
			c.UnlimFirst = rng.Intn(2) == 0
		}
	case 2:
		c.Name = "sustained-slow"
		c.Instances = 1 + rng.Intn(2)
		c.ShotMs = int(float64(c.Instances)*1000/c.From*float64(2+rng.Intn(3))) + 50
		c.JitterMs = rng.Intn(100)
		if c.DurMs < 4000 {
			c.DurMs = 4000
		}
		if !c.Discard { // would run for DurMs × slowdown; keep it short
			c.DurMs = 1500
		}
	case 3:
		c.Name = "slow-within-window"
		c.DurMs = 1000 + rng.Intn(1000)
		c.ShotMs = int(float64(c.Instances)*1000/c.From) + 20
	default:
		c.Name = "prestarted"
		c.PreStartMs = 1500 + rng.Intn(2000)
		c.ShotMs = rng.Intn(3)
	}
	return c
}

// ---------------------------------------------------------------- process layer

// processDiscardSetting: the real binary reads a config file in which discard_overflow is written
// as true, as false, through ${ENV:…} placeholders resolving to either, or not at all (the
// default is on). One instance, 10 rps for 3 s, and a target whose first answer takes 2.6 s:
// with the setting on, the tokens that are ≥ 2 s late must be written as discarded lines (net
// code 777) and only then; with it off, all 30 requests must be fired and none discarded.
func processDiscardSetting(res *vkit.Result, bin string) {
	type variant struct {
		Name, Line string
		Env        []string
		On         bool
		// Lead: the judged pool is the second of two; the pool in front of it carries this line
		// ("-" = a pool in front that leaves the key out)
		Lead string
	}
	variants := []variant{
		{"literal-true", "discard_overflow: true", nil, true, ""},
		{"literal-false", "discard_overflow: false", nil, false, ""},
		{"absent", "", nil, true, ""},
		{"env-true", "discard_overflow: ${ENV:VERIF_C04_DISCARD}", []string{"VERIF_C04_DISCARD=true"}, true, ""},
		{"env-false", "discard_overflow: ${ENV:VERIF_C04_DISCARD}", []string{"VERIF_C04_DISCARD=false"}, false, ""},
		{"short-env-false", "discard_overflow: ${VERIF_C04_DISCARD}", []string{"VERIF_C04_DISCARD=false"}, false, ""},
		// the setting is per pool: what another pool of the same file says must not matter
		{"absent-after-false-pool", "", nil, true, "discard_overflow: false"},
		{"absent-after-true-pool", "", nil, true, "discard_overflow: true"},
		{"false-after-absent-pool", "discard_overflow: false", nil, false, "-"},
		{"true-after-false-pool", "discard_overflow: true", nil, true, "discard_overflow: false"},
	}
	var wg sync.WaitGroup
	for _, v := range variants {
		wg.Add(1)
		go func(v variant) {
			defer wg.Done()
			c := map[string]any{"layer": "process", "discard_overflow_written_as": v.Line, "env": v.Env, "pool_in_front": v.Lead}
			key := "C04/process/" + v.Name
			var first sync.Once
			srv := &http.Server{Handler: http.HandlerFunc(func(w http.ResponseWriter, r *http.Request) {
				if r.URL.Path == "/a" { // the pool in front (if any) asks for /lead
					first.Do(func() { time.Sleep(2600 * time.Millisecond) })
				}
				_, _ = w.Write([]byte("ok"))
			})}
			ln, err := net.Listen("tcp", "127.0.0.1:0")
			if err != nil {
				res.Inconclusive(true, "listen: %v", err)
				return
			}
			go func() { _ = srv.Serve(ln) }()
			defer srv.Close()
			dir, err := os.MkdirTemp(vkit.TmpDir(), "c04proc")
			if err != nil {
				res.Inconclusive(true, "tmp: %v", err)
				return
			}
			defer os.RemoveAll(dir)
			out, ammo, cf := filepath.Join(dir, "phout.log"), filepath.Join(dir, "ammo.uri"), filepath.Join(dir, "load.yaml")
			_ = os.WriteFile(ammo, []byte("/a taga\n"), 0o644)
			lead := ""
			if v.Lead != "" {
				l := v.Lead
				if l == "-" {
					l = ""
				}
				lead = fmt.Sprintf(`  - id: "lead"
    gun: {type: "http", target: "%s"}
    ammo: {type: "uri", file: "%s"}
    result: {type: "phout", destination: "%s"}
    rps: {type: "once", times: 1}
    startup: {type: "once", times: 1}
    %s
`, ln.Addr().String(), ammo+".lead", filepath.Join(dir, "lead.log"), l)
				_ = os.WriteFile(ammo+".lead", []byte("/lead tagl\n"), 0o644)
			}
			conf := fmt.Sprintf(`pools:
%s  - id: "p"
    gun: {type: "http", target: "%s"}
    ammo: {type: "uri", file: "%s"}
    result: {type: "phout", destination: "%s"}
    rps: {type: "const", ops: 10, duration: "3s"}
    startup: {type: "once", times: 1}
    %s
log: {level: "error"}
`, lead, ln.Addr().String(), ammo, out, v.Line)
			_ = os.WriteFile(cf, []byte(conf), 0o644)
			cmd := exec.Command(bin, cf)
			cmd.Dir = dir
			cmd.Env = append(append(os.Environ(), "GORACE="), v.Env...)
			var outb bytes.Buffer
			cmd.Stdout, cmd.Stderr = &outb, &outb
			if err := cmd.Start(); err != nil {
				res.Inconclusive(true, "cannot start pandora: %v", err)
				return
			}
			exited := make(chan error, 1)
			go func() { exited <- cmd.Wait() }()
			select {
			case err := <-exited:
				if err != nil {
					res.Inconclusive(true, "pandora (%s) failed: %v: %.600s", v.Name, err, outb.String())
					return
				}
			case <-time.After(90 * time.Second):
				_ = cmd.Process.Kill()
				res.Inconclusive(false, "pandora (%s) did not end within 90 s", v.Name)
				return
			}
			data, _ := os.ReadFile(out)
			fired, discarded := 0, 0
			for _, l := range strings.Split(strings.TrimSpace(string(data)), "\n") {
				cols := strings.Split(l, "\t")
				if len(cols) != 12 {
					continue
				}
				if cols[10] == "777" {
					discarded++
				} else {
					fired++
				}
			}
			switch {
			case fired+discarded != 30:
				res.Violate(key+"/count", fmt.Sprintf("30 tokens, %d fired + %d discarded lines", fired, discarded), c)
			case v.On && discarded == 0:
				res.Violate(key+"/not-discarded", fmt.Sprintf("discard_overflow is on and the first answer took 2.6 s, yet all %d requests were fired and none discarded", fired), c)
			case !v.On && discarded > 0:
				res.Violate(key+"/discarded", fmt.Sprintf("discard_overflow is off, yet %d of 30 tokens were written as discarded (net code 777)", discarded), c)
			}
			res.Count("process_runs", 1)
			res.Count("process_discarded_lines", int64(discarded))
			res.Eval(vkit.JSON(c), true)
		}(v)
	}
	wg.Wait()
}

// sharedFirstUse: a shared profile is started lazily by whichever instance asks for its first
// request, while the other instances ask at the same moment. Each round puts a fresh paced
// schedule in front of 16 goroutines released together; each takes one request through its own
// Waiter (as an instance does). Whatever the interleaving, the k-th request in schedule order is
// not due before the round's start + k·interval, and in a schedule that is much less than 2 s
// old nothing can be 2 s late, so nothing may be judged as overflow. The deciding readings are
// the schedule's own token times and the Waiter's verdict; the wall clock only marks the round
// start (taken before any goroutine is released) — a lower bound.
func sharedFirstUse(res *vkit.Result, rounds int) {
	kinds := []string{"const", "line", "step", "once"}
	for ki, kind := range kinds {
		c := map[string]any{"schedule": kind, "callers": 16, "rounds": rounds}
		badEarly, badOver := "", ""
		var mu sync.Mutex
		for r := 0; r < rounds && badEarly == "" && badOver == ""; r++ {
			var s core.Schedule
			gap := time.Duration(0)
			switch kind {
			case "const":
				s, gap = schedule.NewConst(100000, 10*time.Second), 10*time.Microsecond
			case "line":
				s = schedule.NewLine(100000, 200000, 10*time.Second)
			case "step":
				s = schedule.NewStep(100000, 300000, 100000, 5*time.Second)
				gap = 10 * time.Microsecond
			default:
				s = schedule.NewOnce(64)
			}
			toks := make([]time.Time, 16)
			over := make([]bool, 16)
			got := make([]bool, 16)
			begin := make(chan struct{})
			var wg sync.WaitGroup
			for g := 0; g < 16; g++ {
				wg.Add(1)
				go func(g int) {
					defer wg.Done()
					<-begin
					for i := 0; i < (g*7+r)%5; i++ {
					}
					if (r+ki)%2 == 0 {
						toks[g], got[g] = s.Next()
						return
					}
					w := coreutil.NewWaiter(s)
					ctx, cancel := context.WithTimeout(context.Background(), 5*time.Second)
					defer cancel()
					if w.Wait(ctx) {
						got[g] = true
						over[g] = w.IsSlowDown(ctx)
					}
				}(g)
			}
			t0 := time.Now()
			close(begin)
			wg.Wait()
			took := time.Since(t0)
			res.Count("shared_first_use_rounds", 1)
			if (r+ki)%2 == 0 {
				all := true
				for _, ok := range got {
					all = all && ok
				}
				if !all {
					badEarly = fmt.Sprintf("round %d: a schedule of thousands of requests refused one of its first 16", r)
					break
				}
				sorted := append([]time.Time(nil), toks...)
				sortTimes(sorted)
				for k, tx := range sorted {
					due := t0.Add(time.Duration(k) * gap)
					if tx.Before(due) {
						mu.Lock()
						badEarly = fmt.Sprintf("round %d: request #%d in schedule order is dated %s; the schedule was first used at %s or later, so it is due at %s or later", r, k, tx.Format("2006-01-02 15:04:05.000000"), t0.Format("15:04:05.000000"), due.Format("15:04:05.000000"))
						mu.Unlock()
						break
					}
				}
				res.Count("shared_first_use_tokens", 16)
				continue
			}
			if took > time.Second {
				res.Count("shared_first_use_slow_rounds", 1)
				continue
			}
			for g := range over {
				if got[g] && over[g] {
					badOver = fmt.Sprintf("round %d: caller %d's request was judged as overflow (2 s late) %v after the schedule was first used", r, g, took)
					break
				}
			}
			res.Count("shared_first_use_verdicts", 16)
		}
		if badEarly != "" {
			res.Violate("C04/shared-first-use/before-schedule", badEarly, c)
		}
		if badOver != "" {
			res.Violate("C04/shared-first-use/judged-overflow", badOver, c)
		}
		res.Eval(vkit.JSON(c), true)
	}
}

func sortTimes(ts []time.Time) {
	for i := 1; i < len(ts); i++ {
		for j := i; j > 0 && ts[j].Before(ts[j-1]); j-- {
			ts[j], ts[j-1] = ts[j-1], ts[j]
		}
	}
}

// unknownTotalEveryTokenFired: discard_overflow off and a shared profile whose total is unknown — a
// long row of small once parts followed by a short unlimited part — used by 16 instances with an
// instantaneous gun: the boundaries between the parts are crossed while other instances ask
// whether the profile is finished. Every request of the once parts must be fired (counted, not
// timed): fired ≥ what the known parts hold; nothing is discarded; the run ends by itself.
func unknownTotalEveryTokenFired(res *vkit.Result, rounds int) {
	c := map[string]any{"layer": "unknown-total profile", "instances": 16, "profile": "3000 × once(2), unlimited(1ms)", "discard_overflow": false, "rounds": rounds}
	bad := ""
	for r := 0; r < rounds && bad == ""; r++ {
		const parts = 3000
		var ps []core.Schedule
		for i := 0; i < parts; i++ {
			ps = append(ps, schedule.NewOnce(2))
		}
		ps = append(ps, schedule.NewUnlimited(time.Millisecond))
		shared := schedule.NewComposite(ps...)
		prov := &vkit.MockProvider{Items: -1, FailAfter: -1}
		aggr := &vkit.MockAggregator{}
		plan := vkit.NewGunPlan()
		eng := engine.New(vkit.NopLog(), vkit.NewMetrics(), engine.Config{Pools: []engine.InstancePoolConfig{{
			ID: "p", Provider: prov, Aggregator: aggr, NewGun: plan.NewGun,
			NewRPSSchedule: func() (core.Schedule, error) { return shared, nil }, StartupSchedule: schedule.NewOnce(16), DiscardOverflow: false,
		}}})
		done := make(chan error, 1)
		ctx, cancel := context.WithCancel(context.Background())
		go func() { done <- eng.Run(ctx) }()
		select {
		case err := <-done:
			if err != nil {
				bad = fmt.Sprintf("round %d: the run failed: %v", r, err)
			}
		case <-time.After(60 * time.Second):
			res.Inconclusive(false, "unknown-total round %d did not end within 60 s", r)
			cancel()
			return
		}
		cancel()
		eng.Wait()
		fired, discarded := plan.ShotCount(), 0
		for _, sm := range aggr.Snapshot() {
			if sm.Net == 777 {
				discarded++
			}
		}
		if bad == "" && fired < 2*parts {
			bad = fmt.Sprintf("round %d: the once parts hold %d requests, only %d were fired (discard_overflow is off, %d reported as discarded): %d requests were handed out by the profile and never fired", r, 2*parts, fired, discarded, 2*parts-int(fired))
		}
		if bad == "" && discarded > 0 {
			bad = fmt.Sprintf("round %d: %d requests reported as discarded although discard_overflow is off", r, discarded)
		}
		res.Count("unknown_total_rounds", 1)
		res.Count("unknown_total_requests_fired", fired)
	}
	if bad != "" {
		res.Violate("C04/discard-off/unknown-total/not-fired", bad, c)
	}
	res.Eval(vkit.JSON(c), true)
}

func main() {
	res := vkit.NewResult("mock pools in real time: 1–4 instances, const/line 5–50 rps for 1–6 s, scripted response-time histories (all fast; one 2.1–3.6 s stall; a stall followed by tokens lying in the future; sustained slow target; slower than the interval but inside the 2 s window; profile started 1.5–3.5 s in the past), discard_overflow on/off; distinct = distinct case descriptions; non-trivial = the case produced late-but-fired or discarded tokens")
	rng := vkit.Rand("c04")
	cases := base()
	n := vkit.N(12, 400)
	for i := 0; i < n; i++ {
		cases = append(cases, gen(rng))
	}
	conc := vkit.N(24, 48)
	sem := make(chan struct{}, conc)
	var wg sync.WaitGroup
	for _, c := range cases {
		wg.Add(1)
		sem <- struct{}{}
		go func(c Case) {
			defer wg.Done()
			defer func() { <-sem }()
			runCase(res, c)
		}(c)
	}
	wg.Wait()
	sharedFirstUse(res, vkit.N(3000, 20000))
	unknownTotalEveryTokenFired(res, vkit.N(25, 300))
	if bin := os.Getenv("VERIF_PANDORA_BIN"); bin == "" {
		res.Inconclusive(true, "no pandora binary (VERIF_PANDORA_BIN)")
	} else {
		processDiscardSetting(res, bin)
	}
	if res.Counter("fired_late_lt_2s") == 0 || res.Counter("discarded") == 0 {
		res.Inconclusive(true, "the run did not observe both late-but-fired and discarded tokens")
	}
	res.Write()
}
