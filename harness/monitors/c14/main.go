// C14 — preload is behaviour-preserving; chosencases selects exactly the listed tags.
//
// Differential: the same generated file and the same (limit, passes, chosencases) are given to
// two providers, preload off and on; the delivered sequences must be equal element-wise and
// the endings must be in the same class. Model: delivered = cyclic filter of the entries whose
// tag is listed, limit counts delivered entries, passes counts file passes.
package main

import (
	"context"
	"errors"
	"fmt"
	"math/rand"
	"strings"
	"time"

	"github.com/yandex/pandora/core"

	"verif/harness/vkit"
)

type Case struct {
	File   vkit.AmmoFile `json:"file"`
	Limit  int           `json:"limit"`
	Passes int           `json:"passes"`
	Chosen []string      `json:"chosencases,omitempty"`
	// EmptyChosen: the option is written, but as an empty list (chosencases: []) — no filter
	EmptyChosen bool `json:"chosencases_empty_list,omitempty"`
	// CloseFails: the ammo file reads fine, but closing it reports an error (harness filesystem)
	CloseFails bool `json:"closing_the_ammo_file_fails,omitempty"`
	// LongLine: one entry's URI is 70 KB long and maxammosize is raised to 200000 in the provider
	// config — whatever a format makes of such a line, it makes the same of it in both modes
	LongLine bool   `json:"one_uri_of_70kb_with_maxammosize,omitempty"`
	Text     string `json:"text,omitempty"`
}

var typeName = map[string]string{"uri": "uri", "uripost": "uripost", "raw": "raw", "jsonline": "http/json"}
var tagSet = []string{"a", "b", "c", "two words", ""}

type outcome struct {
	items []vkit.Got
	class string // nil | error:<msg> | cancelled | hang | rejected:<msg>
}

func run(c Case, path string, preload bool, max int) outcome {
	conf := map[string]any{"type": typeName[c.File.Format], "file": path, "limit": c.Limit, "passes": c.Passes}
	if preload {
		conf["preload"] = true
	}
	if c.LongLine {
		conf["maxammosize"] = 200000
	}
	if len(c.Chosen) > 0 {
		var cc []any
		for _, s := range c.Chosen {
			cc = append(cc, s)
		}
		conf["chosencases"] = cc
	} else if c.EmptyChosen {
		conf["chosencases"] = []any{}
	}
	p, err := vkit.NewProvider(conf)
	if err != nil {
		return outcome{class: "rejected:" + err.Error()}
	}
	dr := vkit.Drain(p, 1, max, 5*time.Second)
	var o outcome
	for _, a := range dr.Items {
		g, err := vkit.OpenHTTPAmmo(a)
		if err != nil {
			o.class = "unreadable:" + err.Error()
			return o
		}
		o.items = append(o.items, g)
	}
	switch {
	case dr.Hang != "":
		o.class = "hang"
	case dr.Cancelled:
		o.class = "cancelled"
		if dr.RunErr != nil && !errors.Is(dr.RunErr, context.Canceled) {
			o.class = "error:" + dr.RunErr.Error()
		}
	case dr.RunErr != nil:
		o.class = "error:" + dr.RunErr.Error()
	default:
		o.class = "nil"
	}
	return o
}

func short(s string) string {
	if len(s) > 160 {
		return s[:160] + "…"
	}
	return s
}

func endClass(s string) string {
	if len(s) > 6 && s[:6] == "error:" {
		return "error"
	}
	return s
}

func runCase(res *vkit.Result, c Case) {
	data := c.File.Render()
	c.Text = string(data)
	if len(c.Text) > 2000 {
		c.Text = c.Text[:2000]
	}
	pass := c.File.ExpectedPass(nil)
	// model
	var match []vkit.Expect
	for _, x := range pass {
		if len(c.Chosen) == 0 {
			match = append(match, x)
			continue
		}
		for _, t := range c.Chosen {
			if t == x.Tag {
				match = append(match, x)
				break
			}
		}
	}
	want := -1 // unbounded
	if c.Limit > 0 {
		want = c.Limit
	}
	if c.Passes > 0 && (want < 0 || c.Passes*len(match) < want) {
		want = c.Passes * len(match)
	}
	if len(match) == 0 {
		want = 0
	}
	max := want + len(pass) + 3
	if want < 0 {
		max = 2*len(match) + 3
	}
	sel := "all"
	if c.EmptyChosen && len(c.Chosen) == 0 {
		sel = "chosencases-empty-list"
	}
	if len(c.Chosen) > 0 {
		sel = "chosencases"
		if len(match) == 0 {
			sel = "chosencases-matches-nothing"
		}
	}
	key := func(side, check string) string {
		return fmt.Sprintf("C14/%s/%s/limit%s,passes%s/%s", side, sel, cls(c.Limit), cls(c.Passes), check)
	}
	p1 := vkit.WriteMem(data)
	p2 := vkit.WriteMem(data)
	if c.CloseFails {
		// the same bytes under a path whose files report an error when they are closed
		vkit.RemoveMem(p1)
		vkit.RemoveMem(p2)
		p1, p2 = "/failclose"+p1, "/failclose"+p2
		_ = vkit.WriteMemAt(p1, data)
		_ = vkit.WriteMemAt(p2, data)
		res.Count("pairs_with_failing_close", 1)
	}
	defer vkit.RemoveMem(p1)
	defer vkit.RemoveMem(p2)
	off := run(c, p1, false, max)
	on := run(c, p2, true, max)
	// differential
	if len(off.items) != len(on.items) {
		res.Violate(key("diff", "count"), fmt.Sprintf("preload off delivered %d ammo (end %s), preload on delivered %d (end %s)", len(off.items), short(off.class), len(on.items), short(on.class)), c)
	} else {
		for i := range off.items {
			if d := vkit.DiffExpect(on.items[i], off.items[i].Expect); d != "" {
				res.Violate(key("diff", "sequence"), fmt.Sprintf("ammo %d differs between preload on and off: %s", i, d), c)
				break
			}
		}
	}
	if endClass(off.class) != endClass(on.class) {
		res.Violate(key("diff", "ending"), fmt.Sprintf("the run ends differently: preload off → %s, preload on → %s", short(off.class), short(on.class)), c)
	}
	// model, for both sides
	for _, side := range []struct {
		name string
		o    outcome
	}{{"stream", off}, {"preload", on}} {
		n := len(side.o.items)
		if c.LongLine {
			// whether a format takes a line of 70 KB at all is not this property's business (the
			// line decoders refuse it): only the comparison of the two modes above is
			break
		}
		if want >= 0 && n != want {
			res.Violate(key(side.name, "count"), fmt.Sprintf("%d ammo delivered, model says %d (entries per pass %d of which %d match, limit %d counts delivered entries, passes %d); end %s", n, want, len(pass), len(match), c.Limit, c.Passes, short(side.o.class)), c)
			continue
		}
		for i, g := range side.o.items {
			if len(match) == 0 {
				break
			}
			if d := vkit.DiffExpect(g, match[i%len(match)]); d != "" {
				res.Violate(key(side.name, "selection"), fmt.Sprintf("ammo %d is not the %d-th listed entry: %s", i, i%len(match), d), c)
				break
			}
		}
		if side.o.class == "hang" {
			res.Violate(key(side.name, "hang"), "provider neither delivers nor ends (consumers blocked) — watchdog 5s", c)
		}
	}
	res.Count("pairs_"+sel, 1)
	res.Count("ammo_compared", int64(len(off.items)))
	res.Eval(c.Text+fmt.Sprint(c.Limit, c.Passes, c.Chosen, c.EmptyChosen, c.CloseFails, c.LongLine), len(pass) >= 2)
	if c.File.Layout.Seed%300 == 0 {
		res.Sample(map[string]any{"format": c.File.Format, "limit": c.Limit, "passes": c.Passes, "chosencases": c.Chosen, "file_text": c.Text,
			"delivered_stream": len(off.items), "delivered_preload": len(on.items), "end_stream": off.class, "end_preload": on.class})
	}
}

// cancelledEnding: "the run ends the same way" also when it is stopped before the provider has
// delivered anything: the context is cancelled before Run begins, with and without preloading
// (and with chosencases naming a tag that only appears late in the file).
func cancelledEnding(res *vkit.Result, c Case) {
	data := c.File.Render()
	end := func(preload bool) string {
		path := vkit.WriteMem(data)
		defer vkit.RemoveMem(path)
		conf := map[string]any{"type": typeName[c.File.Format], "file": path, "limit": c.Limit, "passes": c.Passes}
		if preload {
			conf["preload"] = true
		}
		if len(c.Chosen) > 0 {
			var cc []any
			for _, s := range c.Chosen {
				cc = append(cc, s)
			}
			conf["chosencases"] = cc
		} else if c.EmptyChosen {
			conf["chosencases"] = []any{}
		}
		p, err := vkit.NewProvider(conf)
		if err != nil {
			return "rejected:" + err.Error()
		}
		ctx, cancel := context.WithCancel(context.Background())
		cancel()
		go func() {
			for {
				a, ok := p.Acquire()
				if !ok {
					return
				}
				p.Release(a)
			}
		}()
		done := make(chan error, 1)
		go func() { done <- p.Run(ctx, core.ProviderDeps{Log: vkit.NopLog(), PoolID: "verif"}) }()
		select {
		case err := <-done:
			switch {
			case err == nil:
				return "nil"
			case errors.Is(err, context.Canceled):
				return "cancelled"
			}
			return "error:" + err.Error()
		case <-time.After(10 * time.Second):
			return "hang"
		}
	}
	off, on := end(false), end(true)
	if endClass(off) != endClass(on) || off == "hang" {
		c.Text = short(string(data))
		res.Violate("C14/diff/cancelled-before-run/ending", fmt.Sprintf("cancelled before Run began, the run ends differently: preload off → %s, preload on → %s", short(off), short(on)), c)
	}
	res.Count("cancelled_endings_compared", 1)
}

func cls(n int) string {
	if n == 0 {
		return "=0"
	}
	return ">0"
}

func gen(rng *rand.Rand) Case {
	formats := []string{"uri", "uripost", "raw", "jsonline"}
	f := vkit.GenAmmoFile(rng, formats[rng.Intn(4)], 6, 1)
	for _, it := range f.Items {
		if it.Entry != nil {
			it.Entry.Tag = tagSet[rng.Intn(len(tagSet))]
		}
	}
	c := Case{File: f, Limit: []int{0, 0, 1, 2, 3, 5, 9}[rng.Intn(7)], Passes: []int{0, 1, 1, 2, 3}[rng.Intn(5)]}
	c.CloseFails = rng.Intn(12) == 0
	if rng.Intn(25) == 0 {
		for _, it := range f.Items {
			if it.Entry != nil {
				it.Entry.URI += "&long=" + strings.Repeat("0123456789", 7000)
				c.LongLine = true
				break
			}
		}
	}
	switch rng.Intn(4) {
	case 0:
		c.EmptyChosen = rng.Intn(2) == 0
	case 1:
		c.Chosen = []string{"zzz-not-there"}
	default:
		// the empty tag may be listed too: it selects the entries that have no tag
		for _, t := range tagSet {
			if (t != "" && rng.Intn(2) == 0) || (t == "" && rng.Intn(3) == 0) {
				c.Chosen = append(c.Chosen, t)
			}
		}
	}
	return c
}

func seeds() []Case {
	mk := func(tags []string) vkit.AmmoFile {
		f := vkit.AmmoFile{Format: "uri", Layout: vkit.Layout{FinalNewline: true, Seed: 7}}
		for i, t := range tags {
			e := vkit.Entry{Method: "GET", URI: fmt.Sprintf("/e%d?vid=%d", i, i), Tag: t}
			f.Items = append(f.Items, vkit.Item{Entry: &e})
		}
		return f
	}
	return []Case{
		{File: mk([]string{"a", "b", "a", "b"}), Limit: 2, Passes: 0, Chosen: []string{"b"}},
		{File: mk([]string{"a", "b", "a", "b"}), Limit: 3, Passes: 2, Chosen: []string{"b"}},
		{File: mk([]string{"a", "b"}), Limit: 0, Passes: 1, Chosen: []string{"zzz"}},
		{File: mk([]string{"a", "b"}), Limit: 0, Passes: 0, Chosen: []string{"zzz"}},
		{File: mk([]string{"a", "b"}), Limit: 1, Passes: 0, Chosen: []string{"zzz"}},
		{File: mk([]string{"a", "b", "c"}), Limit: 2, Passes: 1},
		{File: mk([]string{"a"}), Limit: 0, Passes: 2},
		{File: mk([]string{"", "b", "", "a"}), Limit: 5, Passes: 0, Chosen: []string{"", "b"}},
		{File: mk([]string{"a", "", ""}), Limit: 0, Passes: 2, Chosen: []string{""}},
		{File: mk([]string{"a", "b", "c", "d"}), Limit: 0, Passes: 1, CloseFails: true},
		{File: mk([]string{"a", "b", "a"}), Limit: 3, Passes: 0, Chosen: []string{"a"}, CloseFails: true},
		{File: mk([]string{"a", "b", "c", "a", "b"}), Limit: 3, Passes: 2, EmptyChosen: true},
		{File: mk([]string{"a", "b", "c"}), Limit: 4, Passes: 0, EmptyChosen: true},
	}
}

func main() {
	vkit.Fs()
	res := vkit.NewResult("generated ammo files (all four HTTP formats, 1–6 entries, tags from a 5-element set incl. the empty tag) × limit {0,1,2,3,5,9} × passes {0,1,2,3} × chosencases {none, random subsets of the tag set, a subset matching nothing}; each case run with preload off and on; distinct = distinct (file text, limit, passes, chosencases); non-trivial = ≥ 2 entries")
	rng := vkit.Rand("c14")
	cases := seeds()
	for i := 0; i < vkit.N(4000, 40000); i++ {
		cases = append(cases, gen(rng))
	}
	hangs := 0
	for i, c := range cases {
		before := res.Counter("hangs")
		if i%20 == 0 {
			cancelledEnding(res, c)
		}
		runCase(res, c)
		_ = before
		if hangs > 5 {
			break
		}
	}
	if res.Counter("pairs_chosencases") < 50 || res.Counter("pairs_chosencases-matches-nothing") < 20 {
		res.Inconclusive(true, "too few chosencases pairs")
	}
	res.Write()
}
