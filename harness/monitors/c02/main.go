// C02 — Schedule token contract: exactly-once tokens, order, Left, composites.
//
// Histories of concurrent Next/Left calls on random schedule trees are recorded at the
// Schedule interface (call/return sequence numbers from one atomic clock) and judged offline:
// multiset of tokens = sequential reference, per-caller monotonic times, stable finish time,
// interval-exactness of every non-negative Left, porcupine linearizability of the counter
// projection, one-sided unknown-ness rules, finish callback exactly once.
// Two execution modes: free-running stress (yield hook = seeded Gosched/sleep) and controlled
// (yield hook parks the goroutine; a controller enumerates interleavings deterministically).
package main

import (
	"encoding/json"
	"fmt"
	"math/rand"
	"os"
	"runtime"
	"sort"
	"strconv"
	"sync"
	"sync/atomic"
	"time"

	"github.com/anishathalye/porcupine"
	"github.com/yandex/pandora/core"
	"github.com/yandex/pandora/core/coreutil"
	"github.com/yandex/pandora/core/schedule"

	"verif/harness/vkit"
)

type Case struct {
	Tree       vkit.SchedSpec `json:"tree"`
	Mode       string         `json:"mode"` // none | past | live
	Callers    int            `json:"callers"`
	Explicit   bool           `json:"explicit_start"`
	Callback   bool           `json:"callback"`
	LeftPct    int            `json:"left_pct"`
	Seed       int64          `json:"seed"`
	Controlled bool           `json:"controlled"`
	Scripts    [][]byte       `json:"scripts,omitempty"` // controlled: per caller ops 'N'/'L'
	Choices    []int          `json:"choices,omitempty"` // controlled: interleaving that failed
	Procs      int            `json:"gomaxprocs,omitempty"`
}

const liveMs = 3600_000

// ---------- reference ----------

type prim struct {
	kind string // once const line unlimited
	a, b float64
	n    int64
	d    time.Duration
}

func flatten(s vkit.SchedSpec) []prim {
	d := time.Duration(s.DurMs) * time.Millisecond
	switch s.Kind {
	case "once":
		return []prim{{kind: "once", n: s.N}}
	case "const":
		return []prim{{kind: "const", a: s.A, d: d}}
	case "line":
		return []prim{{kind: "line", a: s.A, b: s.B, d: d}}
	case "unlimited":
		return []prim{{kind: "unlimited", d: d}}
	case "step":
		if s.A == s.B {
			return []prim{{kind: "const", a: s.A, d: d}}
		}
		var out []prim
		for r := s.A; r <= s.B; r += float64(s.N) {
			out = append(out, prim{kind: "const", a: r, d: d})
		}
		return out
	case "instance_step":
		from, to, step := int64(s.A), int64(s.B), s.N
		out := []prim{{kind: "once", n: from}}
		for i := from + step; i <= to; i += step {
			out = append(out, prim{kind: "const", a: 0, d: d}, prim{kind: "once", n: step})
		}
		return out
	case "composite":
		var out []prim
		for _, p := range s.Parts {
			out = append(out, flatten(p)...)
		}
		return out
	}
	panic("kind")
}

type ref struct {
	tokens      []int64 // offsets from t0 (ns), non-decreasing
	finish      int64   // offset of the finish time; −1 in live mode
	liveStart   int64   // offset at which the live unlimited part starts (−1: none)
	beyondIdx   int     // number of doAt tokens in parts up to and including the last unlimited part
	beyondStart int64   // start offset of the part following the last unlimited part
	hasUnlim    bool
	partStarts  []int64
}

func reference(tree vkit.SchedSpec, live bool) ref {
	r := ref{liveStart: -1}
	t0 := time.Unix(1_600_000_000, 0)
	cur := t0
	for _, p := range flatten(tree) {
		r.partStarts = append(r.partStarts, cur.Sub(t0).Nanoseconds())
		switch p.kind {
		case "once":
			for i := int64(0); i < p.n; i++ {
				r.tokens = append(r.tokens, cur.Sub(t0).Nanoseconds())
			}
		case "const", "line":
			var s core.Schedule
			if p.kind == "const" {
				s = schedule.NewConst(p.a, p.d)
			} else {
				s = schedule.NewLine(p.a, p.b, p.d)
			}
			s.Start(cur)
			for {
				t, ok := s.Next()
				if !ok {
					cur = t
					break
				}
				r.tokens = append(r.tokens, t.Sub(t0).Nanoseconds())
			}
		case "unlimited":
			r.hasUnlim = true
			if live && p.d == liveMs*time.Millisecond {
				r.liveStart = cur.Sub(t0).Nanoseconds()
				r.finish = -1
				r.beyondIdx = len(r.tokens)
				return r
			}
			cur = cur.Add(p.d)
			r.beyondIdx = len(r.tokens)
			r.beyondStart = cur.Sub(t0).Nanoseconds()
		}
	}
	r.finish = cur.Sub(t0).Nanoseconds()
	return r
}

// ---------- history ----------

type Op struct {
	Caller int   `json:"c"`
	Kind   byte  `json:"k"` // 'N' 'L'
	Call   int64 `json:"call"`
	Ret    int64 `json:"ret"`
	T      int64 `json:"t,omitempty"` // Next: returned time − t0 (ns)
	OK     bool  `json:"ok,omitempty"`
	Left   int   `json:"left,omitempty"`
}

type recorder struct {
	clock atomic.Int64
	mu    sync.Mutex
	ops   []Op
	cbSeq atomic.Int64 // sequence numbers of callback invocations
	cbN   atomic.Int64
}

func (h *recorder) add(o Op) {
	h.mu.Lock()
	h.ops = append(h.ops, o)
	h.mu.Unlock()
}

// ---------- execution: stress ----------

var hookMode atomic.Int32 // 0 off, 1 stress, 2 controlled
var stressCtr atomic.Uint64
var hookHits sync.Map // point -> *atomic.Int64
var activeCtl atomic.Pointer[controller]

func hit(point string) {
	v, ok := hookHits.Load(point)
	if !ok {
		v, _ = hookHits.LoadOrStore(point, new(atomic.Int64))
	}
	v.(*atomic.Int64).Add(1)
}

func yieldHook(point string) {
	hit(point)
	switch hookMode.Load() {
	case 1:
		x := stressCtr.Add(0x9E3779B97F4A7C15)
		x ^= x >> 31
		switch x % 8 {
		case 0, 1, 2:
			runtime.Gosched()
		case 3:
			time.Sleep(time.Microsecond * time.Duration(1+x%20))
		}
	case 2:
		if c := activeCtl.Load(); c != nil {
			c.park(point)
		}
	}
}

func buildSched(c Case, h *recorder) (core.Schedule, time.Time, ref) {
	live := c.Mode == "live"
	r := reference(c.Tree, live)
	s := c.Tree.Build()
	var t0 time.Time
	switch c.Mode {
	case "live":
		// every part before the live unlimited part lies in the past, so that its tokens
		// (time.Now()) can only be later than everything before it
		t0 = time.Now().Add(-time.Duration(r.liveStart) - time.Second)
	default:
		t0 = time.Now().Add(-10 * time.Hour)
	}
	if c.Callback {
		s = coreutil.NewCallbackOnFinishSchedule(s, func() {
			h.cbSeq.Store(h.clock.Add(1))
			h.cbN.Add(1)
		})
	}
	return s, t0, r
}

func doOp(s core.Schedule, h *recorder, caller int, kind byte, t0 time.Time) Op {
	o := Op{Caller: caller, Kind: kind}
	o.Call = h.clock.Add(1)
	if kind == 'N' {
		t, ok := s.Next()
		o.Ret = h.clock.Add(1)
		o.T, o.OK = t.Sub(t0).Nanoseconds(), ok
	} else {
		l := s.Left()
		o.Ret = h.clock.Add(1)
		o.Left = l
	}
	h.add(o)
	return o
}

func runStress(c Case) (*recorder, time.Time, ref, bool) {
	h := &recorder{}
	s, t0, r := buildSched(c, h)
	implicitT0 := false
	if c.Explicit || c.Mode != "none" {
		s.Start(t0)
	} else {
		implicitT0 = true
	}
	hookMode.Store(1)
	defer hookMode.Store(0)
	var wg sync.WaitGroup
	startGate := make(chan struct{})
	for i := 0; i < c.Callers; i++ {
		wg.Add(1)
		go func(id int) {
			defer wg.Done()
			rng := rand.New(rand.NewSource(c.Seed + int64(id)*7919))
			<-startGate
			after, liveSeen := 0, 0
			maxOps := 3*len(r.tokens) + 60
			for n := 0; n < maxOps; n++ {
				kind := byte('N')
				if rng.Intn(100) < c.LeftPct {
					kind = 'L'
				}
				o := doOp(s, h, id, kind, t0)
				if kind == 'N' && !o.OK {
					after++
					if after >= 3 {
						return
					}
				}
				if kind == 'N' && o.OK && r.liveStart >= 0 && o.T >= r.liveStart && n >= len(r.tokens)/c.Callers {
					liveSeen++
					if liveSeen >= 3 && allDrawn(h, len(r.tokens)) {
						return
					}
				}
				if rng.Intn(4) == 0 {
					runtime.Gosched()
				}
			}
		}(i)
	}
	close(startGate)
	wg.Wait()
	return h, t0, r, implicitT0
}

func allDrawn(h *recorder, n int) bool {
	h.mu.Lock()
	defer h.mu.Unlock()
	k := 0
	for _, o := range h.ops {
		if o.Kind == 'N' && o.OK {
			k++
		}
	}
	return k >= n+1
}

// ---------- execution: controlled ----------

type ctlEvent struct {
	caller int
	done   bool
	point  string
}

type controller struct {
	events chan ctlEvent
	resume []chan struct{}
	cur    atomic.Int32
}

func (c *controller) park(point string) {
	id := int(c.cur.Load())
	c.events <- ctlEvent{caller: id, point: point}
	<-c.resume[id]
}

// runControlled executes the scripts under the interleaving given by choices (extended with
// zeros); returns the history, the alternatives count at every decision and the choices used.
func runControlled(c Case, choices []int) (h *recorder, t0 time.Time, r ref, alts []int, used []int, deadlock bool) {
	h = &recorder{}
	s, t0, r := buildSched(c, h)
	s.Start(t0)
	n := len(c.Scripts)
	ctl := &controller{events: make(chan ctlEvent), resume: make([]chan struct{}, n)}
	for i := range ctl.resume {
		ctl.resume[i] = make(chan struct{})
	}
	activeCtl.Store(ctl)
	hookMode.Store(2)
	defer func() { hookMode.Store(0); activeCtl.Store(nil) }()
	doneFlags := make([]bool, n)
	for i := 0; i < n; i++ {
		go func(id int) {
			<-ctl.resume[id] // wait for the first turn
			for _, k := range c.Scripts[id] {
				doOp(s, h, id, k, t0)
				// op boundary is a scheduling point too
				ctl.events <- ctlEvent{caller: id, point: "op-end"}
				<-ctl.resume[id]
			}
			ctl.events <- ctlEvent{caller: id, done: true}
		}(i)
	}
	step := 0
	for {
		var runnable []int
		for i := 0; i < n; i++ {
			if !doneFlags[i] {
				runnable = append(runnable, i)
			}
		}
		if len(runnable) == 0 {
			break
		}
		ch := 0
		if step < len(choices) {
			ch = choices[step] % len(runnable)
		}
		alts = append(alts, len(runnable))
		used = append(used, ch)
		step++
		id := runnable[ch]
		ctl.cur.Store(int32(id))
		ctl.resume[id] <- struct{}{}
		select {
		case ev := <-ctl.events:
			if ev.done {
				doneFlags[id] = true
			}
		case <-time.After(10 * time.Second):
			deadlock = true
			return
		}
		if step > 5000 {
			deadlock = true
			return
		}
	}
	return
}

// ---------- oracle ----------

type verdict struct {
	key, what string
}

func judge(c Case, h *recorder, r ref, implicitT0 bool, res *vkit.Result) []verdict {
	var out []verdict
	bad := func(key, f string, a ...any) { out = append(out, verdict{key, fmt.Sprintf(f, a...)}) }
	ops := append([]Op(nil), h.ops...)
	sort.Slice(ops, func(i, j int) bool { return ops[i].Call < ops[j].Call })
	live := r.liveStart >= 0
	total := len(r.tokens)
	shift := int64(0)
	if implicitT0 {
		// t0 is the instant of the first Next inside the implementation: derive it from the
		// smallest observed time and the smallest reference offset
		minObs, minRef := int64(1<<62), r.finish
		if total > 0 && r.tokens[0] < minRef {
			minRef = r.tokens[0]
		}
		for _, o := range ops {
			if o.Kind == 'N' && o.T < minObs {
				minObs = o.T
			}
		}
		if minObs != 1<<62 {
			shift = minObs - minRef
		}
	}
	// (a) exactly once
	var got []int64
	var liveTok int
	for _, o := range ops {
		if o.Kind == 'N' && o.OK {
			if live && len(got) >= 0 && o.T-shift >= r.liveStart && !containsFrom(r.tokens, o.T-shift) {
				liveTok++
				if o.T-shift > r.liveStart+int64(liveMs)*1e6 {
					bad("unlimited-window", "token at +%v outside the unlimited part's window", time.Duration(o.T))
				}
				continue
			}
			got = append(got, o.T-shift)
		}
	}
	sort.Slice(got, func(i, j int) bool { return got[i] < got[j] })
	// Tokens are handed out in order, so with every call completed the tokens handed out are
	// the first len(got) of the reference; all of them once somebody saw the finish (or, in
	// stress mode, because every caller draws until it sees the finish / the live part).
	sawFinish := false
	for _, o := range ops {
		if o.Kind == 'N' && !o.OK {
			sawFinish = true
		}
	}
	mustDrain := sawFinish || !c.Controlled
	switch {
	case len(got) > total:
		bad("token-count", "%d tokens handed out, sequential reference has only %d (duplicated tokens)", len(got), total)
	case mustDrain && len(got) != total:
		bad("token-count", "%d tokens handed out before the finish was reported, sequential reference has %d (lost tokens)", len(got), total)
	default:
		for i := range got {
			if got[i] != r.tokens[i] {
				bad("token-times", "token #%d (sorted) at +%v, sequential reference +%v — a part did not start at its predecessor's finish or a token was lost/duplicated", i, time.Duration(got[i]), time.Duration(r.tokens[i]))
				break
			}
		}
	}
	// (b) per caller monotonic, (c) finish time stable
	last := map[int]int64{}
	for _, o := range ops {
		if o.Kind != 'N' {
			continue
		}
		if p, ok := last[o.Caller]; ok && o.T < p {
			bad("time-decreased", "caller %d got +%v after +%v", o.Caller, time.Duration(o.T), time.Duration(p))
		}
		last[o.Caller] = o.T
		if !o.OK {
			if live {
				bad("finished-while-unlimited", "Next returned !ok although the unlimited part cannot have finished")
			} else if o.T-shift != r.finish {
				bad("finish-time", "exhausted schedule returned finish +%v, reference finish is +%v", time.Duration(o.T-shift), time.Duration(r.finish))
			}
		}
	}
	// (d) Left exactness by intervals; (e) unknown-ness
	var nexts []Op
	for _, o := range ops {
		if o.Kind == 'N' && o.OK {
			nexts = append(nexts, o)
		}
	}
	for _, o := range ops {
		if o.Kind != 'L' {
			continue
		}
		if o.Left >= 0 {
			if live {
				bad("left-known-while-unlimited", "Left() = %d although an unlimited part that has not finished is at or ahead of the current position", o.Left)
				continue
			}
			a, b := 0, 0 // a: surely drawn before the call; b: possibly drawn before the return
			for _, n := range nexts {
				if n.Ret < o.Call {
					a++
				}
				if n.Call < o.Ret {
					b++
				}
			}
			if o.Left < total-b || o.Left > total-a {
				bad("left-inexact", "Left() = %d but between %d and %d tokens remained during the call (total %d)", o.Left, total-b, total-a, total)
			}
		} else {
			if !r.hasUnlim {
				bad("left-negative", "Left() = %d on a schedule without any unknown-length part", o.Left)
				continue
			}
			if live {
				continue
			}
			// known-ness witnessed by an operation that completed before this call started?
			for _, w := range ops {
				if w.Ret >= o.Call {
					continue
				}
				wit := ""
				switch {
				case w.Kind == 'L' && w.Left >= 0:
					wit = fmt.Sprintf("an earlier Left() = %d", w.Left)
				case w.Kind == 'N' && !w.OK:
					wit = "an earlier Next() = !ok"
				case w.Kind == 'N' && w.OK && w.T-shift >= r.beyondStart && countLess(r.tokens, r.beyondStart) == r.beyondIdx && indexOfFrom(r.tokens, w.T-shift) >= r.beyondIdx:
					wit = "an earlier token from beyond the last unlimited part"
				}
				if wit != "" {
					bad("left-negative-after-known", "Left() = %d although %s had already shown that no unknown part remains", o.Left, wit)
					break
				}
			}
		}
	}
	// (f) callback
	if c.Callback {
		var firstObs int64 = -1
		for _, o := range ops {
			if (o.Kind == 'N' && !o.OK) || (o.Kind == 'L' && o.Left == 0) {
				if firstObs < 0 || o.Ret < firstObs {
					firstObs = o.Ret
				}
			}
		}
		n := h.cbN.Load()
		switch {
		case n > 1:
			bad("callback-repeated", "finish callback fired %d times", n)
		case firstObs >= 0 && n == 0:
			bad("callback-missing", "a caller observed the finish but the callback did not fire")
		case firstObs < 0 && n == 1:
			bad("callback-spurious", "finish callback fired although nobody observed !ok or Left()==0")
		case firstObs >= 0 && h.cbSeq.Load() > firstObs:
			bad("callback-late", "finish callback fired after the first caller had already returned with the finish")
		}
	}
	// porcupine: counter projection
	if !live && len(ops) <= 600 && len(out) == 0 {
		var pops []porcupine.Operation
		for _, o := range ops {
			if o.Kind == 'L' && o.Left < 0 {
				continue
			}
			pops = append(pops, porcupine.Operation{ClientId: o.Caller, Input: o.Kind, Output: o, Call: o.Call, Return: o.Ret})
		}
		model := porcupine.Model{
			Init: func() any { return total },
			Step: func(st, in, outp any) (bool, any) {
				R := st.(int)
				o := outp.(Op)
				if o.Kind == 'N' {
					if o.OK {
						return R > 0, R - 1
					}
					return R == 0, R
				}
				return o.Left == R, R
			},
			Equal: func(a, b any) bool { return a.(int) == b.(int) },
		}
		switch porcupine.CheckOperationsTimeout(model, pops, 20*time.Second) {
		case porcupine.Ok:
			res.Count("porcupine_ok", 1)
		case porcupine.Illegal:
			res.Count("porcupine_illegal", 1)
			bad("not-linearizable", "no point inside each call's interval makes every Next/Left answer exact (porcupine: illegal)")
		default:
			res.Count("porcupine_unknown", 1)
			res.Inconclusive(false, "porcupine timed out on a history of %d ops", len(pops))
		}
	}
	res.Count("ops", int64(len(ops)))
	res.Count("live_unlimited_tokens", int64(liveTok))
	return out
}

func containsFrom(tokens []int64, t int64) bool {
	i := sort.Search(len(tokens), func(i int) bool { return tokens[i] >= t })
	return i < len(tokens) && tokens[i] == t
}
func countLess(tokens []int64, t int64) int {
	return sort.Search(len(tokens), func(i int) bool { return tokens[i] >= t })
}
func indexOfFrom(tokens []int64, t int64) int {
	return sort.Search(len(tokens), func(i int) bool { return tokens[i] >= t })
}

// ---------- generation ----------

func genLeaf(rng *rand.Rand, mode string) vkit.SchedSpec {
	k := rng.Intn(12)
	switch {
	case k < 3:
		return vkit.SchedSpec{Kind: "once", N: int64(rng.Intn(6))}
	case k < 5:
		return vkit.SchedSpec{Kind: "const", A: float64(rng.Intn(400)), DurMs: 1 + rng.Intn(120)}
	case k < 6:
		return vkit.SchedSpec{Kind: "line", A: float64(rng.Intn(300)), B: float64(rng.Intn(300)), DurMs: 1 + rng.Intn(120)}
	case k < 7:
		a := float64(rng.Intn(100))
		return vkit.SchedSpec{Kind: "step", A: a, B: a + float64(rng.Intn(200)), N: int64(20 + rng.Intn(100)), DurMs: 1 + rng.Intn(50)}
	case k < 8:
		from := rng.Intn(3)
		step := 1 + rng.Intn(3)
		return vkit.SchedSpec{Kind: "instance_step", A: float64(from), B: float64(from + rng.Intn(8)), N: int64(step), DurMs: 1 + rng.Intn(40)}
	case k < 9:
		return vkit.SchedSpec{Kind: "const", A: 0, DurMs: 1 + rng.Intn(50)} // zero-token part
	case k < 10:
		return vkit.SchedSpec{Kind: "once", N: 0}
	default:
		if mode == "none" {
			return vkit.SchedSpec{Kind: "once", N: int64(1 + rng.Intn(3))}
		}
		return vkit.SchedSpec{Kind: "unlimited", DurMs: 1 + rng.Intn(500)}
	}
}

func genTree(rng *rand.Rand, depth int, mode string) vkit.SchedSpec {
	if depth >= 2 || (depth > 0 && rng.Intn(3) != 0) {
		return genLeaf(rng, mode)
	}
	n := rng.Intn(5)
	if depth == 0 && n < 2 {
		n = 2 + rng.Intn(3)
	}
	s := vkit.SchedSpec{Kind: "composite"}
	for i := 0; i < n; i++ {
		s.Parts = append(s.Parts, genTree(rng, depth+1, mode))
	}
	return s
}

func genCase(rng *rand.Rand) Case {
	mode := []string{"none", "none", "past", "past", "live"}[rng.Intn(5)]
	c := Case{Mode: mode, Callers: []int{1, 2, 2, 3, 4, 8, 16}[rng.Intn(7)], Explicit: rng.Intn(3) != 0, Callback: rng.Intn(2) == 0,
		LeftPct: []int{0, 10, 30, 60}[rng.Intn(4)], Seed: rng.Int63()}
	for {
		c.Tree = genTree(rng, 0, mode)
		if mode == "live" {
			// put one live unlimited part at a random position of the top-level composite
			pos := rng.Intn(len(c.Tree.Parts) + 1)
			parts := append([]vkit.SchedSpec{}, c.Tree.Parts[:pos]...)
			parts = append(parts, vkit.SchedSpec{Kind: "unlimited", DurMs: liveMs})
			parts = append(parts, c.Tree.Parts[pos:]...)
			c.Tree.Parts = parts
		}
		r := reference(c.Tree, mode == "live")
		if len(r.tokens) <= 2000 {
			if mode == "past" && !r.hasUnlim {
				c.Mode = "none"
			}
			break
		}
	}
	return c
}

func genControlled(rng *rand.Rand) Case {
	mode := []string{"none", "past", "past", "live"}[rng.Intn(4)]
	c := Case{Mode: mode, Controlled: true, Explicit: true, Callback: rng.Intn(2) == 0, Seed: rng.Int63()}
	n := 2 + rng.Intn(3)
	c.Tree = vkit.SchedSpec{Kind: "composite"}
	for i := 0; i < n; i++ {
		var p vkit.SchedSpec
		switch k := rng.Intn(6); {
		case k < 3:
			p = vkit.SchedSpec{Kind: "once", N: int64(rng.Intn(3))}
		case k < 4:
			p = vkit.SchedSpec{Kind: "const", A: 0, DurMs: 1 + rng.Intn(5)}
		case k < 5 && mode != "none":
			p = vkit.SchedSpec{Kind: "unlimited", DurMs: 1 + rng.Intn(5)}
		default:
			p = vkit.SchedSpec{Kind: "const", A: 1000, DurMs: 1 + rng.Intn(2)}
		}
		c.Tree.Parts = append(c.Tree.Parts, p)
	}
	if mode == "live" {
		pos := 1 + rng.Intn(len(c.Tree.Parts))
		parts := append([]vkit.SchedSpec{}, c.Tree.Parts[:pos]...)
		parts = append(parts, vkit.SchedSpec{Kind: "unlimited", DurMs: liveMs})
		c.Tree.Parts = append(parts, c.Tree.Parts[pos:]...)
	}
	r := reference(c.Tree, mode == "live")
	if mode == "past" && !r.hasUnlim {
		c.Mode = "none"
	}
	c.Callers = 2 + rng.Intn(2)
	for i := 0; i < c.Callers; i++ {
		var sc []byte
		m := 2 + rng.Intn(4)
		for j := 0; j < m; j++ {
			if rng.Intn(3) == 0 {
				sc = append(sc, 'L')
			} else {
				sc = append(sc, 'N')
			}
		}
		c.Scripts = append(c.Scripts, sc)
	}
	return c
}

// ---------- drivers ----------

func report(res *vkit.Result, c Case, vs []verdict, h *recorder) {
	class := c.Mode
	exec := "stress"
	if c.Controlled {
		exec = "controlled"
	}
	_ = exec
	seen := map[string]bool{}
	for _, v := range vs {
		key := "C02/" + class + "/" + v.key
		if seen[key] {
			continue
		}
		seen[key] = true
		ops := h.ops
		if len(ops) > 60 {
			ops = ops[:60]
		}
		res.Violate(key, v.what, map[string]any{"case": c, "history_head": ops})
	}
}

func runStressCase(res *vkit.Result, c Case) {
	h, _, r, impl := runStress(c)
	vs := judge(c, h, r, impl, res)
	report(res, c, vs, h)
	res.Count("histories_stress", 1)
	res.Count(fmt.Sprintf("callers_%d", c.Callers), 1)
	res.Count("mode_"+c.Mode, 1)
	res.Eval(vkit.JSON(c), len(r.tokens) >= 2 && c.Callers >= 2)
	if c.Seed%97 == 0 {
		head := h.ops
		if len(head) > 12 {
			head = head[:12]
		}
		res.Sample(map[string]any{"case": c, "reference_tokens": len(r.tokens), "ops": len(h.ops), "history_head": head})
	}
}

// exploreControlled enumerates interleavings of one controlled case: bounded DFS over the
// choice sequences, then seeded random walks.
func exploreControlled(res *vkit.Result, c Case, budget int, rng *rand.Rand) {
	seen := map[string]bool{}
	runOne := func(choices []int) (alts, used []int) {
		h, _, r, alts, used, dead := runControlled(c, choices)
		if dead {
			cc := c
			cc.Choices = used
			res.Violate("C02/"+c.Mode+"/controlled-deadlock", "controlled execution made no progress for 10s (a goroutine blocked while others are parked)", cc)
			return nil, nil
		}
		fp := fmt.Sprint(used)
		if !seen[fp] {
			seen[fp] = true
			res.Count("controlled_interleavings", 1)
		}
		vs := judge(c, h, r, false, res)
		if len(vs) > 0 {
			cc := c
			cc.Choices = used
			report(res, cc, vs, h)
		}
		res.Eval(vkit.JSON(c)+fp, true)
		return alts, used
	}
	if len(c.Choices) > 0 { // replay
		runOne(c.Choices)
		return
	}
	// DFS (odometer)
	var choices []int
	n := 0
	for n < budget {
		alts, used := runOne(choices)
		n++
		if alts == nil {
			return
		}
		// next: increment the last position that has an untried alternative
		i := len(used) - 1
		for i >= 0 && used[i] >= alts[i]-1 {
			i--
		}
		if i < 0 {
			res.Count("controlled_cases_exhausted", 1)
			return
		}
		choices = append(append([]int{}, used[:i]...), used[i]+1)
	}
	for k := 0; k < budget/4; k++ {
		ch := make([]int, 64)
		for i := range ch {
			ch[i] = rng.Intn(4)
		}
		runOne(ch)
	}
}

var seedCases = []Case{
	{Tree: vkit.SchedSpec{Kind: "composite", Parts: []vkit.SchedSpec{{Kind: "once", N: 1}, {Kind: "unlimited", DurMs: liveMs}}}, Mode: "live", Callers: 2, Explicit: true, LeftPct: 50, Seed: 1},
	{Tree: vkit.SchedSpec{Kind: "composite", Parts: []vkit.SchedSpec{{Kind: "once", N: 2}, {Kind: "unlimited", DurMs: liveMs}}}, Mode: "live", Callers: 1, Explicit: true, LeftPct: 50, Seed: 2},
	{Tree: vkit.SchedSpec{Kind: "composite", Parts: []vkit.SchedSpec{{Kind: "once", N: 3}, {Kind: "unlimited", DurMs: 5}, {Kind: "once", N: 2}}}, Mode: "past", Callers: 3, Explicit: true, LeftPct: 40, Callback: true, Seed: 3},
	{Tree: vkit.SchedSpec{Kind: "composite", Parts: []vkit.SchedSpec{{Kind: "unlimited", DurMs: 5}, {Kind: "once", N: 2}, {Kind: "const", A: 0, DurMs: 3}, {Kind: "once", N: 1}}}, Mode: "past", Callers: 4, Explicit: true, LeftPct: 40, Callback: true, Seed: 4},
	{Tree: vkit.SchedSpec{Kind: "composite", Parts: []vkit.SchedSpec{{Kind: "once", N: 0}, {Kind: "const", A: 0, DurMs: 3}, {Kind: "once", N: 0}, {Kind: "once", N: 4}}}, Mode: "none", Callers: 8, Explicit: true, LeftPct: 30, Callback: true, Seed: 5},
	{Tree: vkit.SchedSpec{Kind: "instance_step", A: 1, B: 7, N: 2, DurMs: 4}, Mode: "none", Callers: 4, Explicit: false, LeftPct: 20, Seed: 6},
	{Tree: vkit.SchedSpec{Kind: "composite", Parts: []vkit.SchedSpec{{Kind: "const", A: 300, DurMs: 100}, {Kind: "line", A: 10, B: 200, DurMs: 100}, {Kind: "step", A: 10, B: 100, N: 30, DurMs: 30}}}, Mode: "none", Callers: 16, Explicit: true, LeftPct: 10, Callback: true, Seed: 7},
}

func child() {
	schedule.VerifYield = yieldHook
	res := vkit.NewResult("")
	kind := vkit.ChildKind()
	if p, err := strconv.Atoi(os.Getenv("VERIF_PROCS")); err == nil && p > 0 {
		runtime.GOMAXPROCS(p)
	}
	rng := rand.New(rand.NewSource(vkit.Seed()))
	budget, _ := strconv.Atoi(os.Getenv("VERIF_CTL_BUDGET"))
	for i, raw := range vkit.ChildCases() {
		var c Case
		_ = json.Unmarshal(raw, &c)
		vkit.LogCase(i)
		if kind == "controlled" {
			exploreControlled(res, c, budget, rng)
			res.Count("controlled_cases", 1)
		} else {
			runStressCase(res, c)
		}
	}
	hookHits.Range(func(k, v any) bool {
		res.Count("hook_hits/"+k.(string), v.(*atomic.Int64).Load())
		return true
	})
	res.ChildDone()
}

// shortUnlimited: an unlimited part whose window closes while it is being drawn. Token counts
// are not deterministic here, so only what does not depend on them is judged: no caller ever
// sees time go backwards (the result of a call that reported the end included), no token of the
// unlimited part lies after the part's end, and the parts after it start exactly at that end.
func shortUnlimited(res *vkit.Result, trials int) {
	for _, callers := range []int{1, 2, 4} {
		c := map[string]any{"tree": "composite(unlimited(w), once(3), const(1000,2ms))", "callers": callers}
		bad := ""
		for trial := 0; trial < trials && bad == ""; trial++ {
			w := time.Duration(20+trial%200) * time.Microsecond
			s := schedule.NewComposite(schedule.NewUnlimited(w), schedule.NewOnce(3), schedule.NewConst(1000, 2*time.Millisecond))
			t0 := time.Now()
			s.Start(t0)
			end := t0.Add(w)
			var mu sync.Mutex
			var wg sync.WaitGroup
			for g := 0; g < callers; g++ {
				wg.Add(1)
				go func(g int) {
					defer wg.Done()
					var prev time.Time
					for n := 0; n < 200000; n++ {
						t, ok := s.Next()
						if !prev.IsZero() && t.Before(prev) {
							mu.Lock()
							if bad == "" {
								bad = fmt.Sprintf("caller %d got %v after %v (%v backwards), window %v, after %d draws", g, t.Sub(t0), prev.Sub(t0), prev.Sub(t), w, n)
							}
							mu.Unlock()
							return
						}
						prev = t
						if !ok {
							if want := end.Add(2 * time.Millisecond); !t.Equal(want) {
								mu.Lock()
								if bad == "" {
									bad = fmt.Sprintf("finish reported at +%v, the parts end at +%v", t.Sub(t0), want.Sub(t0))
								}
								mu.Unlock()
							}
							return
						}
					}
				}(g)
			}
			wg.Wait()
			res.Count("short_unlimited_trials", 1)
		}
		if bad != "" {
			res.Violate("C02/short-unlimited/time-decreased", bad, c)
		}
		res.Eval(vkit.JSON(c), true)
	}
}

// unlimitedFirstUse: "the number left is zero only if no token remains, and negative while the
// total is unknown". A fresh unlimited schedule with a 1 h window is started — lazily by its
// first Next, or by Start — while other callers poll Left (what every instance does before each
// shot). Nobody may ever see Left() == 0 or a refused token: the window is an hour long.
// idleBehindDrainedPart: a composite that nobody starts explicitly (the engine never does) has an
// unlimited part of a few milliseconds behind its first part. The first part is drawn empty —
// by one caller or by several at once — then nobody draws for longer than the unlimited part
// can last (a sleep never ends early, so its window is certainly over), and only then Left is
// asked. Nothing is unknown any more: Left must be the exact number of requests still to come
// (0 if none), and drawing them must give exactly that many.
func idleBehindDrainedPart(res *vkit.Result, reps int) {
	type shape struct {
		name        string
		first, rest int
		build       func() core.Schedule
	}
	shapes := []shape{
		{"[once 2, unlimited 8ms, once 3]", 2, 3, func() core.Schedule {
			return schedule.NewComposite(schedule.NewOnce(2), schedule.NewUnlimited(8*time.Millisecond), schedule.NewOnce(3))
		}},
		{"[once 1, 0 rps for 5ms, unlimited 8ms]", 1, 0, func() core.Schedule {
			return schedule.NewComposite(schedule.NewOnce(1), schedule.NewConst(0, 5*time.Millisecond), schedule.NewUnlimited(8*time.Millisecond))
		}},
		{"[once 4, unlimited 5ms, 0 rps for 3ms, once 1, once 2]", 4, 3, func() core.Schedule {
			return schedule.NewComposite(schedule.NewOnce(4), schedule.NewUnlimited(5*time.Millisecond), schedule.NewConst(0, 3*time.Millisecond), schedule.NewOnce(1), schedule.NewOnce(2))
		}},
		{"[[once 3, unlimited 6ms], once 2]", 3, 2, func() core.Schedule {
			return schedule.NewComposite(schedule.NewComposite(schedule.NewOnce(3), schedule.NewUnlimited(6*time.Millisecond)), schedule.NewOnce(2))
		}},
	}
	for _, sh := range shapes {
		for _, callers := range []int{1, 3} {
			c := map[string]any{"tree": sh.name, "started": "by the first Next", "callers_drawing_the_first_part": callers, "idle_ms": 40}
			bad := ""
			for r := 0; r < reps && bad == ""; r++ {
				s := sh.build()
				var wg sync.WaitGroup
				var refused atomic.Int64
				per := make([]int, callers)
				for i := 0; i < sh.first; i++ {
					per[i%callers]++
				}
				for g := 0; g < callers; g++ {
					wg.Add(1)
					go func(n int) {
						defer wg.Done()
						for i := 0; i < n; i++ {
							if _, ok := s.Next(); !ok {
								refused.Add(1)
							}
						}
					}(per[g])
				}
				wg.Wait()
				if refused.Load() > 0 {
					bad = fmt.Sprintf("round %d: %d of the first part's %d requests were refused", r, refused.Load(), sh.first)
					break
				}
				time.Sleep(40 * time.Millisecond)
				l := s.Left()
				if l != sh.rest {
					bad = fmt.Sprintf("round %d: the first part's %d requests were drawn, the unlimited part behind it (a few ms long) has been over for tens of ms: Left() = %d, want %d", r, sh.first, l, sh.rest)
					break
				}
				got := 0
				for i := 0; i < sh.rest+2; i++ {
					if _, ok := s.Next(); ok {
						got++
					}
				}
				if got != sh.rest {
					bad = fmt.Sprintf("round %d: Left() = %d, but %d more requests could be drawn", r, l, got)
				}
				res.Count("idle_behind_drained_part_rounds", 1)
			}
			if bad != "" {
				res.Violate("C02/idle-behind-drained-part/left", bad, c)
			}
			res.Eval(vkit.JSON(c), true)
		}
	}
}

// highRateOrder: parts with tens of thousands of requests per second for seconds (hundreds of
// thousands of tokens — far more than the generated trees hold) drawn by one caller: the times it
// is given never decrease, across part boundaries and into the finish time included.
func highRateOrder(res *vkit.Result) {
	shapes := []struct {
		name  string
		build func() core.Schedule
	}{
		{"[const 60000 rps 2s, once 1]", func() core.Schedule {
			return schedule.NewComposite(schedule.NewConst(60000, 2*time.Second), schedule.NewOnce(1))
		}},
		{"const 60000 rps 1500ms", func() core.Schedule { return schedule.NewConst(60000, 1500*time.Millisecond) }},
		{"step 15000…30000 by 15000, 20s", func() core.Schedule { return schedule.NewStep(15000, 30000, 15000, 20*time.Second) }},
		{"[line 70000→10 rps 3s, const 7 rps 1s]", func() core.Schedule {
			return schedule.NewComposite(schedule.NewLine(70000, 10, 3*time.Second), schedule.NewConst(7, time.Second))
		}},
	}
	for _, sh := range shapes {
		c := map[string]any{"tree": sh.name, "callers": 1}
		s := sh.build()
		t0 := time.Unix(1700000000, 0)
		s.Start(t0)
		var prev time.Time
		n := 0
		for {
			t, ok := s.Next()
			if t.Before(prev) {
				what := fmt.Sprintf("token %d", n)
				if !ok {
					what = "the finish time"
				}
				res.Violate("C02/high-rate/time-decreased", fmt.Sprintf("%s is dated +%v, after the caller had already been given +%v", what, t.Sub(t0), prev.Sub(t0)), c)
				break
			}
			prev = t
			if !ok {
				break
			}
			n++
			if n > 5000000 {
				res.Inconclusive(false, "high-rate profile %s did not end after 5e6 tokens", sh.name)
				break
			}
		}
		res.Count("high_rate_tokens_drawn", int64(n))
		res.Eval(vkit.JSON(c), true)
	}
}

func unlimitedFirstUse(res *vkit.Result, rounds int) {
	for _, how := range []string{"first-next", "start"} {
		c := map[string]any{"tree": "unlimited(1h)", "started_by": how, "pollers": 6}
		bad := ""
		polls := int64(0)
		for r := 0; r < rounds && bad == ""; r++ {
			s := schedule.NewUnlimited(time.Hour)
			var stop atomic.Bool
			var mu sync.Mutex
			var wg sync.WaitGroup
			begin := make(chan struct{})
			for g := 0; g < 6; g++ {
				wg.Add(1)
				go func() {
					defer wg.Done()
					<-begin
					n := int64(0)
					for !stop.Load() {
						n++
						if l := s.Left(); l >= 0 {
							mu.Lock()
							if bad == "" {
								bad = fmt.Sprintf("Left() = %d while the schedule was being started (round %d): its window of 1 h has only just begun", l, r)
							}
							mu.Unlock()
							break
						}
					}
					atomic.AddInt64(&polls, n)
				}()
			}
			wg.Add(1)
			go func() {
				defer wg.Done()
				<-begin
				for i := 0; i < r%50; i++ {
					runtime.Gosched()
				}
				if how == "start" {
					s.Start(time.Now())
				}
				if _, ok := s.Next(); !ok {
					mu.Lock()
					if bad == "" {
						bad = fmt.Sprintf("the first Next was refused (round %d)", r)
					}
					mu.Unlock()
				}
				for i := 0; i < 20; i++ {
					runtime.Gosched()
				}
				stop.Store(true)
			}()
			close(begin)
			wg.Wait()
			res.Count("unlimited_first_use_rounds", 1)
		}
		res.Count("unlimited_first_use_polls", polls)
		if bad != "" {
			res.Violate("C02/unlimited-first-use/left-zero", bad, c)
		}
		res.Eval(vkit.JSON(c), true)
	}
}

// factoryProducts: with rps-per-instance the pool's config-decoded factory is asked for one
// schedule per instance. For profiles written as lists (composites) every product must be a
// schedule of its own: what is drawn from one must not show in the Left of another, and each
// must hand out its full number of tokens.
func factoryProducts(res *vkit.Result) {
	profiles := map[string][]any{
		"once3,pause,once2": {map[string]any{"type": "once", "times": 3}, map[string]any{"type": "const", "ops": 0, "duration": "50ms"}, map[string]any{"type": "once", "times": 2}},
		"const,line":        {map[string]any{"type": "const", "ops": 20, "duration": "200ms"}, map[string]any{"type": "line", "from": 10, "to": 30, "duration": "200ms"}},
		"once1":             {map[string]any{"type": "once", "times": 4}},
	}
	for name, conf := range profiles {
		c := map[string]any{"rps": name, "rps-per-instance": true}
		pc, err := vkit.DecodedPool(conf, nil, true)
		if err != nil {
			res.Violate("C02/factory-products/rejected", fmt.Sprintf("valid rps list rejected: %v", err), c)
			continue
		}
		var prods []core.Schedule
		bad := ""
		for i := 0; i < 4 && bad == ""; i++ {
			s, err := pc.NewRPSSchedule()
			if err != nil {
				bad = fmt.Sprintf("product %d: %v", i, err)
				break
			}
			prods = append(prods, s)
		}
		if bad == "" {
			total := prods[0].Left()
			t0 := time.Now()
			for i, s := range prods {
				if l := s.Left(); l != total {
					bad = fmt.Sprintf("product %d announces Left() = %d before anything was drawn from it, product 0 announced %d", i, l, total)
					break
				}
				pv, panicked := func() (v any, p bool) {
					defer func() {
						if r := recover(); r != nil {
							v, p = r, true
						}
					}()
					s.Start(t0)
					// draw i+1 tokens from product i, then all products must still be exact
					for k := 0; k <= i && k < total; k++ {
						if _, ok := s.Next(); !ok {
							bad = fmt.Sprintf("product %d refused token %d of %d", i, k, total)
						}
					}
					return nil, false
				}()
				if panicked {
					bad = fmt.Sprintf("product %d: panic %v", i, pv)
				}
				for j, o := range prods {
					want := total
					if j <= i {
						want = total - min(j+1, total)
					}
					if l := o.Left(); bad == "" && l != want {
						bad = fmt.Sprintf("after drawing %d tokens from product %d, product %d says Left() = %d, want %d (of %d)", i+1, i, j, l, want, total)
					}
				}
				if bad != "" {
					break
				}
			}
		}
		if bad != "" {
			res.Violate("C02/factory-products/left", "schedules produced by one config-decoded factory: "+bad, c)
		}
		res.Count("factory_products", int64(len(prods)))
		res.Eval(vkit.JSON(c), true)
	}
}

func main() {
	if vkit.IsChild() {
		child()
		return
	}
	res := vkit.NewResult("random schedule trees (depth ≤ 3, once/const/line/step/instance_step/unlimited/composite incl. empty and zero-token parts, unlimited parts finished (far past) or live (1 h window) in any position, ≤ 2000 tokens) drawn by 1–16 concurrent callers with seeded Next/Left scripts (stress mode, yield hook = Gosched/µs sleeps, GOMAXPROCS ∈ {1,2,4,16}); plus flat composites with 2–3 callers × ≤ 5 ops executed under a controller that enumerates interleavings at the hook's park points (bounded DFS + random walks); plus composites whose unlimited part closes while 1–4 callers draw from it (monotonicity and finish time only); distinct = distinct (case, interleaving); non-trivial = ≥ 2 tokens and ≥ 2 callers (stress) / every controlled interleaving")
	rng := vkit.Rand("c02")
	onCrash := func(c vkit.Crash) {
		var cs Case
		_ = json.Unmarshal(c.Case, &cs)
		res.Violate("C02/"+cs.Mode+"/process-died", "process died or hung while running this case:\n"+c.Output, cs)
	}
	if rp := os.Getenv("VERIF_REPLAY"); rp != "" {
		b, _ := os.ReadFile(rp)
		var rj struct {
			Case struct {
				Case Case `json:"case"`
			} `json:"case"`
		}
		_ = json.Unmarshal(b, &rj)
		kind := "stress"
		if rj.Case.Case.Controlled {
			kind = "controlled"
		}
		vkit.RunChildren(res, vkit.ChildSpec{Kind: kind, Batches: vkit.Batches([]Case{rj.Case.Case}, 1), Timeout: 5 * time.Minute, OnCrash: onCrash, Env: []string{"VERIF_CTL_BUDGET=1"}})
		res.Write()
		return
	}
	// stress
	var stress []Case
	stress = append(stress, seedCases...)
	for i := 0; i < vkit.N(400, 10000); i++ {
		stress = append(stress, genCase(rng))
	}
	procs := []int{1, 2, 4, 16}
	per := (len(stress) + 3) / 4
	var wg sync.WaitGroup
	for gi, p := range procs {
		lo, hi := gi*per, (gi+1)*per
		if hi > len(stress) {
			hi = len(stress)
		}
		if lo >= hi {
			continue
		}
		wg.Add(1)
		go func(p int, cs []Case) {
			defer wg.Done()
			for i := range cs {
				cs[i].Procs = p
			}
			vkit.RunChildren(res, vkit.ChildSpec{Kind: "stress", Batches: vkit.Batches(cs, 50), Parallel: 3, Timeout: 20 * time.Minute,
				OnCrash: onCrash, Env: []string{fmt.Sprintf("VERIF_PROCS=%d", p)}})
		}(p, stress[lo:hi])
	}
	// controlled
	var ctl []Case
	for i := 0; i < vkit.N(100, 2500); i++ {
		ctl = append(ctl, genControlled(rng))
	}
	wg.Add(1)
	go func() {
		defer wg.Done()
		vkit.RunChildren(res, vkit.ChildSpec{Kind: "controlled", Batches: vkit.Batches(ctl, 10), Parallel: 4, Timeout: 30 * time.Minute,
			OnCrash: onCrash, Env: []string{fmt.Sprintf("VERIF_CTL_BUDGET=%d", vkit.N(200, 1500))}})
	}()
	wg.Wait()
	vkit.CheckRaceLog(res, "C02")
	shortUnlimited(res, vkit.N(400, 8000))
	unlimitedFirstUse(res, vkit.N(3000, 30000))
	idleBehindDrainedPart(res, vkit.N(4, 40))
	highRateOrder(res)
	factoryProducts(res)
	if res.Counter("hook_hits/next:after-runlock") == 0 || res.Counter("hook_hits/left:after-runlock") == 0 || res.Counter("controlled_interleavings") < 50 {
		res.Inconclusive(true, "yield hook not reached or too few controlled interleavings (is the verif tag on?)")
	}
	res.Write()
}
