// C01 — RPS schedules realise the configured load profile.
//
// Oracle: exact-arithmetic (big.Float, 256 bit) cumulative rate F(t); every emitted token k
// must satisfy F(t_k+δ) ≥ k−ε and F(t_k−δ) ≤ k+ε (count space), 0 ≤ t_k ≤ D, non-decreasing;
// token count N = ⌊F(D)⌋ (±ε); Left() exact; after exhaustion Next keeps returning start+D.
package main

import (
	"fmt"
	"math"
	"math/big"
	"math/rand"
	"runtime"
	"sort"
	"strings"
	"sync"
	"sync/atomic"
	"time"

	"github.com/yandex/pandora/core"
	"github.com/yandex/pandora/core/config"
	"github.com/yandex/pandora/core/schedule"

	"verif/harness/vkit"
)

type Profile struct {
	Kind     string  `json:"kind"` // const line step once
	From     float64 `json:"from,omitempty"`
	To       float64 `json:"to,omitempty"`
	Ops      float64 `json:"ops,omitempty"`
	Step     int64   `json:"step,omitempty"`
	Times    int64   `json:"times,omitempty"`
	Duration int64   `json:"duration_ns,omitempty"`
	ViaConf  bool    `json:"via_config"`
}

func (p Profile) String() string { return vkit.JSON(p) }

const prec = 256

func bf(x float64) *big.Float { return new(big.Float).SetPrec(prec).SetFloat64(x) }
func bi(x int64) *big.Float   { return new(big.Float).SetPrec(prec).SetInt64(x) }

// cumulative tokens of a line from→to over D ns at offset t ns (t may be outside [0,D]; clipped).
func cumLine(from, to float64, D, t int64) *big.Float {
	if t < 0 {
		t = 0
	}
	if t > D {
		t = D
	}
	ts := new(big.Float).SetPrec(prec).Quo(bi(t), bi(1e9))
	Ds := new(big.Float).SetPrec(prec).Quo(bi(D), bi(1e9))
	r := new(big.Float).SetPrec(prec).Mul(bf(from), ts)
	if from != to {
		q := new(big.Float).SetPrec(prec).Sub(bf(to), bf(from))
		q.Mul(q, ts).Mul(q, ts)
		q.Quo(q, new(big.Float).SetPrec(prec).Mul(bi(2), Ds))
		r.Add(r, q)
	}
	return r
}

func build(p Profile) (core.Schedule, error) {
	d := time.Duration(p.Duration)
	if p.ViaConf {
		var m map[string]any
		switch p.Kind {
		case "const":
			m = map[string]any{"type": "const", "ops": p.Ops, "duration": d.String()}
		case "line":
			m = map[string]any{"type": "line", "from": p.From, "to": p.To, "duration": d.String()}
		case "step":
			m = map[string]any{"type": "step", "from": p.From, "to": p.To, "step": p.Step, "duration": d.String()}
		case "once":
			m = map[string]any{"type": "once", "times": p.Times}
		}
		var h struct {
			S core.Schedule `config:"s" validate:"required"`
		}
		if err := config.DecodeAndValidate(map[string]any{"s": m}, &h); err != nil {
			return nil, err
		}
		return h.S, nil
	}
	switch p.Kind {
	case "const":
		return schedule.NewConstConf(schedule.ConstConfig{Ops: p.Ops, Duration: d}), nil
	case "line":
		return schedule.NewLineConf(schedule.LineConfig{From: p.From, To: p.To, Duration: d}), nil
	case "step":
		return schedule.NewStepConf(schedule.StepConfig{From: p.From, To: p.To, Step: p.Step, Duration: d}), nil
	case "once":
		return schedule.NewOnceConf(schedule.OnceConfig{Times: p.Times}), nil
	}
	return nil, fmt.Errorf("unknown kind")
}

// segment of the model: a line from→to of D ns (const: from==to) starting at offset Off.
type seg struct {
	from, to float64
	D        int64
	off      int64
}

func model(p Profile) (segs []seg, total int64, onceN int64) {
	switch p.Kind {
	case "const":
		return []seg{{p.Ops, p.Ops, p.Duration, 0}}, p.Duration, -1
	case "line":
		return []seg{{p.From, p.To, p.Duration, 0}}, p.Duration, -1
	case "step":
		if p.From == p.To {
			return []seg{{p.From, p.From, p.Duration, 0}}, p.Duration, -1
		}
		var off int64
		for r := p.From; r <= p.To; r += float64(p.Step) {
			segs = append(segs, seg{r, r, p.Duration, off})
			off += p.Duration
		}
		return segs, off, -1
	case "once":
		return nil, 0, p.Times
	}
	return
}

type judge struct {
	res *vkit.Result
	p   Profile
	bad bool
}

func (j *judge) fail(check, format string, a ...any) {
	class := "whole-seconds"
	if j.p.Kind != "once" && j.p.Duration%1e9 != 0 {
		class = "fractional-seconds"
	}
	key := fmt.Sprintf("C01/%s/%s/%s", j.p.Kind, class, check)
	if !j.bad { // one violation per profile and check is enough
		j.res.Violate(key, fmt.Sprintf(format, a...), j.p)
	}
	j.bad = true
}

const maxDrain = 3_000_000

func epsFor(s seg, n float64) float64 {
	e := 1e-9 + 1e-12*math.Max(1, n)
	if s.from != s.to {
		a := math.Abs(s.to-s.from) / (float64(s.D) / 1e9)
		m := math.Max(s.from, s.to)
		e += 8 * math.Pow(2, -52) * m * m / a
	}
	return e
}

func check(res *vkit.Result, p Profile, rng *rand.Rand) {
	j := &judge{res: res, p: p}
	sched, err := build(p)
	if err != nil {
		j.fail("rejected", "valid profile rejected: %v", err)
		res.Eval(p.String(), false)
		return
	}
	segs, total, onceN := model(p)
	// expected counts per segment
	var exps []exp
	var sumLo, sumHi int64
	illCond := false
	if onceN >= 0 {
		sumLo, sumHi = onceN, onceN
	}
	for _, s := range segs {
		F := cumLine(s.from, s.to, s.D, s.D)
		f, _ := F.Float64()
		eps := epsFor(s, f)
		if eps > 0.01 {
			illCond = true
		}
		lo, _ := new(big.Float).SetPrec(prec).Sub(F, bf(eps)).Int64()
		hi, _ := new(big.Float).SetPrec(prec).Add(F, bf(eps)).Int64()
		if lo < 0 {
			lo = 0
		}
		exps = append(exps, exp{lo, hi, f, eps})
		sumLo += lo
		sumHi += hi
	}
	if illCond {
		res.Count("skipped_ill_conditioned", 1)
		return
	}
	if sumHi > maxDrain {
		res.Count("skipped_too_many_tokens", 1)
		return
	}
	// Left before start
	left0 := int64(sched.Left())
	if left0 < sumLo || left0 > sumHi {
		j.fail("count", "Left() before start = %d, integral over the whole duration gives %d..%d tokens", left0, sumLo, sumHi)
	}
	t0 := time.Unix(1_700_000_000, int64(rng.Intn(1e9)))
	sched.Start(t0)
	// drain
	var times []int64
	for {
		ts, ok := sched.Next()
		if !ok {
			if fin := ts.Sub(t0).Nanoseconds(); fin != total {
				j.fail("finish", "exhausted profile reports finish = start+%v, want start+%v", time.Duration(fin), time.Duration(total))
			}
			break
		}
		times = append(times, ts.Sub(t0).Nanoseconds())
		if l := int64(sched.Left()); len(times) <= 64 && l != left0-int64(len(times)) {
			j.fail("left", "Left() after %d tokens = %d, want %d", len(times), l, left0-int64(len(times)))
		}
		if int64(len(times)) > sumHi+1000 {
			j.fail("count", "more than %d tokens emitted, integral gives %d..%d", len(times), sumLo, sumHi)
			break
		}
	}
	for i := 0; i < 3; i++ {
		ts, ok := sched.Next()
		if ok || ts.Sub(t0).Nanoseconds() != total {
			j.fail("finish", "Next after exhaustion returned (start+%v, %v), want (start+%v, false)", ts.Sub(t0), ok, time.Duration(total))
		}
	}
	if l := sched.Left(); l != 0 {
		j.fail("left", "Left() after exhaustion = %d", l)
	}
	n := int64(len(times))
	if n < sumLo || n > sumHi {
		j.fail("count", "%d tokens emitted, integral of the configured rate over the duration is %s, want %d..%d",
			n, describe(exps), sumLo, sumHi)
	}
	res.Count("tokens_drained", n)
	// per token checks
	var prev int64 = math.MinInt64
	for k, d := range times {
		if d < prev {
			j.fail("monotonic", "token %d at %v precedes token %d at %v", k, time.Duration(d), k-1, time.Duration(prev))
			break
		}
		prev = d
		if d < 0 || d > total {
			j.fail("range", "token %d scheduled at start+%v, outside [start, start+%v]", k, time.Duration(d), time.Duration(total))
			break
		}
	}
	if onceN >= 0 {
		for k, d := range times {
			if d != 0 {
				j.fail("early-late", "once token %d at start+%v", k, time.Duration(d))
				break
			}
		}
	} else {
		// Partition tokens by segment (step: one const per level, level j occupies
		// [j·D, (j+1)·D); a token exactly at a boundary is token 0 of the next level) and judge
		// each segment's tokens with their local index against that segment's integral.
		var parts [][]int64
		if len(segs) == 1 {
			parts = [][]int64{times}
		} else {
			parts = make([][]int64, len(segs))
			for _, d := range times {
				j := int(d / segs[0].D)
				if j >= len(segs) {
					j = len(segs) - 1
				}
				parts[j] = append(parts[j], d-segs[j].off)
			}
		}
		var maxErr float64
		judged := 0
	outer:
		for si, s := range segs {
			e := exps[si]
			pt := parts[si]
			if nn := int64(len(pt)); nn < e.lo || nn > e.hi {
				j.fail("count", "level %d (rate %v→%v over %v): %d tokens, integral gives %.9f", si, s.from, s.to, time.Duration(s.D), nn, e.f)
				break
			}
			for _, k := range pickIdx(len(pt), rng) {
				d := pt[k]
				hiF, _ := cumLine(s.from, s.to, s.D, d+2).Float64()
				loF, _ := cumLine(s.from, s.to, s.D, d-2).Float64()
				kk := float64(k)
				judged++
				// too early: even 2ns later the integral has not reached k
				if hiF < kk-e.eps {
					j.fail("early", "token %d of level %d scheduled at +%v where the integral of the rate is only %.9f", k, si, time.Duration(d), hiF)
					break outer
				}
				// too late: the integral had reached k already 2ns before
				if loF > kk+e.eps {
					j.fail("late", "token %d of level %d scheduled at +%v where the integral of the rate is already %.9f", k, si, time.Duration(d), loF)
					break outer
				}
				if er := math.Max(kk-hiF, loF-kk); er > maxErr {
					maxErr = er
				}
			}
		}
		res.Count("tokens_judged", int64(judged))
		res.Max("max_count_space_error_e9", int64(maxErr*1e9))
	}
	nontrivial := n >= 2
	res.Eval(p.String(), nontrivial)
	res.Count("profiles_"+p.Kind, 1)
	if p.Kind != "once" && p.Duration%1e9 != 0 {
		res.Count("profiles_fractional_seconds", 1)
	}
	if p.ViaConf {
		res.Count("profiles_via_config", 1)
	}
	if !j.bad && rng.Intn(200) == 0 {
		first := times
		if len(first) > 5 {
			first = first[:5]
		}
		res.Sample(map[string]any{"profile": p, "tokens": n, "first_token_offsets_ns": first, "left_before_start": left0})
	}
}

type exp struct {
	lo, hi int64
	f      float64
	eps    float64
}

func describe(es []exp) string {
	s := ""
	for i, e := range es {
		if i > 0 {
			s += "+"
		}
		s += fmt.Sprintf("%.6f", e.f)
		if i > 6 {
			s += "+…"
			break
		}
	}
	return s
}

func pickIdx(n int, rng *rand.Rand) []int {
	if n <= 4000 {
		r := make([]int, n)
		for i := range r {
			r[i] = i
		}
		return r
	}
	seen := map[int]bool{}
	var r []int
	add := func(i int) {
		if i >= 0 && i < n && !seen[i] {
			seen[i] = true
			r = append(r, i)
		}
	}
	for i := 0; i < 1000; i++ {
		add(i)
		add(n - 1 - i)
	}
	for i := 0; i < 2000; i++ {
		add(rng.Intn(n))
	}
	return r
}

var rateGrid = []float64{0, 0.1, 0.5, 1, 2, 3, 7.3, 10, 50, 100, 1000, 10000}
var durGrid = []int64{1e6, 7e6, 5e8, 999e6, 1e9, 15e8, 25e8, 3e9, 10e9, 617e8}

func genRate(rng *rand.Rand) float64 {
	switch rng.Intn(4) {
	case 0:
		return rateGrid[rng.Intn(len(rateGrid))]
	case 1:
		return float64(rng.Intn(200))
	case 2:
		return math.Round(rng.Float64()*1000*100) / 100
	default:
		return math.Round(math.Pow(10, rng.Float64()*5-1)*1000) / 1000
	}
}

func genDur(rng *rand.Rand) int64 {
	switch rng.Intn(4) {
	case 0:
		return durGrid[rng.Intn(len(durGrid))]
	case 1:
		return int64(1+rng.Intn(20)) * 1e9
	case 2:
		return int64(1+rng.Intn(20000)) * 1e6 // ms granular
	default:
		return 1e6 + rng.Int63n(30e9) // ns granular
	}
}

func gen(rng *rand.Rand) Profile {
	p := Profile{ViaConf: rng.Intn(2) == 0}
	switch rng.Intn(10) {
	case 0, 1, 2:
		p.Kind = "const"
		p.Ops = genRate(rng)
		p.Duration = genDur(rng)
	case 3, 4, 5, 6:
		p.Kind = "line"
		p.From, p.To = genRate(rng), genRate(rng)
		if rng.Intn(6) == 0 {
			p.From = 0
		}
		if rng.Intn(6) == 0 {
			p.To = 0
		}
		p.Duration = genDur(rng)
	case 7, 8:
		p.Kind = "step"
		p.From = float64(rng.Intn(50))
		p.To = p.From + float64(rng.Intn(100))
		p.Step = int64(1 + rng.Intn(30))
		if rng.Intn(2) == 0 {
			// fractional bounds (from/to are floats in the config); dyadic fractions keep the
			// level sums exact, so "level ≤ to" is never a rounding question
			p.From = float64(rng.Intn(160)) / 8
			p.To = p.From + float64(rng.Intn(400))/8
			p.Step = int64(1 + rng.Intn(12))
		}
		p.Duration = genDur(rng) % 5e9
		if p.Duration < 1e6 {
			p.Duration = 1e6
		}
	default:
		p.Kind = "once"
		p.Times = int64(1 + rng.Intn(5000))
	}
	return p
}

// Regression seeds: minimal witnesses of defects found earlier plus boundary cases. They go
// through the same oracle as generated profiles.
var seeds = []Profile{
	{Kind: "line", From: 0, To: 10, Duration: 15e8},
	{Kind: "line", From: 0, To: 10, Duration: 5e8},
	{Kind: "line", From: 10, To: 0, Duration: 25e8},
	{Kind: "line", From: 5, To: 50, Duration: 999e6},
	{Kind: "line", From: 1, To: 100, Duration: 1e6 + 1},
	{Kind: "line", From: 0, To: 10, Duration: 3e9},
	{Kind: "line", From: 10, To: 0, Duration: 3e9},
	{Kind: "line", From: 7, To: 7, Duration: 15e8},
	{Kind: "line", From: 0, To: 0, Duration: 1e9},
	{Kind: "const", Ops: 0, Duration: 1e9},
	{Kind: "const", Ops: 0.3, Duration: 10e9},
	{Kind: "const", Ops: 10, Duration: 15e8},
	{Kind: "const", Ops: 1000, Duration: 1e6},
	{Kind: "step", From: 1, To: 5, Step: 2, Duration: 15e8},
	{Kind: "step", From: 0, To: 3, Step: 1, Duration: 1e9},
	{Kind: "step", From: 5, To: 5, Step: 1, Duration: 1e9},
	{Kind: "step", From: 5, To: 6, Step: 3, Duration: 2e9},
	{Kind: "step", From: 0.5, To: 2, Step: 1, Duration: 2e9},
	{Kind: "step", From: 1, To: 1.5, Step: 1, Duration: 1e9},
	{Kind: "step", From: 10, To: 24.5, Step: 5, Duration: 5e8},
	{Kind: "step", From: 0.25, To: 3.25, Step: 1, Duration: 1e9},
	{Kind: "once", Times: 1},
	{Kind: "once", Times: 100},
}

// sharedStep: a step profile shared by several instances (the default) is drawn by concurrent
// callers. However the callers interleave, the multiset of token times and the finish time
// must be those of the sequential profile: the succession of one const profile per level.
func sharedStep(res *vkit.Result, p Profile, callers, trials int) {
	t0 := time.Unix(1700000000, 0)
	ref := schedule.NewStep(p.From, p.To, p.Step, time.Duration(p.Duration))
	ref.Start(t0)
	var want []int64
	var wantFinish int64
	for {
		t, ok := ref.Next()
		if !ok {
			wantFinish = t.Sub(t0).Nanoseconds()
			break
		}
		want = append(want, t.Sub(t0).Nanoseconds())
	}
	c := map[string]any{"profile": p, "concurrent_callers": callers}
	for trial := 0; trial < trials; trial++ {
		s := schedule.NewStep(p.From, p.To, p.Step, time.Duration(p.Duration))
		s.Start(t0)
		got := make([][]int64, callers)
		fin := make([]int64, callers)
		var wg sync.WaitGroup
		start := make(chan struct{})
		for g := 0; g < callers; g++ {
			wg.Add(1)
			go func(g int) {
				defer wg.Done()
				<-start
				for {
					t, ok := s.Next()
					if !ok {
						fin[g] = t.Sub(t0).Nanoseconds()
						return
					}
					got[g] = append(got[g], t.Sub(t0).Nanoseconds())
					if len(got[g])%3 == 0 {
						runtime.Gosched()
					}
				}
			}(g)
		}
		close(start)
		wg.Wait()
		var all []int64
		for _, l := range got {
			all = append(all, l...)
		}
		sort.Slice(all, func(i, j int) bool { return all[i] < all[j] })
		bad := len(all) != len(want)
		for i := 0; !bad && i < len(all); i++ {
			bad = all[i] != want[i]
		}
		if bad {
			res.Violate("C01/step/shared/token-times", fmt.Sprintf("%d concurrent callers drew operations at %v (ns after start), the profile is %v", callers, head(all, 12), head(want, 12)), c)
			break
		}
		for g := range fin {
			if fin[g] != wantFinish {
				res.Violate("C01/step/shared/finish", fmt.Sprintf("a caller was told the exhausted profile finished at +%dns, the profile ends at +%dns", fin[g], wantFinish), c)
				trial = trials
				break
			}
		}
		res.Count("shared_step_drains", 1)
	}
	res.Eval(vkit.JSON(c), len(want) >= 2)
}

// sharedBudget: what the instances of a pool do with its shared profile — ask how many requests
// are left, then take one — is done by several callers at once on a small profile of every kind.
// The moment the profile runs out is met on every trial (some callers being refused while others
// ask what is left). The profile holds as many requests as its integral says: exactly those, at
// those instants, are handed out, and afterwards nothing is left.
func sharedBudget(res *vkit.Result, p Profile, callers, trials int) {
	t0 := time.Unix(1700000000, 0)
	ref, err := build(p)
	if err != nil {
		res.Inconclusive(true, "cannot build %v: %v", p, err)
		return
	}
	ref.Start(t0)
	var want []int64
	for {
		t, ok := ref.Next()
		if !ok {
			break
		}
		want = append(want, t.Sub(t0).Nanoseconds())
	}
	c := map[string]any{"profile": p, "concurrent_callers": callers, "each_caller": "loop: Left() == 0 ? stop : Next()"}
	for trial := 0; trial < trials; trial++ {
		s, _ := build(p)
		s.Start(t0)
		got := make([][]int64, callers)
		var wg sync.WaitGroup
		start := make(chan struct{})
		for g := 0; g < callers; g++ {
			wg.Add(1)
			go func(g int) {
				defer wg.Done()
				<-start
				for k := 0; k < 3*len(want)+10; k++ {
					if s.Left() == 0 {
						// what an instance does when it finds the profile finished: it goes away;
						// a second look must not find the profile refilled
						if k%2 == 0 {
							runtime.Gosched()
							continue
						}
						return
					}
					if t, ok := s.Next(); ok {
						got[g] = append(got[g], t.Sub(t0).Nanoseconds())
					}
				}
			}(g)
		}
		close(start)
		wg.Wait()
		var all []int64
		for _, l := range got {
			all = append(all, l...)
		}
		sort.Slice(all, func(i, j int) bool { return all[i] < all[j] })
		bad := len(all) != len(want)
		for i := 0; !bad && i < len(all); i++ {
			bad = all[i] != want[i]
		}
		if bad {
			res.Violate("C01/"+p.Kind+"/shared/budget", fmt.Sprintf("the profile holds %d operations; %d concurrent callers asking Left and taking Next were handed %d: %v (ns after start), the profile is %v", len(want), callers, len(all), head(all, 12), head(want, 12)), c)
			break
		}
		if l := s.Left(); l != 0 {
			res.Violate("C01/"+p.Kind+"/shared/budget", fmt.Sprintf("all %d operations were handed out, Left() = %d", len(want), l), c)
			break
		}
		res.Count("shared_budget_drains", 1)
	}
	res.Eval(vkit.JSON(c), len(want) >= 2)
}

func head(xs []int64, n int) []int64 {
	if len(xs) > n {
		return xs[:n]
	}
	return xs
}

// lazyStart: the engine never calls Start on a pool's shared profile; it starts at its first
// use, and with several instances the first uses overlap. Whatever the overlap, every operation
// must lie inside [start, start+duration] where start is somewhere inside the first calls.
func lazyStart(res *vkit.Result, p Profile, callers, trials int) {
	c := map[string]any{"profile": p, "concurrent_first_callers": callers}
	d := time.Duration(p.Duration)
	for trial := 0; trial < trials; trial++ {
		s, err := build(p)
		if err != nil {
			res.Inconclusive(true, "lazyStart: %v", err)
			return
		}
		times := make([]time.Time, callers)
		oks := make([]bool, callers)
		var ready atomic.Int32
		var wg sync.WaitGroup
		before := time.Now()
		for g := 0; g < callers; g++ {
			wg.Add(1)
			go func(g int) {
				defer wg.Done()
				ready.Add(1)
				for ready.Load() < int32(callers) {
				}
				times[g], oks[g] = s.Next()
			}(g)
		}
		wg.Wait()
		after := time.Now()
		for g := range times {
			if !oks[g] {
				continue
			}
			if times[g].Before(before) || times[g].After(after.Add(d)) {
				res.Violate("C01/"+p.Kind+"/lazy-start/range", fmt.Sprintf("%d callers made the first Next calls of an unstarted profile between %s and %s; one operation is scheduled at %s, outside [start, start+%s]", callers, before.Format("15:04:05.000000"), after.Format("15:04:05.000000"), times[g].Format("2006-01-02 15:04:05.000000"), d), c)
				res.Eval(vkit.JSON(c), true)
				return
			}
		}
		res.Count("lazy_start_trials", 1)
	}
	res.Eval(vkit.JSON(c), true)
}

func main() {
	vkit.Fs()
	res := vkit.NewResult("const/line/step/once profiles generated from a rate grid ∪ random rates and a duration grid ∪ random ms/ns-granular durations, built directly and through the config plugin path, drained completely; distinct = distinct parameter tuples; non-trivial = at least 2 tokens emitted")
	rng := vkit.Rand("c01")
	for _, s := range seeds {
		for _, via := range []bool{false, true} {
			s.ViaConf = via
			check(res, s, rng)
		}
	}
	n := vkit.N(3000, 60000)
	budget := int64(vkit.N(30_000_000, 600_000_000))
	for i := 0; i < n; i++ {
		p := gen(rng)
		// keep the total number of drained tokens bounded by the tier budget
		if res.Counter("tokens_drained") > budget {
			res.Count("generated_after_token_budget_small_only", 1)
			if est := estTokens(p); est > 20000 {
				continue
			}
		}
		check(res, p, rng)
	}
	// step profiles shared by concurrent callers (levels that are empty or tiny make hand-offs frequent)
	for _, p := range []Profile{
		{Kind: "step", From: 0, To: 2, Step: 1, Duration: 1e9},
		{Kind: "step", From: 0, To: 3, Step: 1, Duration: 5e8},
		{Kind: "step", From: 0.5, To: 2.5, Step: 1, Duration: 1e9},
		{Kind: "step", From: 0, To: 0.9, Step: 1, Duration: 1e9},
		{Kind: "step", From: 1, To: 40, Step: 13, Duration: 1e8},
	} {
		for _, callers := range []int{2, 4, 8} {
			sharedStep(res, p, callers, vkit.N(700, 20000))
		}
	}
	for _, p := range []Profile{
		{Kind: "const", Ops: 1000, Duration: 1e9},
		{Kind: "line", From: 10, To: 1000, Duration: 1e9},
		{Kind: "once", Times: 100},
		{Kind: "step", From: 100, To: 300, Step: 100, Duration: 5e8},
	} {
		lazyStart(res, p, 8, vkit.N(1500, 40000))
		lazyStart(res, p, 2, vkit.N(500, 10000))
	}
	for _, p := range []Profile{
		{Kind: "once", Times: 6},
		{Kind: "const", Ops: 4, Duration: 15e8},
		{Kind: "line", From: 2, To: 6, Duration: 15e8},
		{Kind: "step", From: 1, To: 3, Step: 1, Duration: 1e9},
	} {
		sharedBudget(res, p, 8, vkit.N(6000, 100000))
	}
	concurrentBuild(res, vkit.N(400, 8000))
	concurrentFactory(res, vkit.N(300, 6000))
	if res.Counter("profiles_fractional_seconds") < 10 || res.Counter("profiles_line") < 10 {
		res.Inconclusive(true, "too few fractional-second or line profiles judged")
	}
	res.Write()
}

// concurrentBuild: several pools (and, with rps-per-instance, all instances of a pool) have their
// schedules built from config at the same time. Profiles of the same type with different numbers
// are decoded concurrently from 8 goroutines; every schedule must be exactly the one its own
// section describes — same token count, token times and finish as the directly built profile.
func concurrentBuild(res *vkit.Result, rounds int) {
	profiles := []Profile{
		{Kind: "const", Ops: 4, Duration: 5e8, ViaConf: true}, {Kind: "const", Ops: 30, Duration: 2e8, ViaConf: true},
		{Kind: "line", From: 1, To: 9, Duration: 1e9, ViaConf: true}, {Kind: "line", From: 20, To: 2, Duration: 5e8, ViaConf: true},
		{Kind: "once", Times: 3, ViaConf: true}, {Kind: "once", Times: 11, ViaConf: true},
		{Kind: "step", From: 1, To: 3, Step: 1, Duration: 1e9, ViaConf: true}, {Kind: "step", From: 2, To: 10, Step: 4, Duration: 5e8, ViaConf: true},
	}
	t0 := time.Unix(1700000000, 0)
	drain := func(s core.Schedule) string {
		s.Start(t0)
		var b strings.Builder
		fmt.Fprintf(&b, "left=%d;", s.Left())
		for i := 0; i < 200; i++ {
			t, ok := s.Next()
			fmt.Fprintf(&b, "%d,", t.Sub(t0))
			if !ok {
				break
			}
		}
		return b.String()
	}
	want := make([]string, len(profiles))
	for i, p := range profiles {
		direct := p
		direct.ViaConf = false
		s, err := build(direct)
		if err != nil {
			res.Inconclusive(true, "cannot build %v: %v", p, err)
			return
		}
		want[i] = drain(s)
	}
	var mu sync.Mutex
	bad := map[int]string{}
	built := int64(0)
	for r := 0; r < rounds; r++ {
		var wg sync.WaitGroup
		start := make(chan struct{})
		for g := 0; g < 8; g++ {
			wg.Add(1)
			go func(g int) {
				defer wg.Done()
				i := (g + r) % len(profiles)
				<-start
				s, err := build(profiles[i])
				got := ""
				if err != nil {
					got = "rejected: " + err.Error()
				} else {
					got = drain(s)
				}
				atomic.AddInt64(&built, 1)
				if got != want[i] {
					mu.Lock()
					if bad[i] == "" {
						bad[i] = got
					}
					mu.Unlock()
				}
			}(g)
		}
		close(start)
		wg.Wait()
	}
	for i, got := range bad {
		res.Violate("C01/"+profiles[i].Kind+"/concurrent-build/profile", fmt.Sprintf("built from config while 7 other schedules were being built: %.300s — the section describes %.300s", got, want[i]), profiles[i])
	}
	res.Count("schedules_built_concurrently", built)
	res.Eval("concurrent-build", true)
}

// concurrentFactory: with rps-per-instance every instance asks the pool's one config-decoded
// factory for its schedule, from its own goroutine, and instances released together ask at the
// same moment. 16 goroutines call one factory at once: every caller must get a schedule of its
// own (no object handed out twice) that realises the configured profile.
func concurrentFactory(res *vkit.Result, rounds int) {
	profiles := []Profile{
		{Kind: "const", Ops: 4, Duration: 5e8}, {Kind: "line", From: 2, To: 10, Duration: 15e8},
		{Kind: "once", Times: 7}, {Kind: "step", From: 1, To: 3, Step: 1, Duration: 1e9},
		// a profile written as a list of parts (once 3, const 4 rps 0.5 s, line 2→10 rps 1.5 s), and a list of one
		{Kind: "list"}, {Kind: "list-of-one"},
	}
	t0 := time.Unix(1700000000, 0)
	drain := func(s core.Schedule) (out string) {
		var b strings.Builder
		defer func() {
			if r := recover(); r != nil {
				out = b.String() + fmt.Sprintf(" PANIC: %v", r)
			}
		}()
		fmt.Fprintf(&b, "left-before-start=%d;", s.Left())
		s.Start(t0)
		for i := 0; i < 200; i++ {
			t, ok := s.Next()
			fmt.Fprintf(&b, "%d,", t.Sub(t0))
			if !ok {
				break
			}
		}
		return b.String()
	}
	for _, p := range profiles {
		var direct core.Schedule
		var err error
		var conf any
		switch p.Kind {
		case "list":
			direct = schedule.NewComposite(schedule.NewOnceConf(schedule.OnceConfig{Times: 3}),
				schedule.NewConstConf(schedule.ConstConfig{Ops: 4, Duration: 500 * time.Millisecond}),
				schedule.NewLineConf(schedule.LineConfig{From: 2, To: 10, Duration: 1500 * time.Millisecond}))
			conf = []any{map[string]any{"type": "once", "times": 3}, map[string]any{"type": "const", "ops": 4, "duration": "500ms"},
				map[string]any{"type": "line", "from": 2, "to": 10, "duration": "1.5s"}}
		case "list-of-one":
			direct = schedule.NewComposite(schedule.NewLineConf(schedule.LineConfig{From: 2, To: 10, Duration: 1500 * time.Millisecond}))
			conf = []any{map[string]any{"type": "line", "from": 2, "to": 10, "duration": "1.5s"}}
		default:
			direct, err = build(p)
		}
		if err != nil {
			res.Inconclusive(true, "cannot build %v: %v", p, err)
			return
		}
		want := drain(direct)
		d := time.Duration(p.Duration).String()
		switch p.Kind {
		case "const":
			conf = map[string]any{"type": "const", "ops": p.Ops, "duration": d}
		case "line":
			conf = map[string]any{"type": "line", "from": p.From, "to": p.To, "duration": d}
		case "step":
			conf = map[string]any{"type": "step", "from": p.From, "to": p.To, "step": p.Step, "duration": d}
		case "once":
			conf = map[string]any{"type": "once", "times": p.Times}
		}
		pc, err := vkit.DecodedPool(conf, nil, true)
		if err != nil {
			res.Violate("C01/"+p.Kind+"/concurrent-factory/rejected", fmt.Sprintf("valid rps section rejected: %v", err), p)
			continue
		}
		bad := ""
		products := int64(0)
		for r := 0; r < rounds && bad == ""; r++ {
			const callers = 16
			got := make([]core.Schedule, callers)
			errs := make([]error, callers)
			var wg sync.WaitGroup
			start := make(chan struct{})
			for g := 0; g < callers; g++ {
				wg.Add(1)
				go func(g int) {
					defer wg.Done()
					<-start
					got[g], errs[g] = pc.NewRPSSchedule()
				}(g)
			}
			close(start)
			wg.Wait()
			seen := map[core.Schedule]int{}
			for g, s := range got {
				if errs[g] != nil {
					bad = fmt.Sprintf("round %d: factory call %d failed: %v", r, g, errs[g])
					break
				}
				if prev, dup := seen[s]; dup {
					bad = fmt.Sprintf("round %d: callers %d and %d were handed the same schedule object", r, prev, g)
					break
				}
				seen[s] = g
			}
			for g, s := range got {
				if bad != "" {
					break
				}
				if d := drain(s); d != want {
					bad = fmt.Sprintf("round %d: the schedule of caller %d gives %.200s — the section describes %.200s", r, g, d, want)
				}
			}
			products += callers
		}
		if bad != "" {
			res.Violate("C01/"+p.Kind+"/concurrent-factory/profile", "one config-decoded factory called by 16 goroutines at once: "+bad, p)
		}
		res.Count("factory_products_checked", products)
	}
	res.Eval("concurrent-factory", true)
}

func estTokens(p Profile) float64 {
	switch p.Kind {
	case "const":
		return p.Ops * float64(p.Duration) / 1e9
	case "line":
		return (p.From + p.To) / 2 * float64(p.Duration) / 1e9
	case "step":
		return (p.From + p.To) / 2 * float64(p.Duration) / 1e9 * ((p.To-p.From)/float64(p.Step) + 1)
	}
	return float64(p.Times)
}
