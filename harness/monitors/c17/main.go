// C17 — Config decoding: unknown keys rejected, defaults kept, values validated.
//
// All checks go through the real config path (config.DecodeAndValidate with the plugin hooks
// installed by the component imports; the CLI's own reader is exercised through the pandora
// binary). Five parts:
//  1. every map path of every corpus config gets an unknown key and a one-letter misspelling
//     of an existing key ⇒ rejected (decode error or error of the first factory call);
//  2. every field of the component field tables gets wrongly typed values and values that
//     violate a documented constraint ⇒ rejected;
//  3. defaults: a random subset of a component's fields is set; the config the constructed
//     component actually holds (found by reflection) must equal the registered default
//     overlaid by exactly that subset;
//  4. placeholders: the same with values given as ${env:X} / ${property:file#key} in string,
//     int, float, bool and duration fields ⇒ same typed value as the literal; unset env,
//     missing file, missing key, uncastable text ⇒ rejected;
//  5. discard_overflow: the real binary with the key absent discards overdue tokens, with
//     `false` it does not; the binary rejects unknown keys too.
package main

import (
	"bytes"
	"encoding/json"
	"fmt"
	"math/rand"
	"net"
	"net/http"
	"os"
	"os/exec"
	"path/filepath"
	"reflect"
	"sort"
	"strings"
	"sync"
	"sync/atomic"
	"time"
	"unsafe"

	"github.com/c2h5oh/datasize"
	"github.com/yandex/pandora/cli"
	grpcgun "github.com/yandex/pandora/components/guns/grpc"
	phttp "github.com/yandex/pandora/components/guns/http"
	"github.com/yandex/pandora/components/providers/grpc/grpcjson"
	httpconf "github.com/yandex/pandora/components/providers/http/config"
	"github.com/yandex/pandora/core/aggregator"
	"github.com/yandex/pandora/core/aggregator/netsample"
	"github.com/yandex/pandora/core/config"
	"github.com/yandex/pandora/core/engine"
	"github.com/yandex/pandora/core/provider"
	"gopkg.in/yaml.v2"

	"verif/harness/vkit"
)

// ---------------------------------------------------------------- helpers on generic maps

func clone(v any) any {
	switch x := v.(type) {
	case map[string]any:
		m := make(map[string]any, len(x))
		for k, vv := range x {
			m[k] = clone(vv)
		}
		return m
	case []any:
		l := make([]any, len(x))
		for i, vv := range x {
			l[i] = clone(vv)
		}
		return l
	}
	return v
}

// setPath sets a dotted key path inside a map, creating intermediate maps.
func setPath(m map[string]any, path string, v any) {
	parts := strings.Split(path, ".")
	for _, p := range parts[:len(parts)-1] {
		n, ok := m[p].(map[string]any)
		if !ok {
			n = map[string]any{}
			m[p] = n
		}
		m = n
	}
	m[parts[len(parts)-1]] = v
}

func basePool() map[string]any {
	return map[string]any{
		"id":      "p",
		"ammo":    map[string]any{"type": "uri", "uris": []any{"/x"}},
		"result":  map[string]any{"type": "discard"},
		"gun":     map[string]any{"type": "http", "target": "127.0.0.1:8080"},
		"rps":     map[string]any{"type": "const", "ops": 10, "duration": "1s"},
		"startup": map[string]any{"type": "once", "times": 1},
	}
}

func poolWith(section string, v any) map[string]any {
	p := basePool()
	p[section] = v
	return map[string]any{"pools": []any{p}}
}

// decodeFull decodes a whole config and forces the lazily decoded factories; it returns the
// engine config and the first error from any of these steps.
func decodeFull(conf map[string]any) (ec engine.Config, stage string, err error) {
	defer func() {
		if r := recover(); r != nil {
			err = fmt.Errorf("PANIC while decoding: %v", r)
			stage = "panic"
		}
	}()
	cc := cli.DefaultConfig()
	if err = config.DecodeAndValidate(clone(conf), cc); err != nil {
		return cc.Engine, "decode", err
	}
	ec = cc.Engine
	for _, p := range ec.Pools {
		if _, err = p.NewGun(); err != nil {
			return ec, "first NewGun call", err
		}
		if _, err = p.NewRPSSchedule(); err != nil {
			return ec, "first NewRPSSchedule call", err
		}
	}
	return ec, "", nil
}

// ---------------------------------------------------------------- finding a config struct inside a component

func findType(root any, t reflect.Type) (reflect.Value, bool) {
	seen := map[uintptr]bool{}
	var found reflect.Value
	var walk func(v reflect.Value, depth int) bool
	walk = func(v reflect.Value, depth int) bool {
		if !v.IsValid() || depth > 12 {
			return false
		}
		if v.Type() == t {
			found = v
			return true
		}
		switch v.Kind() {
		case reflect.Ptr:
			if v.IsNil() || seen[v.Pointer()] {
				return false
			}
			seen[v.Pointer()] = true
			return walk(v.Elem(), depth+1)
		case reflect.Interface:
			if v.IsNil() {
				return false
			}
			return walk(v.Elem(), depth+1)
		case reflect.Struct:
			for i := 0; i < v.NumField(); i++ {
				f := v.Field(i)
				if !f.CanInterface() && f.CanAddr() {
					f = reflect.NewAt(f.Type(), unsafe.Pointer(f.UnsafeAddr())).Elem()
				}
				if walk(f, depth+1) {
					return true
				}
			}
		}
		return false
	}
	ok := walk(reflect.ValueOf(root), 0)
	return found, ok
}

// readable copies a (possibly read-only) struct value into a fresh addressable one.
func readable(v reflect.Value) reflect.Value {
	if v.CanInterface() {
		return v
	}
	if v.CanAddr() {
		return reflect.NewAt(v.Type(), unsafe.Pointer(v.UnsafeAddr())).Elem()
	}
	return v
}

// ---------------------------------------------------------------- component field tables

type field struct {
	Key    string // dotted key path under the component section
	Lit    any    // literal value as it would be in YAML
	Text   string // textual form (what a placeholder resolves to)
	GoPath string // dotted Go field path inside the config struct
	Want   any    // typed value expected in the config
	Wrong  []any  // wrongly typed values
	Bad    []any  // values violating a documented constraint
}

type comp struct {
	Name     string
	Section  string
	Base     map[string]any
	ConfType reflect.Type
	Default  func() any
	// Component returns the object that holds the decoded config.
	Component func(ec engine.Config) (any, error)
	// Fix adjusts the expected config for values that are set by the base section or computed.
	Fix    func(exp reflect.Value, got reflect.Value)
	Fields []field
	// Doc lists what docs/eng/*-generator.md state as the default of a field (Go path → value);
	// it is compared with the config a component gets from the bare base section.
	Doc map[string]any
}

var (
	wrongBool = []any{"maybe", 7, []any{true}, map[string]any{"a": 1}}
	wrongInt  = []any{"seven", true, []any{1}, map[string]any{"a": 1}}
	wrongDur  = []any{"5 parsecs", true, []any{"1s"}, map[string]any{"a": 1}}
	wrongStr  = []any{12, true, []any{"x"}, map[string]any{"a": 1}}
)

func fb(key, gopath string, v bool) field {
	return field{Key: key, Lit: v, Text: fmt.Sprint(v), GoPath: gopath, Want: v, Wrong: wrongBool}
}
func fi(key, gopath string, v int, want any, bad ...any) field {
	return field{Key: key, Lit: v, Text: fmt.Sprint(v), GoPath: gopath, Want: want, Wrong: wrongInt, Bad: bad}
}
func fd(key, gopath string, text string, bad ...any) field {
	d, _ := time.ParseDuration(text)
	return field{Key: key, Lit: text, Text: text, GoPath: gopath, Want: d, Wrong: wrongDur, Bad: bad}
}
func fs(key, gopath, v string, bad ...any) field {
	return field{Key: key, Lit: v, Text: v, GoPath: gopath, Want: v, Wrong: wrongStr, Bad: bad}
}

func httpGunFields() []field {
	return []field{
		fb("ssl", "SSL", true),
		fb("redirect", "Client.Redirect", true),
		fb("connect-ssl", "Client.ConnectSSL", true),
		fd("dial.timeout", "Client.Dialer.Timeout", "7s"),
		fb("dial.dual-stack", "Client.Dialer.DualStack", false),
		fb("dial.dns-cache", "Client.Dialer.DNSCache", false),
		fd("dial.fallback-delay", "Client.Dialer.FallbackDelay", "300ms"),
		fd("dial.keep-alive", "Client.Dialer.KeepAlive", "11s"),
		fd("tls-handshake-timeout", "Client.Transport.TLSHandshakeTimeout", "2s"),
		fb("disable-keep-alives", "Client.Transport.DisableKeepAlives", true),
		fb("disable-compression", "Client.Transport.DisableCompression", false),
		fi("max-idle-conns", "Client.Transport.MaxIdleConns", 17, 17),
		fi("max-idle-conns-per-host", "Client.Transport.MaxIdleConnsPerHost", 3, 3),
		fd("idle-conn-timeout", "Client.Transport.IdleConnTimeout", "33s"),
		fd("response-header-timeout", "Client.Transport.ResponseHeaderTimeout", "1500ms"),
		fd("expect-continue-timeout", "Client.Transport.ExpectContinueTimeout", "2s"),
		fb("auto-tag.enabled", "AutoTag.Enabled", true),
		fi("auto-tag.uri-elements", "AutoTag.URIElements", 4, 4, 0, -1),
		fb("auto-tag.no-tag-only", "AutoTag.NoTagOnly", false),
		fs("answlog.path", "AnswLog.Path", "/c17/answ.log"),
		fs("answlog.filter", "AnswLog.Filter", "warning"),
		fb("httptrace.dump", "HTTPTrace.DumpEnabled", true),
		fb("httptrace.trace", "HTTPTrace.TraceEnabled", true),
		fb("shared-client.enabled", "SharedClient.Enabled", true),
		fi("shared-client.client-number", "SharedClient.ClientNumber", 3, 3),
		{Key: "target", Lit: "127.0.0.1:8080", Text: "127.0.0.1:8080", GoPath: "Target", Want: "127.0.0.1:8080", Wrong: wrongStr,
			// "host:port" or ":port" with a port number 1…65535
			Bad: []any{"", "no-port", "host:99999", "host:port:extra", "http://host:80", "host:", "[::1]:", "127.0.0.1:0", ":0", "host:00",
				"host:http", "host:65536", "host:-1", "host: 80"}},
	}
}

func gunComponent(ec engine.Config) (any, error) { return ec.Pools[0].NewGun() }

func httpGunFix(exp, got reflect.Value) {
	exp.FieldByName("Target").SetString("127.0.0.1:8080")
	exp.FieldByName("TargetResolved").SetString("127.0.0.1:8080")
	// computed, not decoded: the DNS cache is switched off for targets that are already resolved
	exp.FieldByName("Client").FieldByName("Dialer").FieldByName("DNSCache").SetBool(false)
}

// httpGunDoc: the defaults docs/eng/http-generator.md states ("Default: …") for the http guns.
// ssl is false for http/connect and "true by default" for http2 (the gun's own error message).
func httpGunDoc(ssl bool) map[string]any {
	return map[string]any{
		"SSL":                                    ssl,
		"Client.ConnectSSL":                      false,
		"Client.Transport.TLSHandshakeTimeout":   time.Second,
		"Client.Transport.DisableKeepAlives":     false,
		"Client.Transport.DisableCompression":    true,
		"Client.Transport.MaxIdleConns":          0,
		"Client.Transport.IdleConnTimeout":       90 * time.Second,
		"Client.Transport.ResponseHeaderTimeout": time.Duration(0),
		"Client.Transport.ExpectContinueTimeout": time.Second,
		"Client.Dialer.Timeout":                  3 * time.Second,
		"Client.Dialer.DualStack":                true,
		"Client.Dialer.KeepAlive":                120 * time.Second,
		"AnswLog.Filter":                         "error",
		"AutoTag.URIElements":                    2,
		"AutoTag.NoTagOnly":                      true,
		"SharedClient.Enabled":                   false,
	}
}

// documentedDefaults: the component built from the bare base section holds the documented defaults.
func documentedDefaults(res *vkit.Result, c comp) {
	if c.Doc == nil {
		return
	}
	cs := map[string]any{"component": c.Name, "section": c.Base}
	key := "C17/" + c.Name
	ec, stage, err := decodeFull(poolWith(c.Section, clone(c.Base).(map[string]any)))
	if err != nil {
		res.Violate(key+"/valid-config-rejected", fmt.Sprintf("the minimal section was rejected at %s: %v", stage, err), cs)
		return
	}
	obj, err := c.Component(ec)
	if err != nil {
		res.Violate(key+"/valid-config-rejected", fmt.Sprintf("component construction from the minimal section failed: %v", err), cs)
		return
	}
	got, ok := findType(obj, c.ConfType)
	if !ok {
		res.Inconclusive(true, "%s: no %s inside %T", c.Name, c.ConfType, obj)
		return
	}
	got = readable(got)
	for path, want := range c.Doc {
		v := got
		for _, p := range strings.Split(path, ".") {
			v = v.FieldByName(p)
		}
		if !v.IsValid() {
			res.Inconclusive(true, "%s: no field %s", c.Name, path)
			continue
		}
		if fmt.Sprint(v.Interface()) != fmt.Sprint(want) {
			res.Violate(key+"/documented-default", fmt.Sprintf("%s is %v when not configured, documented default %v", path, v.Interface(), want), cs)
		}
		res.Count("documented_defaults_compared", 1)
	}
	res.Eval("documented-defaults "+c.Name, true)
}

func comps() []comp {
	return []comp{
		{Name: "result/phout", Section: "result", Base: map[string]any{"type": "phout", "destination": "/c17/out.phout"},
			ConfType: reflect.TypeOf(netsample.PhoutConfig{}), Default: func() any { return netsample.DefaultPhoutConfig() },
			Component: func(ec engine.Config) (any, error) { return ec.Pools[0].Aggregator, nil },
			Fix:       func(exp, got reflect.Value) { exp.FieldByName("Destination").SetString("/c17/out.phout") },
			Fields: []field{
				fb("id", "ID", true),
				fd("flush-time", "FlushTime", "250ms"),
				fi("sample-queue-size", "SampleQueueSize", 1234, 1234),
				{Key: "buffer-size", Lit: "64KB", Text: "64KB", GoPath: "Buffer.BufferSize", Want: 64 * datasize.KB, Wrong: []any{"lots", true, []any{1}}},
				fs("destination", "Destination", "/c17/out.phout"),
			}},
		{Name: "result/jsonlines", Section: "result", Base: map[string]any{"type": "jsonlines", "sink": map[string]any{"type": "file", "path": "/c17/out.jsonl"}},
			ConfType: reflect.TypeOf(aggregator.EncoderAggregatorConfig{}), Default: func() any { return aggregator.DefaultEncoderAggregatorConfig() },
			Component: func(ec engine.Config) (any, error) { return ec.Pools[0].Aggregator, nil },
			Fix:       func(exp, got reflect.Value) { exp.FieldByName("Sink").Set(got.FieldByName("Sink")) },
			Fields: []field{
				fi("buffer-size", "BufferSize", 2048, 2048),
				fd("flush-interval", "FlushInterval", "125ms"),
				fi("sample-queue-size", "ReporterConfig.SampleQueueSize", 77, 77, 0, -5),
			}},
		{Name: "gun/http", Section: "gun", Base: map[string]any{"type": "http", "target": "127.0.0.1:8080"},
			ConfType: reflect.TypeOf(phttp.GunConfig{}), Default: func() any { return phttp.DefaultHTTPGunConfig() }, Component: gunComponent,
			Fix: func(exp, got reflect.Value) {
				exp.FieldByName("Target").SetString("127.0.0.1:8080")
				exp.FieldByName("TargetResolved").SetString("127.0.0.1:8080")
				// computed, not decoded: the DNS cache is switched off for targets that are already resolved
				exp.FieldByName("Client").FieldByName("Dialer").FieldByName("DNSCache").SetBool(false)
			}, Fields: httpGunFields(), Doc: httpGunDoc(false)},
		{Name: "gun/connect", Section: "gun", Base: map[string]any{"type": "connect", "target": "127.0.0.1:8080"},
			ConfType: reflect.TypeOf(phttp.GunConfig{}), Default: func() any { return phttp.DefaultConnectGunConfig() }, Component: gunComponent,
			Fix: func(exp, got reflect.Value) {
				exp.FieldByName("Target").SetString("127.0.0.1:8080")
				exp.FieldByName("TargetResolved").SetString("127.0.0.1:8080")
				// computed, not decoded: the DNS cache is switched off for targets that are already resolved
				exp.FieldByName("Client").FieldByName("Dialer").FieldByName("DNSCache").SetBool(false)
			}, Fields: httpGunFields(), Doc: httpGunDoc(false)},
		{Name: "gun/http/scenario", Section: "gun", Base: map[string]any{"type": "http/scenario", "target": "127.0.0.1:8080"},
			ConfType: reflect.TypeOf(phttp.GunConfig{}), Default: func() any { return phttp.DefaultHTTPGunConfig() }, Component: gunComponent,
			Fix: func(exp, got reflect.Value) {
				exp.FieldByName("Target").SetString("127.0.0.1:8080")
				exp.FieldByName("TargetResolved").SetString("127.0.0.1:8080")
				// computed, not decoded: the DNS cache is switched off for targets that are already resolved
				exp.FieldByName("Client").FieldByName("Dialer").FieldByName("DNSCache").SetBool(false)
			}, Fields: httpGunFields(), Doc: httpGunDoc(false)},
		{Name: "gun/http2", Section: "gun", Base: map[string]any{"type": "http2", "target": "127.0.0.1:8080"},
			ConfType: reflect.TypeOf(phttp.GunConfig{}), Default: func() any { return phttp.DefaultHTTP2GunConfig() }, Component: gunComponent,
			Fix: httpGunFix, Fields: httpGunFields(), Doc: httpGunDoc(true)},
		{Name: "gun/http2/scenario", Section: "gun", Base: map[string]any{"type": "http2/scenario", "target": "127.0.0.1:8080"},
			ConfType: reflect.TypeOf(phttp.GunConfig{}), Default: func() any { return phttp.DefaultHTTP2GunConfig() }, Component: gunComponent,
			Fix: httpGunFix, Fields: httpGunFields(), Doc: httpGunDoc(true)},
		{Name: "gun/grpc/scenario", Section: "gun", Base: map[string]any{"type": "grpc/scenario", "target": "127.0.0.1:8888"},
			// the scenario gun copies its config, field by field, into the config of the plain grpc gun it wraps
			ConfType: reflect.TypeOf(grpcgun.GunConfig{}), Default: func() any { return grpcgun.DefaultGunConfig() }, Component: gunComponent,
			Fix: func(exp, got reflect.Value) { exp.FieldByName("Target").SetString("127.0.0.1:8888") },
			Fields: []field{
				fd("timeout", "Timeout", "4s"),
				fb("tls", "TLS", true),
				{Key: "reflect_port", Lit: 9999, Text: "9999", GoPath: "ReflectPort", Want: int64(9999), Wrong: wrongInt},
				fs("dial_options.authority", "DialOptions.Authority", "auth.example"),
				fd("dial_options.timeout", "DialOptions.Timeout", "6s"),
				fs("answlog.path", "AnswLog.Path", "/c17/grpcs-answ.log"),
				fs("answlog.filter", "AnswLog.Filter", "error"),
				{Key: "target", Lit: "127.0.0.1:8888", Text: "127.0.0.1:8888", GoPath: "Target", Want: "127.0.0.1:8888", Wrong: wrongStr, Bad: []any{""}},
			}, Doc: map[string]any{"TLS": false}},
		{Name: "gun/grpc", Section: "gun", Base: map[string]any{"type": "grpc", "target": "127.0.0.1:8888"},
			ConfType: reflect.TypeOf(grpcgun.GunConfig{}), Default: func() any { return grpcgun.DefaultGunConfig() }, Component: gunComponent,
			Fix: func(exp, got reflect.Value) { exp.FieldByName("Target").SetString("127.0.0.1:8888") },
			Fields: []field{
				fd("timeout", "Timeout", "4s"),
				fb("tls", "TLS", true),
				{Key: "reflect_port", Lit: 9999, Text: "9999", GoPath: "ReflectPort", Want: int64(9999), Wrong: wrongInt},
				fs("dial_options.authority", "DialOptions.Authority", "auth.example"),
				fd("dial_options.timeout", "DialOptions.Timeout", "6s"),
				fs("answlog.path", "AnswLog.Path", "/c17/grpc-answ.log"),
				fs("answlog.filter", "AnswLog.Filter", "error"),
				fb("shared-client.enabled", "SharedClient.Enabled", true),
				fi("shared-client.client-number", "SharedClient.ClientNumber", 5, 5),
				{Key: "target", Lit: "127.0.0.1:8888", Text: "127.0.0.1:8888", GoPath: "Target", Want: "127.0.0.1:8888", Wrong: wrongStr, Bad: []any{""}},
			}},
		{Name: "ammo/uri", Section: "ammo", Base: map[string]any{"type": "uri", "file": "/c17/ammo.uri"},
			ConfType: reflect.TypeOf(httpconf.Config{}), Default: func() any { return httpconf.Config{} },
			Component: func(ec engine.Config) (any, error) { return ec.Pools[0].Provider, nil },
			Fix: func(exp, got reflect.Value) {
				exp.FieldByName("File").SetString("/c17/ammo.uri")
				exp.FieldByName("Decoder").Set(got.FieldByName("Decoder"))
			},
			Fields: []field{
				{Key: "limit", Lit: 5, Text: "5", GoPath: "Limit", Want: uint(5), Wrong: wrongInt, Bad: []any{-1}},
				{Key: "passes", Lit: 3, Text: "3", GoPath: "Passes", Want: uint(3), Wrong: wrongInt, Bad: []any{-2}},
				fb("continueonerror", "ContinueOnError", true),
				fi("maxammosize", "MaxAmmoSize", 4096, 4096),
				fb("preload", "Preload", true),
				{Key: "headers", Lit: []any{"[A: b]", "[Host: h.example]"}, GoPath: "Headers", Want: []string{"[A: b]", "[Host: h.example]"}, Wrong: []any{"[A: b]", 5, map[string]any{"A": "b"}},
					// the documented form is "[Name: value]": an item that is not of that form spoils the
					// list wherever it stands in it
					Bad: []any{[]any{"no brackets: v"}, []any{"[NoColon]"}, []any{"[: v]"}, []any{""}, []any{"A: b", "[B: c]"}, []any{"[NoColon]", "[B: c]"}, []any{"[: v]", "[B: c]", "[C: d]"},
						[]any{"", "[B: c]"}, []any{"[A: b]", "oops", "[C: d]"}, []any{"[A: b]", "[B: c]", "[NoColon]"}}},
				{Key: "chosencases", Lit: []any{"t1", "t2"}, GoPath: "ChosenCases", Want: []string{"t1", "t2"}, Wrong: []any{"t1", 5, map[string]any{"A": "b"}}},
			}},
		{Name: "ammo/grpc/json", Section: "ammo", Base: map[string]any{"type": "grpc/json", "file": "/c17/ammo.grpc"},
			ConfType: reflect.TypeOf(grpcjson.Config{}), Default: func() any { return grpcjson.Config{} },
			Component: func(ec engine.Config) (any, error) { return ec.Pools[0].Provider, nil },
			Fix:       func(exp, got reflect.Value) { exp.FieldByName("File").SetString("/c17/ammo.grpc") },
			Fields: []field{
				fi("limit", "Limit", 5, 5, -1),
				fi("passes", "Passes", 3, 3, -1),
				fb("continueonerror", "ContinueOnError", true),
				fi("maxammosize", "MaxAmmoSize", 4096, 4096),
				{Key: "chosencases", Lit: []any{"t1"}, GoPath: "ChosenCases", Want: []string{"t1"}, Wrong: []any{"t1", 5}},
			}},
		{Name: "ammo/json", Section: "ammo", Base: map[string]any{"type": "json", "source": map[string]any{"type": "inline", "data": "{}"}},
			ConfType: reflect.TypeOf(provider.DecodeProviderConfig{}), Default: func() any { return provider.DefaultDecodeProviderConfig() },
			Component: func(ec engine.Config) (any, error) { return ec.Pools[0].Provider, nil },
			Fix:       func(exp, got reflect.Value) { exp.FieldByName("Source").Set(got.FieldByName("Source")) },
			Fields: []field{
				fi("limit", "Limit", 5, 5, -1),
				fi("passes", "Passes", 3, 3, -1),
				fi("ammo-queue-size", "Queue.AmmoQueueSize", 9, 9, 0, -1),
			}},
	}
}

func setGoPath(v reflect.Value, path string, want any) error {
	for _, p := range strings.Split(path, ".") {
		v = v.FieldByName(p)
		if !v.IsValid() {
			return fmt.Errorf("no field %s", path)
		}
	}
	w := reflect.ValueOf(want)
	if !w.Type().AssignableTo(v.Type()) {
		if w.Type().ConvertibleTo(v.Type()) {
			w = w.Convert(v.Type())
		} else {
			return fmt.Errorf("cannot set %s (%s) from %T", path, v.Type(), want)
		}
	}
	v.Set(w)
	return nil
}

// ---------------------------------------------------------------- part 3 + 4: defaults and placeholders

var envSeq int

type assignment struct {
	Key  string `json:"key"`
	How  string `json:"how"` // literal env property
	Text string `json:"value"`
}

func defaultsAndPlaceholders(res *vkit.Result, c comp, rng *rand.Rand, propFile string, props *[]string, usePlaceholders bool) {
	section := clone(c.Base).(map[string]any)
	exp := reflect.New(c.ConfType).Elem()
	exp.Set(reflect.ValueOf(c.Default()))
	var asg []assignment
	for _, f := range c.Fields {
		if rng.Intn(2) == 0 {
			continue
		}
		how := "literal"
		val := f.Lit
		if usePlaceholders && f.Text != "" {
			switch rng.Intn(3) {
			case 0:
				envSeq++
				name := fmt.Sprintf("VERIF_C17_%d", envSeq)
				if envSeq%3 == 0 {
					name = fmt.Sprintf("VERIF_C17(x86)+%d", envSeq) // what a variable name may hold besides letters
				}
				os.Setenv(name, f.Text)
				val = []string{"${env:" + name + "}", "${ENV:" + name + "}", "${" + name + "}", "${ env : " + name + " }"}[rng.Intn(4)]
				how = "env"
			case 1:
				envSeq++
				key := fmt.Sprintf("key%d", envSeq)
				// decoys first: the key as the tail of a longer key and inside another value
				*props = append(*props, "x"+key+"=DECOY-LONGER-KEY", fmt.Sprintf("url%d=http://h/?%s=DECOY-IN-VALUE", envSeq, key))
				*props = append(*props, key+"="+f.Text)
				_ = os.WriteFile(propFile, []byte(strings.Join(*props, "\n")+"\n"), 0o644)
				val = "${property:" + propFile + "#" + key + "}"
				how = "property"
			}
		}
		setPath(section, f.Key, val)
		if err := setGoPath(exp, f.GoPath, f.Want); err != nil {
			res.Inconclusive(true, "%s: %v", c.Name, err)
			return
		}
		asg = append(asg, assignment{f.Key, how, fmt.Sprint(val)})
	}
	cs := map[string]any{"component": c.Name, "set": asg}
	key := "C17/" + c.Name
	ec, stage, err := decodeFull(poolWith(c.Section, section))
	if err != nil {
		res.Violate(key+"/valid-config-rejected", fmt.Sprintf("a config that only sets documented fields to valid values was rejected at %s: %v", stage, err), cs)
		return
	}
	obj, err := c.Component(ec)
	if err != nil {
		res.Violate(key+"/valid-config-rejected", fmt.Sprintf("component construction failed: %v", err), cs)
		return
	}
	got, ok := findType(obj, c.ConfType)
	if !ok {
		res.Inconclusive(true, "%s: no %s inside %T", c.Name, c.ConfType, obj)
		return
	}
	got = readable(got)
	if c.Fix != nil {
		c.Fix(exp, got)
	}
	if df := vkit.Diff(got.Interface(), exp.Interface()); df != "" {
		sub := "/defaults-not-kept"
		for _, a := range asg {
			if a.How != "literal" {
				sub = "/placeholder-value"
			}
		}
		res.Violate(key+sub, "config held by the component vs registered default overlaid by the given keys: "+df, cs)
	}
	n := 0
	for _, a := range asg {
		if a.How != "literal" {
			n++
		}
	}
	res.Count("configs_compared_with_defaults", 1)
	res.Count("placeholder_fields_resolved", int64(n))
	res.Eval(vkit.JSON(cs), len(asg) > 0)
	if res.Counter("configs_compared_with_defaults") <= 2 {
		res.Sample(map[string]any{"part": "defaults/placeholders", "case": cs})
	}
}

// ---------------------------------------------------------------- part 2: wrong types, constraint violations, bad placeholders

func mustReject(res *vkit.Result, key, what string, conf map[string]any, cs any) {
	_, stage, err := decodeFull(conf)
	res.Count("rejections_expected", 1)
	if err == nil {
		res.Violate(key, what+" was accepted silently", cs)
	} else if stage == "panic" {
		res.Violate(key+"/panic", what+": "+err.Error(), cs)
	} else {
		res.Count("rejected_at/"+stage, 1)
	}
	res.Eval(vkit.JSON(cs), true)
}

// requiredKeys: a component section without one of its documented required keys (the key is
// simply left out, nothing else is wrong) must be rejected — also when nothing but `type` is left.
func requiredKeys(res *vkit.Result) {
	type rk struct {
		section string
		conf    map[string]any
		what    string
	}
	cases := []rk{
		{"gun", map[string]any{"type": "http"}, "http gun without target"},
		{"gun", map[string]any{"type": "http", "ssl": false}, "http gun without target (other keys present)"},
		{"gun", map[string]any{"type": "http2"}, "http2 gun without target"},
		{"gun", map[string]any{"type": "connect"}, "connect gun without target"},
		{"gun", map[string]any{"type": "http/scenario"}, "http/scenario gun without target"},
		{"result", map[string]any{"type": "jsonlines"}, "jsonlines without sink"},
		{"result", map[string]any{"type": "jsonlines", "sink": map[string]any{"type": "file"}}, "file sink without path"},
		{"ammo", map[string]any{"type": "json"}, "json provider without source"},
		{"ammo", map[string]any{"type": "json", "source": map[string]any{"type": "file"}}, "file source without path"},
		{"ammo", map[string]any{"type": "json", "source": map[string]any{"type": "inline"}}, "inline source without data"},
		{"rps", map[string]any{"type": "once"}, "once schedule without times (min=1)"},
		{"rps", map[string]any{"type": "const", "ops": 5}, "const schedule without duration (min-time=1ms)"},
		{"rps", map[string]any{"type": "line", "from": 1, "to": 2}, "line schedule without duration"},
		{"rps", map[string]any{"type": "step", "from": 1, "to": 2, "duration": "1s"}, "step schedule without step (min=1)"},
		{"rps", map[string]any{"type": "unlimited"}, "unlimited schedule without duration"},
		{"startup", map[string]any{"type": "instance_step", "from": 1, "to": 2, "stepduration": "1s"}, "instance_step without step (min=1)"},
	}
	for _, c := range cases {
		cs := map[string]any{"section": c.section, "conf": c.conf, "kind": "required key omitted"}
		mustReject(res, "C17/required-omitted/"+c.section+"/"+fmt.Sprint(c.conf["type"]), c.what, poolWith(c.section, clone(c.conf)), cs)
		res.Count("required_key_omissions", 1)
	}
	// whole pool sections left out
	for _, k := range []string{"ammo", "result", "gun", "rps", "startup"} {
		p := basePool()
		delete(p, k)
		cs := map[string]any{"section": "pool", "omitted": k, "kind": "required key omitted"}
		mustReject(res, "C17/required-omitted/pool/"+k, "pool without "+k, map[string]any{"pools": []any{p}}, cs)
		res.Count("required_key_omissions", 1)
	}
}

func wrongAndBad(res *vkit.Result, c comp, propFile string) {
	for _, f := range c.Fields {
		for _, wv := range f.Wrong {
			section := clone(c.Base).(map[string]any)
			setPath(section, f.Key, wv)
			cs := map[string]any{"component": c.Name, "key": f.Key, "value": wv, "kind": "wrong type"}
			mustReject(res, "C17/"+c.Name+"/wrong-type/"+f.Key, fmt.Sprintf("%s: %s = %v (%T, wrong type)", c.Name, f.Key, wv, wv), poolWith(c.Section, section), cs)
		}
		for _, bv := range f.Bad {
			section := clone(c.Base).(map[string]any)
			setPath(section, f.Key, bv)
			cs := map[string]any{"component": c.Name, "key": f.Key, "value": bv, "kind": "violates documented constraint"}
			mustReject(res, "C17/"+c.Name+"/constraint/"+f.Key, fmt.Sprintf("%s: %s = %v (violates the documented constraint)", c.Name, f.Key, bv), poolWith(c.Section, section), cs)
		}
		if f.Text == "" {
			continue
		}
		// placeholders that cannot be resolved
		os.Unsetenv("VERIF_C17_UNSET")
		bads := map[string]string{
			"unset env":     "${env:VERIF_C17_UNSET}",
			"missing file":  "${property:/c17/no/such/file.properties#k}",
			"missing key":   "${property:" + propFile + "#no_such_key}",
			"no key at all": "${property:" + propFile + "}",
			// the file has oauth_token=… and endpoint=…?region=eu but neither token nor region
			"key is only the tail of a longer key": "${property:" + propFile + "#token}",
			"key occurs only inside a value":       "${property:" + propFile + "#region}",
		}
		if _, isStr := f.Want.(string); isStr {
			// several placeholders in one value: one that cannot be resolved spoils the value
			// wherever it stands
			os.Setenv("VERIF_C17_SET", "seven")
			bads["unset env in front of a set one"] = "${env:VERIF_C17_UNSET}/x_${env:VERIF_C17_SET}"
			bads["unset env behind a set one"] = "${env:VERIF_C17_SET}/x_${env:VERIF_C17_UNSET}"
			bads["missing key in front of a set env"] = "${property:" + propFile + "#no_such_key} ${env:VERIF_C17_SET}"
			bads["unset env between two set ones"] = "${env:VERIF_C17_SET}${env:VERIF_C17_UNSET}${env:VERIF_C17_SET}"
		}
		for kind, ph := range bads {
			section := clone(c.Base).(map[string]any)
			setPath(section, f.Key, ph)
			cs := map[string]any{"component": c.Name, "key": f.Key, "value": ph, "kind": kind}
			mustReject(res, "C17/"+c.Name+"/placeholder-unresolved/"+kind, fmt.Sprintf("%s: %s = %s (%s)", c.Name, f.Key, ph, kind), poolWith(c.Section, section), cs)
		}
		// a resolved text that cannot be cast to the field's kind
		if _, isStr := f.Want.(string); !isStr {
			os.Setenv("VERIF_C17_GARBAGE", "certainly-not-a-number")
			section := clone(c.Base).(map[string]any)
			setPath(section, f.Key, "${env:VERIF_C17_GARBAGE}")
			cs := map[string]any{"component": c.Name, "key": f.Key, "value": "${env:VERIF_C17_GARBAGE}=certainly-not-a-number", "kind": "uncastable"}
			mustReject(res, "C17/"+c.Name+"/placeholder-uncastable/"+f.Key, fmt.Sprintf("%s: %s resolved to text that is not a %T", c.Name, f.Key, f.Want), poolWith(c.Section, section), cs)
		}
	}
}

// schedules keep no config: literal vs placeholder configs must give the same number of
// tokens, and constraint violations must be rejected.
type schedCase struct {
	Conf  map[string]any
	Texts map[string]string // key → textual value for the placeholder variant
	Bad   map[string][]any
}

func schedules(res *vkit.Result, rng *rand.Rand) {
	cases := []schedCase{
		{Conf: map[string]any{"type": "const", "ops": 20, "duration": "2s"}, Texts: map[string]string{"ops": "20", "duration": "2s"},
			Bad: map[string][]any{"ops": {-1, "x", true}, "duration": {"0s", "100us", "-1s", "soon", true}}},
		{Conf: map[string]any{"type": "const", "ops": 2.5, "duration": "2s"}, Texts: map[string]string{"ops": "2.5"}},
		{Conf: map[string]any{"type": "line", "from": 1, "to": 9, "duration": "2s"}, Texts: map[string]string{"from": "1", "to": "9", "duration": "2s"},
			Bad: map[string][]any{"from": {-1, "a"}, "to": {-0.5, []any{1}}, "duration": {"0", "999us"}}},
		{Conf: map[string]any{"type": "step", "from": 2, "to": 6, "step": 2, "duration": "1s"}, Texts: map[string]string{"from": "2", "to": "6", "step": "2", "duration": "1s"},
			Bad: map[string][]any{"from": {-1}, "to": {-1}, "step": {0, -2, "x"}, "duration": {"0s"}}},
		{Conf: map[string]any{"type": "once", "times": 7}, Texts: map[string]string{"times": "7"}, Bad: map[string][]any{"times": {0, -3, "many", true}}},
		{Conf: map[string]any{"type": "instance_step", "from": 1, "to": 5, "step": 2, "stepduration": "1s"}, Texts: map[string]string{"from": "1", "to": "5", "step": "2", "stepduration": "1s"},
			Bad: map[string][]any{"from": {-1}, "to": {-1}, "step": {0}, "stepduration": {"0s", "10us"}}},
		{Conf: map[string]any{"type": "unlimited", "duration": "3s"}, Texts: map[string]string{"duration": "3s"}, Bad: map[string][]any{"duration": {"0s", "1us", 1.5e40}}},
	}
	for _, sc := range cases {
		for _, section := range []string{"rps", "startup"} {
			name := fmt.Sprintf("schedule/%s/%v", section, sc.Conf["type"])
			left := func(conf any) (int, error) {
				ec, stage, err := decodeFull(poolWith(section, conf))
				if err != nil {
					return 0, fmt.Errorf("%s: %w", stage, err)
				}
				if section == "startup" {
					return ec.Pools[0].StartupSchedule.Left(), nil
				}
				s, err := ec.Pools[0].NewRPSSchedule()
				if err != nil {
					return 0, err
				}
				return s.Left(), nil
			}
			want, err := left(clone(sc.Conf))
			cs := map[string]any{"component": name, "conf": sc.Conf}
			if err != nil {
				res.Violate("C17/"+name+"/valid-config-rejected", fmt.Sprintf("valid schedule rejected: %v", err), cs)
				continue
			}
			ph := clone(sc.Conf).(map[string]any)
			for k, txt := range sc.Texts {
				envSeq++
				nm := fmt.Sprintf("VERIF_C17_%d", envSeq)
				os.Setenv(nm, txt)
				ph[k] = "${env:" + nm + "}"
			}
			got, err := left(ph)
			if err != nil {
				res.Violate("C17/"+name+"/placeholder-value", fmt.Sprintf("the same schedule with its values given as ${env:…} placeholders is rejected: %v", err), map[string]any{"component": name, "conf": ph, "texts": sc.Texts})
			} else if got != want {
				res.Violate("C17/"+name+"/placeholder-value", fmt.Sprintf("schedule from literals has %d tokens, from placeholders %d", want, got), map[string]any{"component": name, "conf": ph, "texts": sc.Texts})
			}
			res.Count("schedules_compared", 1)
			res.Eval(vkit.JSON(cs)+section, true)
			for k, bads := range sc.Bad {
				for _, bv := range bads {
					bc := clone(sc.Conf).(map[string]any)
					bc[k] = bv
					cs := map[string]any{"component": name, "key": k, "value": bv, "kind": "wrong type or constraint"}
					mustReject(res, "C17/"+name+"/constraint/"+k, fmt.Sprintf("%s: %s = %v", name, k, bv), poolWith(section, bc), cs)
				}
			}
		}
	}
	// list of schedules → composite
	list := []any{map[string]any{"type": "once", "times": 3}, map[string]any{"type": "const", "ops": 10, "duration": "1s"}}
	ec, stage, err := decodeFull(poolWith("rps", list))
	if err != nil {
		res.Violate("C17/schedule/list/valid-config-rejected", fmt.Sprintf("a list of schedules was rejected at %s: %v", stage, err), list)
	} else if s, serr := ec.Pools[0].NewRPSSchedule(); s == nil || s.Left() != 13 {
		l := -999
		_ = serr
		if s != nil {
			l = s.Left()
		}
		res.Violate("C17/schedule/list/composite", fmt.Sprintf("a list of schedules [once 3, const 10×1s] does not give a composite of 13 tokens (Left() = %d, %T, err %v)", l, s, serr), list)
	}
}

// ---------------------------------------------------------------- part 1: unknown keys everywhere

var freeForm = map[string]bool{"reflect_metadata": true, "variables": true, "metadata": true}

type insertion struct {
	Path []string
	Kind string
	Key  string
}

// walkMaps calls f for every map node of a config (path = keys / list indexes).
func walkMaps(v any, path []string, f func(m map[string]any, path []string)) {
	switch x := v.(type) {
	case map[string]any:
		f(x, path)
		keys := make([]string, 0, len(x))
		for k := range x {
			keys = append(keys, k)
		}
		sort.Strings(keys)
		for _, k := range keys {
			if freeForm[k] {
				continue
			}
			walkMaps(x[k], append(append([]string{}, path...), k), f)
		}
	case []any:
		for i, e := range x {
			walkMaps(e, append(append([]string{}, path...), fmt.Sprintf("[%d]", i)), f)
		}
	}
}

func at(v any, path []string) any {
	for _, p := range path {
		switch x := v.(type) {
		case map[string]any:
			v = x[p]
		case []any:
			var i int
			fmt.Sscanf(p, "[%d]", &i)
			v = x[i]
		}
	}
	return v
}

func corpus(auxDir string) []map[string]any {
	pool := func(over map[string]any) map[string]any {
		p := basePool()
		for k, v := range over {
			p[k] = v
		}
		return p
	}
	fullGun := func(t string) map[string]any {
		g := map[string]any{"type": t, "target": "127.0.0.1:8080"}
		for _, f := range httpGunFields() {
			if f.Key != "target" {
				setPath(g, f.Key, f.Lit)
			}
		}
		return g
	}
	var out []map[string]any
	add := func(top map[string]any, pools ...map[string]any) {
		ps := []any{}
		for _, p := range pools {
			ps = append(ps, p)
		}
		c := map[string]any{"pools": ps}
		for k, v := range top {
			c[k] = v
		}
		out = append(out, c)
	}
	add(map[string]any{"log": map[string]any{"level": "error", "file": "stderr"},
		"monitoring": map[string]any{"expvar": map[string]any{"enabled": false, "port": 1234}, "cpuprofile": map[string]any{"enabled": false, "file": "c.log"}, "memprofile": map[string]any{"enabled": false, "file": "m.log"}}},
		pool(map[string]any{"gun": fullGun("http"), "rps-per-instance": true, "discard_overflow": false,
			"ammo":    map[string]any{"type": "uri", "file": "/c17/ammo.uri", "limit": 3, "passes": 2, "headers": []any{"[A: b]"}, "preload": true, "chosencases": []any{"t"}, "continueonerror": true, "maxammosize": 1000},
			"result":  map[string]any{"type": "phout", "destination": "/c17/o.phout", "id": true, "flush-time": "1s", "sample-queue-size": 100, "buffer-size": "8KB"},
			"rps":     []any{map[string]any{"type": "line", "from": 1, "to": 5, "duration": "2s"}, map[string]any{"type": "const", "ops": 5, "duration": "1s"}, map[string]any{"type": "step", "from": 1, "to": 3, "step": 1, "duration": "1s"}},
			"startup": map[string]any{"type": "instance_step", "from": 1, "to": 3, "step": 1, "stepduration": "1s"}}))
	add(nil, pool(map[string]any{"gun": fullGun("connect"),
		"ammo":    map[string]any{"type": "raw", "file": "/c17/ammo.raw", "middlewares": []any{map[string]any{"type": "header/date", "location": "UTC", "headerName": "Date"}}},
		"result":  map[string]any{"type": "jsonlines", "sink": map[string]any{"type": "file", "path": "/c17/o.jsonl"}, "buffer-size": 1024, "flush-interval": "1s", "sample-queue-size": 10, "marshal-float-with-6-digits": true, "sort-map-keys": true},
		"rps":     map[string]any{"type": "composite", "nested": []any{map[string]any{"type": "once", "times": 2}, map[string]any{"type": "unlimited", "duration": "1s"}}},
		"startup": []any{map[string]any{"type": "once", "times": 2}, map[string]any{"type": "const", "ops": 1, "duration": "2s"}}}),
		pool(map[string]any{"id": "second", "gun": map[string]any{"type": "http2", "target": "127.0.0.1:8443"},
			"ammo":   map[string]any{"type": "uripost", "file": "/c17/ammo.uripost"},
			"result": map[string]any{"type": "json", "sink": "stdout"}}))
	add(nil, pool(map[string]any{"gun": map[string]any{"type": "grpc", "target": "127.0.0.1:8888", "timeout": "2s", "tls": false, "reflect_port": 8889, "reflect_metadata": map[string]any{"k": "v"},
		"dial_options": map[string]any{"authority": "a", "timeout": "1s"}, "answlog": map[string]any{"enabled": false, "path": "/c17/a.log", "filter": "all"}, "shared-client": map[string]any{"enabled": true, "client-number": 2}},
		"ammo":   map[string]any{"type": "grpc/json", "file": "/c17/ammo.grpc", "limit": 2, "passes": 1, "continueonerror": true, "maxammosize": 100, "chosencases": []any{"x"}},
		"result": map[string]any{"type": "log"}}))
	add(nil, pool(map[string]any{"gun": fullGun("http/scenario"),
		"ammo":   map[string]any{"type": "http/scenario", "file": "/c17/scn.yaml", "limit": 2, "passes": 1},
		"result": map[string]any{"type": "discard"}}),
		pool(map[string]any{"id": "g", "gun": map[string]any{"type": "grpc/scenario", "target": "127.0.0.1:8888", "timeout": "1s"},
			"ammo": map[string]any{"type": "grpc/scenario", "file": "/c17/gscn.yaml"}}))
	add(nil, pool(map[string]any{"ammo": map[string]any{"type": "http/json", "file": "/c17/ammo.jsonl", "passes": 1},
		"result": map[string]any{"type": "jsonlines", "sink": map[string]any{"type": "stderr"}}}),
		pool(map[string]any{"id": "j", "ammo": map[string]any{"type": "json", "source": map[string]any{"type": "file", "path": "/c17/ammo.jsonl"}, "limit": 1, "passes": 1, "ammo-queue-size": 4, "buffer-size": "4KB"}}),
		pool(map[string]any{"id": "k", "ammo": map[string]any{"type": "json", "source": map[string]any{"type": "inline", "data": "{}"}}}),
		pool(map[string]any{"id": "d", "ammo": map[string]any{"type": "dummy"}}))
	_ = auxDir
	return out
}

func unknownKeys(res *vkit.Result, auxDir string) {
	for ci, conf := range corpus(auxDir) {
		if _, stage, err := decodeFull(conf); err != nil {
			res.Violate(fmt.Sprintf("C17/corpus/%d/valid-config-rejected", ci), fmt.Sprintf("corpus config rejected at %s: %v", stage, err), conf)
			continue
		}
		res.Count("corpus_configs", 1)
		// factories are called once per instance: a valid config must stay valid for every call
		if ec, _, err := decodeFull(conf); err == nil {
			for pi, p := range ec.Pools {
				for k := 2; k <= 4; k++ {
					if _, err := p.NewGun(); err != nil {
						res.Violate("C17/corpus/factory-call-again/gun", fmt.Sprintf("corpus %d pool %d: NewGun call %d of a valid config failed: %v", ci, pi, k, err), conf)
						break
					}
					if _, err := p.NewRPSSchedule(); err != nil {
						res.Violate("C17/corpus/factory-call-again/rps", fmt.Sprintf("corpus %d pool %d: NewRPSSchedule call %d of a valid config failed: %v", ci, pi, k, err), conf)
						break
					}
					res.Count("repeated_factory_calls", 2)
				}
			}
		}
		var ins []insertion
		walkMaps(conf, nil, func(m map[string]any, path []string) {
			ins = append(ins, insertion{Path: path, Kind: "unknown", Key: "zz_unknown_key"})
			// the same key written without a value ("zz_unknown_key:" / "~" / "null" in YAML)
			ins = append(ins, insertion{Path: path, Kind: "unknown-null", Key: "zz_unknown_key"})
			keys := make([]string, 0, len(m))
			for k := range m {
				keys = append(keys, k)
			}
			sort.Strings(keys)
			for _, k := range keys {
				if k != "type" {
					ins = append(ins, insertion{Path: path, Kind: "misspelled", Key: k})
				}
			}
		})
		for _, in := range ins {
			c := clone(conf).(map[string]any)
			m := at(c, in.Path).(map[string]any)
			desc := ""
			if in.Kind == "unknown" {
				m[in.Key] = 1
				desc = fmt.Sprintf("unknown key %q inserted at /%s", in.Key, strings.Join(in.Path, "/"))
			} else if in.Kind == "unknown-null" {
				m[in.Key] = nil
				desc = fmt.Sprintf("unknown key %q without a value (null) inserted at /%s", in.Key, strings.Join(in.Path, "/"))
			} else {
				// one-letter misspelling: the value moves to the misspelled key
				m[in.Key+"x"] = m[in.Key]
				delete(m, in.Key)
				desc = fmt.Sprintf("key %q misspelled as %q at /%s", in.Key, in.Key+"x", strings.Join(in.Path, "/"))
			}
			section := "top"
			if len(in.Path) >= 3 {
				section = in.Path[2]
				if t, ok := at(conf, in.Path[:3]).(map[string]any); ok {
					section += "/" + fmt.Sprint(t["type"])
				}
			} else if len(in.Path) == 2 {
				section = "pool"
			}
			cs := map[string]any{"corpus": ci, "path": "/" + strings.Join(in.Path, "/"), "kind": in.Kind, "key": in.Key}
			res.Count("key_insertions/"+in.Kind, 1)
			mustReject(res, "C17/unknown-key/"+section+"/"+in.Kind, desc, c, cs)
			if res.Counter("key_insertions/unknown") == 3 && in.Kind == "unknown" {
				res.Sample(map[string]any{"part": "unknown key", "case": cs})
			}
		}
	}
}

// ---------------------------------------------------------------- part 5: the real binary

func runBinary(bin string, dir string, conf map[string]any, wait time.Duration) (exit int, out string) {
	b, _ := yaml.Marshal(conf)
	cf := filepath.Join(dir, fmt.Sprintf("load-%d.yaml", time.Now().UnixNano()))
	_ = os.WriteFile(cf, b, 0o644)
	cmd := exec.Command(bin, cf)
	cmd.Dir = dir
	var buf bytes.Buffer
	cmd.Stdout, cmd.Stderr = &buf, &buf
	cmd.Env = append(os.Environ(), "GORACE=")
	if err := cmd.Start(); err != nil {
		return -1, err.Error()
	}
	done := make(chan error, 1)
	go func() { done <- cmd.Wait() }()
	select {
	case <-done:
	case <-time.After(wait):
		_ = cmd.Process.Kill()
		<-done
		return -2, buf.String()
	}
	return cmd.ProcessState.ExitCode(), buf.String()
}

var slowSeen sync.Map

func binaryChecks(res *vkit.Result, bin string) {
	dir, err := os.MkdirTemp(vkit.TmpDir(), "c17bin")
	if err != nil {
		res.Inconclusive(true, "tmp: %v", err)
		return
	}
	defer os.RemoveAll(dir)
	// slow target: first request takes 2.6 s, the rest answer at once
	var n atomic.Int64
	ln, err := net.Listen("tcp", "127.0.0.1:0")
	if err != nil {
		res.Inconclusive(true, "listen: %v", err)
		return
	}
	srv := &http.Server{Handler: http.HandlerFunc(func(w http.ResponseWriter, r *http.Request) {
		first := n.Add(1) == 1
		if strings.HasPrefix(r.URL.Path, "/pool") {
			// several pools: the first request of every pool is the slow one
			_, seen := slowSeen.LoadOrStore(strings.SplitN(r.URL.Path, "/", 3)[1], true)
			first = !seen
		}
		if first {
			time.Sleep(2600 * time.Millisecond)
		}
		w.WriteHeader(200)
	})}
	go func() { _ = srv.Serve(ln) }()
	defer srv.Close()
	ammo := filepath.Join(dir, "ammo.uri")
	_ = os.WriteFile(ammo, []byte("/a\n/b\n"), 0o644)
	mk := func(out string, extra map[string]any) map[string]any {
		p := map[string]any{"id": "p", "gun": map[string]any{"type": "http", "target": ln.Addr().String()},
			"ammo":   map[string]any{"type": "uri", "file": ammo},
			"result": map[string]any{"type": "phout", "destination": out},
			"rps":    map[string]any{"type": "const", "ops": 10, "duration": "4s"}, "startup": map[string]any{"type": "once", "times": 1}}
		for k, v := range extra {
			p[k] = v
		}
		return map[string]any{"pools": []any{p}, "log": map[string]any{"level": "error"}}
	}
	type r struct {
		name      string
		extra     map[string]any
		discarded int
		lines     int
		exit      int
		out       string
	}
	runs := []*r{{name: "absent"}, {name: "false", extra: map[string]any{"discard_overflow": false}}, {name: "true", extra: map[string]any{"discard_overflow": true}}}
	for _, x := range runs {
		n.Store(0)
		outF := filepath.Join(dir, "phout-"+x.name+".log")
		x.exit, x.out = runBinary(bin, dir, mk(outF, x.extra), 60*time.Second)
		b, _ := os.ReadFile(outF)
		for _, l := range strings.Split(string(b), "\n") {
			if l == "" {
				continue
			}
			x.lines++
			if strings.Contains(l, "\tdiscarded\t") {
				x.discarded++
			}
		}
		res.Count("binary_runs", 1)
	}
	cs := map[string]any{}
	for _, x := range runs {
		cs["discard_overflow "+x.name] = map[string]any{"exit": x.exit, "lines": x.lines, "discarded": x.discarded}
	}
	for _, x := range runs {
		if x.exit != 0 || x.lines == 0 {
			res.Inconclusive(true, "binary run %s: exit %d, %d lines: %s", x.name, x.exit, x.lines, tail(x.out, 800))
			return
		}
	}
	if runs[0].discarded == 0 {
		res.Violate("C17/discard_overflow/default", fmt.Sprintf("discard_overflow absent: a 2.6 s stall against a 10 rps profile produced no discarded lines (%d lines); with discard_overflow: true there are %d", runs[0].lines, runs[2].discarded), cs)
	}
	if runs[1].discarded != 0 {
		res.Violate("C17/discard_overflow/false", fmt.Sprintf("discard_overflow: false produced %d discarded lines", runs[1].discarded), cs)
	}
	if runs[2].discarded == 0 {
		res.Inconclusive(true, "discard_overflow: true produced no discarded lines; the scenario does not exercise the window")
	}
	res.Eval("binary/discard_overflow", true)
	res.Sample(map[string]any{"part": "binary discard_overflow", "observed": cs})
	// several pools: the default applies to every pool that leaves the key out, wherever it stands
	for _, layout := range [][]string{{"false", "absent"}, {"absent", "false", "absent"}, {"true", "absent"}} {
		var pools []any
		var outs []string
		for i, mode := range layout {
			am := filepath.Join(dir, fmt.Sprintf("ammo-%d.uri", i))
			_ = os.WriteFile(am, []byte(fmt.Sprintf("/pool%d/a\n/pool%d/b\n", i, i)), 0o644)
			outF := filepath.Join(dir, fmt.Sprintf("multi-%s-%d.log", strings.Join(layout, "_"), i))
			outs = append(outs, outF)
			p := map[string]any{"id": fmt.Sprintf("p%d", i), "gun": map[string]any{"type": "http", "target": ln.Addr().String()},
				"ammo": map[string]any{"type": "uri", "file": am}, "result": map[string]any{"type": "phout", "destination": outF},
				"rps": map[string]any{"type": "const", "ops": 10, "duration": "4s"}, "startup": map[string]any{"type": "once", "times": 1}}
			if mode != "absent" {
				p["discard_overflow"] = mode == "true"
			}
			pools = append(pools, p)
		}
		slowSeen = sync.Map{}
		exit, out := runBinary(bin, dir, map[string]any{"pools": pools, "log": map[string]any{"level": "error"}}, 90*time.Second)
		res.Count("binary_runs", 1)
		if exit != 0 {
			res.Inconclusive(true, "multi-pool binary run %v: exit %d: %s", layout, exit, tail(out, 600))
			continue
		}
		obs := map[string]any{}
		for i, mode := range layout {
			b, _ := os.ReadFile(outs[i])
			disc := strings.Count(string(b), "\tdiscarded\t")
			lines := strings.Count(string(b), "\n")
			obs[fmt.Sprintf("pool %d (%s)", i, mode)] = map[string]int{"lines": lines, "discarded": disc}
			cs := map[string]any{"layout": layout, "pool": i}
			switch {
			case lines == 0:
				res.Inconclusive(true, "multi-pool run %v: pool %d wrote nothing", layout, i)
			case mode == "false" && disc != 0:
				res.Violate("C17/discard_overflow/false", fmt.Sprintf("pools %v: pool %d has discard_overflow: false but %d discarded lines", layout, i, disc), cs)
			case mode != "false" && disc == 0:
				res.Violate("C17/discard_overflow/default-multi-pool", fmt.Sprintf("pools with discard_overflow %v: pool %d (%s) produced no discarded lines although its first response took 2.6 s against a 10 rps profile (%d lines)", layout, i, mode, lines), cs)
			}
		}
		res.Eval("binary/multi-pool/"+strings.Join(layout, ","), true)
		res.Sample(map[string]any{"part": "binary discard_overflow, several pools", "layout": layout, "observed": obs})
	}
	// unknown keys through the CLI's own reader (viper)
	for _, path := range [][]string{{}, {"pools", "[0]"}, {"pools", "[0]", "gun"}, {"pools", "[0]", "ammo"}, {"pools", "[0]", "result"}, {"pools", "[0]", "rps"}, {"pools", "[0]", "startup"}, {"log"}} {
		c := mk(filepath.Join(dir, "x.log"), nil)
		c["pools"].([]any)[0].(map[string]any)["rps"] = map[string]any{"type": "once", "times": 1}
		at(c, path).(map[string]any)["zz_unknown_key"] = 1
		exit, out := runBinary(bin, dir, c, 30*time.Second)
		cs := map[string]any{"path": "/" + strings.Join(path, "/"), "exit": exit}
		if exit == 0 {
			res.Violate("C17/binary/unknown-key", fmt.Sprintf("pandora ran to the end (exit 0) with an unknown key at /%s", strings.Join(path, "/")), cs)
		} else if !strings.Contains(out, "zz_unknown_key") && !strings.Contains(out, "invalid keys") {
			res.Violate("C17/binary/unknown-key-not-named", fmt.Sprintf("pandora exited with %d but does not mention the unknown key: %s", exit, tail(out, 500)), cs)
		}
		res.Count("binary_runs", 1)
		res.Eval("binary/unknown/"+strings.Join(path, "/"), true)
	}
}

func tail(s string, n int) string {
	if len(s) > n {
		return s[len(s)-n:]
	}
	return s
}

// placeholderRefresh: a placeholder names a source, not a value: the same ${env:…} or
// ${property:…} text decoded again after its source has changed must give the new value, and
// must be rejected once the variable or key is gone.
func placeholderRefresh(res *vkit.Result, dir string) {
	read := func(ph string) (time.Duration, error) {
		ec, _, err := decodeFull(poolWith("gun", map[string]any{"type": "http", "target": "127.0.0.1:8080", "dial": map[string]any{"timeout": ph}}))
		if err != nil {
			return 0, err
		}
		g, err := ec.Pools[0].NewGun()
		if err != nil {
			return 0, err
		}
		v, ok := findType(g, reflect.TypeOf(phttp.GunConfig{}))
		if !ok {
			return 0, fmt.Errorf("no config in %T", g)
		}
		return readable(v).Interface().(phttp.GunConfig).Client.Dialer.Timeout, nil
	}
	propFile := filepath.Join(dir, "refresh.properties")
	type step struct {
		set  string // "" = remove the variable / key
		want time.Duration
	}
	steps := []step{{"3s", 3 * time.Second}, {"9s", 9 * time.Second}, {"9s", 9 * time.Second}, {"", 0}, {"4s", 4 * time.Second}}
	for _, how := range []string{"env", "property"} {
		ph := "${env:VERIF_C17_REFRESH}"
		if how == "property" {
			ph = "${property:" + propFile + "#refresh.key}"
		}
		for i, st := range steps {
			if how == "env" {
				if st.set == "" {
					os.Unsetenv("VERIF_C17_REFRESH")
				} else {
					os.Setenv("VERIF_C17_REFRESH", st.set)
				}
			} else {
				content := "other=1\n"
				if st.set != "" {
					content += "refresh.key=" + st.set + "\n"
				}
				_ = os.WriteFile(propFile, []byte(content), 0o644)
			}
			cs := map[string]any{"placeholder": ph, "step": i, "source_now": st.set, "history": steps[:i+1]}
			got, err := read(ph)
			switch {
			case st.set == "" && err == nil:
				res.Violate("C17/placeholder-refresh/"+how+"/gone-accepted", fmt.Sprintf("the %s behind the placeholder no longer exists, yet the config was accepted with dial.timeout = %v", how, got), cs)
			case st.set != "" && err != nil:
				res.Violate("C17/placeholder-refresh/"+how+"/valid-config-rejected", fmt.Sprintf("rejected: %v", err), cs)
			case st.set != "" && got != st.want:
				res.Violate("C17/placeholder-refresh/"+how+"/stale-value", fmt.Sprintf("dial.timeout decoded as %v, the %s now says %s", got, how, st.set), cs)
			}
			res.Count("placeholder_refresh_steps", 1)
			res.Eval("placeholder-refresh/"+how+"/"+fmt.Sprint(i), true)
		}
	}
	os.Unsetenv("VERIF_C17_REFRESH")
	// names of environment variables are case-sensitive: a placeholder that differs from a set
	// variable only in letter case names an unset variable
	os.Setenv("VERIF_C17_CASE", "6s")
	for _, name := range []string{"verif_c17_case", "Verif_C17_Case", "VERIF_C17_CASe"} {
		cs := map[string]any{"placeholder": "${env:" + name + "}", "set": "VERIF_C17_CASE=6s"}
		if got, err := read("${env:" + name + "}"); err == nil {
			res.Violate("C17/placeholder-refresh/env/other-case-accepted", fmt.Sprintf("no variable %s is set, yet the config was accepted with dial.timeout = %v", name, got), cs)
		}
		res.Eval("placeholder-case/"+name, true)
	}
	if got, err := read("${env:VERIF_C17_CASE}"); err != nil || got != 6*time.Second {
		res.Violate("C17/placeholder-refresh/env/valid-config-rejected", fmt.Sprintf("dial.timeout %v, err %v", got, err), map[string]any{"placeholder": "${env:VERIF_C17_CASE}"})
	}
	os.Unsetenv("VERIF_C17_CASE")
}

// concurrentFactories: with rps-per-instance, and for guns registered as plain constructors, the
// pool's factories decode their config section again on every call, from the goroutine of the
// instance being started — many at once when instances are released together. Every product
// must carry the configured values, none may be rejected.
func concurrentFactories(res *vkit.Result, rounds int) {
	ec, stage, err := decodeFull(map[string]any{"pools": []any{map[string]any{
		"id": "p", "ammo": map[string]any{"type": "grpc/json", "file": "/c17/ammo.grpc"}, "result": map[string]any{"type": "discard"},
		"gun":              map[string]any{"type": "grpc", "target": "127.0.0.1:8888", "timeout": "4s", "tls": true, "dial_options": map[string]any{"authority": "auth.example", "timeout": "6s"}},
		"rps-per-instance": true,
		"rps":              []any{map[string]any{"type": "line", "from": 1, "to": 9, "duration": "1s"}, map[string]any{"type": "const", "ops": 7, "duration": "2s"}},
		"startup":          map[string]any{"type": "once", "times": 16},
	}}})
	cs := map[string]any{"gun": "grpc with timeout 4s, tls, authority", "rps": "[line 1→9 1s, const 7 2s] per instance", "goroutines": 16}
	if err != nil {
		res.Violate("C17/concurrent-factories/valid-config-rejected", fmt.Sprintf("rejected at %s: %v", stage, err), cs)
		return
	}
	pool := ec.Pools[0]
	var mu sync.Mutex
	problems := map[string]string{}
	note := func(k, v string) {
		mu.Lock()
		if problems[k] == "" {
			problems[k] = v
		}
		mu.Unlock()
	}
	products := int64(0)
	for r := 0; r < rounds; r++ {
		var wg sync.WaitGroup
		start := make(chan struct{})
		for g := 0; g < 16; g++ {
			wg.Add(1)
			go func(g int) {
				defer wg.Done()
				defer func() {
					if p := recover(); p != nil {
						note("panic", fmt.Sprint(p))
					}
				}()
				<-start
				if g%2 == 0 {
					gun, err := pool.NewGun()
					if err != nil {
						note("gun-rejected", err.Error())
						return
					}
					v, ok := findType(gun, reflect.TypeOf(grpcgun.GunConfig{}))
					if !ok {
						note("gun-config", fmt.Sprintf("no config in %T", gun))
						return
					}
					c := readable(v).Interface().(grpcgun.GunConfig)
					if c.Target != "127.0.0.1:8888" || c.Timeout != 4*time.Second || !c.TLS || c.DialOptions.Authority != "auth.example" || c.DialOptions.Timeout != 6*time.Second {
						note("gun-config", fmt.Sprintf("%+v", c))
					}
				} else {
					sch, err := pool.NewRPSSchedule()
					if err != nil {
						note("rps-rejected", err.Error())
						return
					}
					if l := sch.Left(); l != 5+14 {
						note("rps-profile", fmt.Sprintf("Left() = %d, the section describes 5 + 14 tokens", l))
					}
				}
				atomic.AddInt64(&products, 1)
			}(g)
		}
		close(start)
		wg.Wait()
	}
	for k, v := range problems {
		res.Violate("C17/concurrent-factories/"+k, "a product created while 15 other factory calls were running: "+v, cs)
	}
	res.Count("products_created_concurrently", products)
	res.Eval("concurrent-factories", true)
}

func main() {
	// The property resolver and answlog read and write the real filesystem.
	vkit.Fs()
	res := vkit.NewResult("corpus of valid configs touching every registered gun, provider, aggregator, sink/source, schedule (incl. list → composite) and middleware; unknown key and one-letter misspelling at every map path (exhaustive over paths); per-component field tables: wrong types, documented-constraint violations, unresolvable/uncastable placeholders (exhaustive over the tables); random subsets of fields given as literals / ${env:…} / ${property:file#key} compared with the registered default overlaid by the subset, on the config the constructed component really holds; schedules compared by token count; discard_overflow and unknown keys through the real binary. distinct = distinct (component, keys, values); non-trivial = at least one key set or inserted")
	rng := vkit.Rand("c17")
	// the property file lives under a directory whose name is made of what file names may hold
	aux, err := os.MkdirTemp(vkit.TmpDir(), "c17aux+user@host (x86)~")
	if err != nil {
		res.Inconclusive(true, "tmp: %v", err)
		res.Write()
		return
	}
	defer os.RemoveAll(aux)
	propFile := filepath.Join(aux, "verif.properties")
	props := []string{"# properties", "unrelated=1", "oauth_token=s3cr3t", "endpoint=https://api.example/?region=eu&x=1"}
	_ = os.WriteFile(propFile, []byte(strings.Join(props, "\n")+"\n"), 0o644)
	for _, f := range []string{"/c17/ammo.uri", "/c17/ammo.raw", "/c17/ammo.uripost", "/c17/ammo.grpc"} {
		_ = vkit.WriteMemAt(f, []byte(""))
	}
	_ = vkit.WriteMemAt("/c17/ammo.jsonl", []byte(`{"host": "h", "method": "GET", "uri": "/x", "tag": "t", "headers": {"A": "b"}}`+"\n"))
	_ = vkit.WriteMemAt("/c17/scn.yaml", []byte("requests:\n  - name: r\n    method: GET\n    uri: /\n    headers: {}\nscenarios:\n  - name: s\n    requests: [r]\n"))
	_ = vkit.WriteMemAt("/c17/gscn.yaml", []byte("calls:\n  - name: c\n    call: target.TargetService.Hello\n    payload: '{}'\nscenarios:\n  - name: s\n    requests: [c]\n"))

	unknownKeys(res, aux)
	placeholderRefresh(res, aux)
	concurrentFactories(res, vkit.N(150, 3000))
	requiredKeys(res)
	for _, c := range comps() {
		wrongAndBad(res, c, propFile)
		for i, n := 0, vkit.N(25, 600); i < n; i++ {
			defaultsAndPlaceholders(res, c, rng, propFile, &props, i%2 == 1)
		}
		// the empty subset: pure defaults
		defaultsAndPlaceholders(res, c, rand.New(rand.NewSource(0)), propFile, &props, false)
		documentedDefaults(res, c)
	}
	schedules(res, rng)
	if bin := os.Getenv("VERIF_PANDORA_BIN"); bin != "" {
		binaryChecks(res, bin)
	} else {
		res.Inconclusive(true, "no pandora binary")
	}
	if res.Counter("key_insertions/unknown") < 50 || res.Counter("configs_compared_with_defaults") < 100 || res.Counter("placeholder_fields_resolved") < 100 {
		res.Inconclusive(true, "too little observed")
	}
	_ = json.Marshal
	res.Write()
}
