// C06 — Result completeness: every reported sample is written once, well-formed, flushed.
//
// Three layers, all against the real aggregators built through the config path:
//  1. aggregator level: G goroutines report unique samples to the real phout / jsonlines
//     aggregator on the in-memory fs; the context is cancelled at a seeded position after the
//     last Report returned; the output is parsed by an independent strict parser and compared
//     with what was reported (exactly once, field by field); drops of the bounded-queue
//     aggregator must be counted exactly in the Run error.
//  2. engine level: a full pool (real engine, schedule, phout) ends normally or is cancelled at
//     a seeded instant: lines = reports (normal end) / completed-before-cancel ≤ lines ≤ started.
//  3. process level: the real pandora binary shoots at an in-process target and is stopped with
//     SIGINT / SIGTERM at a seeded instant; every line must be well-formed and every request
//     the target had answered before the signal (minus one in flight per instance) must be in
//     the file when the process has exited.
package main

import (
	"context"
	"encoding/json"
	"errors"
	"fmt"
	"io"
	"math/rand"
	"net"
	"net/http"
	"os"
	"os/exec"
	"path/filepath"
	"reflect"
	"regexp"
	"runtime"
	"strconv"
	"strings"
	"sync"
	"sync/atomic"
	"syscall"
	"time"

	"github.com/spf13/afero"
	"github.com/yandex/pandora/core"
	"github.com/yandex/pandora/core/aggregator"
	"github.com/yandex/pandora/core/aggregator/netsample"
	"github.com/yandex/pandora/core/engine"
	"github.com/yandex/pandora/core/schedule"

	"verif/harness/vkit"
)

// ---------------------------------------------------------------- strict phout parser

var phoutLine = regexp.MustCompile(`^[0-9]+\.[0-9]{3}\t[^\t\n]*(\t-?[0-9]+){10}$`)

type phoutRec struct {
	Ms     int64
	Tag    string // the whole second column
	Fields [10]int64
}

// parsePhout returns the records and a description of the first malformed line ("" if none).
func parsePhout(data []byte) ([]phoutRec, string) {
	if len(data) == 0 {
		return nil, ""
	}
	if data[len(data)-1] != '\n' {
		tail := data
		if len(tail) > 120 {
			tail = tail[len(tail)-120:]
		}
		return nil, fmt.Sprintf("output does not end with a newline (truncated last line): …%q", tail)
	}
	lines := strings.Split(string(data[:len(data)-1]), "\n")
	recs := make([]phoutRec, 0, len(lines))
	for i, l := range lines {
		if !phoutLine.MatchString(l) {
			return recs, fmt.Sprintf("line %d is not a phout line: %q", i+1, l)
		}
		cols := strings.Split(l, "\t")
		var r phoutRec
		ts := strings.Replace(cols[0], ".", "", 1)
		r.Ms, _ = strconv.ParseInt(ts, 10, 64)
		r.Tag = cols[1]
		for k := 0; k < 10; k++ {
			v, err := strconv.ParseInt(cols[2+k], 10, 64)
			if err != nil {
				return recs, fmt.Sprintf("line %d field %d: %v", i+1, k, err)
			}
			r.Fields[k] = v
		}
		recs = append(recs, r)
	}
	return recs, ""
}

// ---------------------------------------------------------------- sample generation

type wantSample struct {
	ID       uint64
	Tag      string
	Fields   [10]int64 // documented order: rtt connect send latency receive interval_event size_out size_in net proto
	BeforeMs int64
	AfterMs  int64
}

var fieldVals = []int64{0, 0, 1, -1, 7, 200, 404, 999, 110, 65535, 1<<31 - 1, -(1 << 31), 123456789012, 8999999999999}

var tagAlphabet = []string{"a", "B", "7", " ", "|", "#", "_", "-", ".", "/", "?", "=", "é", "ж", "\"", "\\", "'", "%", "{", "}"}

func genTag(rng *rand.Rand) string {
	n := 1 + rng.Intn(10)
	var b strings.Builder
	for i := 0; i < n; i++ {
		b.WriteString(tagAlphabet[rng.Intn(len(tagAlphabet))])
	}
	return b.String()
}

// makeSample acquires a real netsample and fills every settable field.
func makeSample(rng *rand.Rand, id uint64, tag string) (*netsample.Sample, wantSample) {
	w := wantSample{ID: id, Tag: tag}
	for k := range w.Fields {
		w.Fields[k] = fieldVals[rng.Intn(len(fieldVals))]
	}
	w.Fields[5] = 0 // interval_event has no setter
	w.BeforeMs = time.Now().UnixNano() / 1e6
	s := netsample.Acquire(tag)
	w.AfterMs = time.Now().UnixNano() / 1e6
	s.SetID(id)
	us := func(v int64) time.Duration { return time.Duration(v) * time.Microsecond }
	s.SetUserDuration(us(w.Fields[0]))
	s.SetConnectTime(us(w.Fields[1]))
	s.SetSendTime(us(w.Fields[2]))
	s.SetLatency(us(w.Fields[3]))
	s.SetReceiveTime(us(w.Fields[4]))
	s.SetRequestBytes(int(w.Fields[6]))
	s.SetResponseBytes(int(w.Fields[7]))
	s.SetUserNet(int(w.Fields[8]))
	s.SetUserProto(int(w.Fields[9]))
	return s, w
}

// ---------------------------------------------------------------- building real aggregators

var fileSeq atomic.Int64

func tmpName(ext string) string {
	return fmt.Sprintf("/c06/out-%d%s", fileSeq.Add(1), ext)
}

// realAggregator decodes a pool through the config path and returns its aggregator.
func realAggregator(result map[string]any) (core.Aggregator, error) {
	ammo := vkit.WriteMem([]byte("/x\n"))
	defer vkit.RemoveMem(ammo)
	ec, err := vkit.DecodePools(map[string]any{"pools": []any{map[string]any{
		"id": "p", "ammo": map[string]any{"type": "uri", "file": ammo}, "result": result,
		"gun": map[string]any{"type": "http", "target": "127.0.0.1:1"},
		"rps": map[string]any{"type": "once", "times": 1}, "startup": map[string]any{"type": "once", "times": 1}}}})
	if err != nil {
		return nil, err
	}
	return ec.Pools[0].Aggregator, nil
}

// ---------------------------------------------------------------- layer 1: phout

type phoutCase struct {
	G        int   `json:"goroutines"`
	K        int   `json:"samples_each"`
	Queue    int   `json:"queue"`
	WithID   bool  `json:"id"`
	Buffer   int   `json:"buffer_bytes"`
	CancelUs int   `json:"cancel_after_last_report_us"` // −1: Gosched only, 0: immediately
	LateRun  bool  `json:"run_started_after_first_reports"`
	Pad      int   `json:"pad_bytes,omitempty"`   // boundary sweeps: every tag is padded to this length
	GapMs    int   `json:"idle_gap_ms,omitempty"` // every goroutine pauses this long after its first third of reports
	// FlushTime: phout's flush-time option as written in the config ("" = left out)
	FlushTime string `json:"flush_time,omitempty"`
	Seed      int64  `json:"seed"`
}

func cancelDelay(us int) {
	switch {
	case us < 0:
		runtime.Gosched()
	case us == 0:
	default:
		time.Sleep(time.Duration(us) * time.Microsecond)
	}
}

func phoutOnce(res *vkit.Result, c phoutCase) {
	rng := rand.New(rand.NewSource(c.Seed))
	dest := tmpName(".phout")
	defer vkit.RemoveMem(dest)
	conf := map[string]any{"type": "phout", "destination": dest, "id": c.WithID, "sample-queue-size": c.Queue}
	if c.Buffer > 0 {
		conf["buffer-size"] = fmt.Sprintf("%dB", c.Buffer)
	}
	if c.FlushTime != "" {
		conf["flush-time"] = c.FlushTime
	}
	aggr, err := realAggregator(conf)
	if err != nil {
		res.Inconclusive(true, "phout config rejected: %v", err)
		return
	}
	total := c.G * c.K
	if c.LateRun && c.Queue < total {
		c.LateRun = false
	}
	ctx, cancel := context.WithCancel(context.Background())
	defer cancel()
	runErr := make(chan error, 1)
	start := func() {
		go func() {
			defer func() {
				if r := recover(); r != nil {
					runErr <- fmt.Errorf("Run panicked: %v", r)
				}
			}()
			runErr <- aggr.Run(ctx, core.AggregatorDeps{Log: vkit.NopLog()})
		}()
	}
	if !c.LateRun {
		start()
	}
	wants := make([][]wantSample, c.G)
	var wg sync.WaitGroup
	for g := 0; g < c.G; g++ {
		grng := rand.New(rand.NewSource(rng.Int63()))
		wg.Add(1)
		go func(g int) {
			defer wg.Done()
			for k := 0; k < c.K; k++ {
				id := uint64(g*1000000 + k + 1)
				tag := genTag(grng)
				if c.Pad > 0 {
					tag = strings.Repeat("p", c.Pad)
				}
				if !c.WithID {
					tag = fmt.Sprintf("%s~%d", tag, id) // make the line identify its report ('~' is not in the tag alphabet)
				}
				if c.GapMs > 0 && k == c.K/3+1 {
					// nothing is reported for longer than the aggregator's idle-flush period
					time.Sleep(time.Duration(c.GapMs) * time.Millisecond)
				}
				s, w := makeSample(grng, id, tag)
				wants[g] = append(wants[g], w)
				aggr.Report(s)
				if grng.Intn(8) == 0 {
					runtime.Gosched()
				}
			}
		}(g)
	}
	if c.LateRun {
		wg.Wait()
		start()
	} else {
		reported := make(chan struct{})
		go func() { wg.Wait(); close(reported) }()
		select {
		case <-reported:
		case e := <-runErr:
			// the aggregator gave up while its pool was still reporting and nobody had cancelled it
			res.Violate("C06/phout/run-ended-early", fmt.Sprintf("phout Run ended (%v) while samples were still being reported and its context had not been cancelled", e), c)
			return
		}
	}
	// every Report has returned: the pool "finishes" now
	cancelDelay(c.CancelUs)
	cancel()
	var rerr error
	select {
	case rerr = <-runErr:
	case <-time.After(20 * time.Second):
		res.Violate("C06/phout/run-hang", "phout Run did not return within 20 s after its context was cancelled", c)
		return
	}
	data, _ := afero.ReadFile(vkit.Fs(), dest)
	judgePhout(res, "C06/phout", c, c.WithID, wants, data, rerr)
	res.Count("phout_runs", 1)
	res.Count("phout_reports", int64(total))
	res.Eval(vkit.JSON(c), total > 0)
}

func judgePhout(res *vkit.Result, key string, c any, withID bool, wants [][]wantSample, data []byte, rerr error) {
	total := 0
	byKey := map[string]wantSample{}
	for _, ws := range wants {
		for _, w := range ws {
			total++
			col := w.Tag
			if withID {
				col = fmt.Sprintf("%s#%d", w.Tag, w.ID)
			}
			byKey[col] = w
		}
	}
	if rerr != nil {
		res.Violate(key+"/run-error", fmt.Sprintf("aggregator Run returned %v after a clean cancel", rerr), c)
	}
	recs, bad := parsePhout(data)
	if bad != "" {
		res.Violate(key+"/malformed", bad, c)
		return
	}
	if len(recs) != total {
		res.Violate(key+"/count", fmt.Sprintf("%d samples were reported before the end, the output has %d lines", total, len(recs)), c)
	}
	seen := map[string]int{}
	for _, r := range recs {
		seen[r.Tag]++
		w, ok := byKey[r.Tag]
		if !ok {
			res.Violate(key+"/unknown-line", fmt.Sprintf("output line with tag column %q corresponds to no reported sample", r.Tag), c)
			continue
		}
		if seen[r.Tag] > 1 {
			res.Violate(key+"/duplicate", fmt.Sprintf("sample %q written %d times", r.Tag, seen[r.Tag]), c)
			continue
		}
		if r.Fields != w.Fields {
			res.Violate(key+"/fields", fmt.Sprintf("sample %q reported with fields %v (rtt connect send latency receive interval size_out size_in net proto), written as %v", r.Tag, w.Fields, r.Fields), c)
		}
		if r.Ms < w.BeforeMs || r.Ms > w.AfterMs {
			res.Violate(key+"/timestamp", fmt.Sprintf("sample %q created between %d and %d ms, written with time %d.%03d", r.Tag, w.BeforeMs, w.AfterMs, r.Ms/1000, r.Ms%1000), c)
		}
		res.Count("phout_lines_judged", 1)
	}
}

// ---------------------------------------------------------------- layer 1: jsonlines

type jsSample struct {
	ID   int               `json:"id"`
	Tag  string            `json:"tag"`
	Vals []int64           `json:"vals"`
	F    float64           `json:"f"`
	M    map[string]string `json:"m,omitempty"`
	OK   bool              `json:"ok"`
}

type slowSink struct {
	mu    sync.Mutex
	buf   []byte
	delay time.Duration
	closd int
}

type slowWC struct{ s *slowSink }

func (w slowWC) Write(p []byte) (int, error) {
	if w.s.delay > 0 {
		time.Sleep(w.s.delay)
	}
	w.s.mu.Lock()
	w.s.buf = append(w.s.buf, p...)
	w.s.mu.Unlock()
	return len(p), nil
}
func (w slowWC) Close() error { w.s.mu.Lock(); w.s.closd++; w.s.mu.Unlock(); return nil }

type jsCase struct {
	G        int   `json:"goroutines"`
	K        int   `json:"samples_each"`
	Queue    int   `json:"queue"`
	FlushMs  int   `json:"flush_interval_ms"`
	FlushUs  int   `json:"flush_interval_us,omitempty"` // >0: a flush interval of microseconds (ticks all the time, also while the run is being cancelled)
	Buffer   int   `json:"buffer_bytes"`
	SlowUs   int   `json:"slow_sink_us"` // >0: direct construction with a slow sink (drops certain)
	CancelUs int   `json:"cancel_after_last_report_us"`
	Pad      int   `json:"pad_bytes,omitempty"` // boundary sweeps: fixed-size samples
	GapMs    int   `json:"idle_gap_ms,omitempty"`
	Seed     int64 `json:"seed"`
}

func jsonlinesOnce(res *vkit.Result, c jsCase) {
	rng := rand.New(rand.NewSource(c.Seed))
	var aggr core.Aggregator
	var readOut func() []byte
	var closedOK func() bool
	if c.SlowUs > 0 {
		ss := &slowSink{delay: time.Duration(c.SlowUs) * time.Microsecond}
		conf := aggregator.DefaultJSONLinesAggregatorConfig()
		conf.Sink = coreSink{ss}
		conf.ReporterConfig.SampleQueueSize = c.Queue
		conf.FlushInterval = time.Duration(c.FlushMs) * time.Millisecond
		if c.FlushUs > 0 {
			conf.FlushInterval = time.Duration(c.FlushUs) * time.Microsecond
		}
		if c.Buffer > 0 {
			conf.BufferSize = c.Buffer
		}
		aggr = aggregator.NewJSONLinesAggregator(conf)
		readOut = func() []byte { ss.mu.Lock(); defer ss.mu.Unlock(); return append([]byte(nil), ss.buf...) }
		closedOK = func() bool { ss.mu.Lock(); defer ss.mu.Unlock(); return ss.closd == 1 }
	} else {
		dest := tmpName(".jsonl")
		defer vkit.RemoveMem(dest)
		conf := map[string]any{"type": "jsonlines", "sink": map[string]any{"type": "file", "path": dest},
			"sample-queue-size": c.Queue, "flush-interval": fmt.Sprintf("%dms", c.FlushMs)}
		if c.FlushUs > 0 {
			conf["flush-interval"] = fmt.Sprintf("%dus", c.FlushUs)
		}
		if c.Buffer > 0 {
			conf["buffer-size"] = c.Buffer
		}
		var err error
		aggr, err = realAggregator(conf)
		if err != nil {
			res.Inconclusive(true, "jsonlines config rejected: %v", err)
			return
		}
		readOut = func() []byte { b, _ := afero.ReadFile(vkit.Fs(), dest); return b }
		closedOK = func() bool { return true }
	}
	ctx, cancel := context.WithCancel(context.Background())
	defer cancel()
	runErr := make(chan error, 1)
	go func() { runErr <- aggr.Run(ctx, core.AggregatorDeps{Log: vkit.NopLog()}) }()
	reported := map[int]jsSample{}
	var mu sync.Mutex
	var wg sync.WaitGroup
	for g := 0; g < c.G; g++ {
		grng := rand.New(rand.NewSource(rng.Int63()))
		wg.Add(1)
		go func(g int) {
			defer wg.Done()
			for k := 0; k < c.K; k++ {
				s := jsSample{ID: g*1000000 + k + 1, Tag: genTag(grng) + "\t\n<&> ", F: float64(grng.Intn(1<<20)) / 8, OK: grng.Intn(2) == 0}
				for i := grng.Intn(4); i > 0; i-- {
					s.Vals = append(s.Vals, fieldVals[grng.Intn(len(fieldVals))])
				}
				if grng.Intn(3) == 0 && c.Pad == 0 {
					s.M = map[string]string{genTag(grng): genTag(grng)}
				}
				if c.GapMs > 0 && k == c.K/3+1 {
					time.Sleep(time.Duration(c.GapMs) * time.Millisecond)
				}
				mu.Lock()
				reported[s.ID] = s
				mu.Unlock()
				cp := s
				aggr.Report(&cp)
				if grng.Intn(6) == 0 {
					runtime.Gosched()
				}
			}
		}(g)
	}
	wg.Wait()
	cancelDelay(c.CancelUs)
	cancel()
	var rerr error
	select {
	case rerr = <-runErr:
	case <-time.After(60 * time.Second):
		res.Violate("C06/jsonlines/run-hang", "jsonlines Run did not return within 60 s after its context was cancelled", c)
		return
	}
	data := readOut()
	key := "C06/jsonlines"
	total := c.G * c.K
	lines := 0
	seen := map[int]int{}
	if len(data) > 0 && data[len(data)-1] != '\n' {
		res.Violate(key+"/malformed", "output does not end with a newline (truncated last line)", c)
		return
	}
	if len(data) > 0 {
		for i, l := range strings.Split(string(data[:len(data)-1]), "\n") {
			lines++
			var got jsSample
			dec := json.NewDecoder(strings.NewReader(l))
			dec.DisallowUnknownFields()
			if err := dec.Decode(&got); err != nil {
				res.Violate(key+"/malformed", fmt.Sprintf("line %d is not one valid JSON value of the sample: %v: %q", i+1, err, l), c)
				continue
			}
			if dec.More() {
				res.Violate(key+"/malformed", fmt.Sprintf("line %d holds more than one JSON value: %q", i+1, l), c)
			}
			want, ok := reported[got.ID]
			if !ok {
				res.Violate(key+"/unknown-line", fmt.Sprintf("line %d (id %d) corresponds to no reported sample", i+1, got.ID), c)
				continue
			}
			seen[got.ID]++
			if seen[got.ID] > 1 {
				res.Violate(key+"/duplicate", fmt.Sprintf("sample %d written %d times", got.ID, seen[got.ID]), c)
			}
			if !reflect.DeepEqual(got, want) {
				res.Violate(key+"/value", fmt.Sprintf("sample reported as %+v, line decodes to %+v", want, got), c)
			}
		}
	}
	dropped := int64(total - lines)
	var de *aggregator.SomeSamplesDropped
	switch {
	case dropped < 0:
		res.Violate(key+"/count", fmt.Sprintf("%d reports, %d lines", total, lines), c)
	case dropped == 0:
		if rerr != nil {
			res.Violate(key+"/run-error", fmt.Sprintf("every sample was written but Run returned %v", rerr), c)
		}
	default:
		if !errors.As(rerr, &de) {
			// the multierror path: look at the text
			if rerr == nil || !strings.Contains(rerr.Error(), fmt.Sprintf("%d samples were dropped", dropped)) {
				res.Violate(key+"/drops-not-counted", fmt.Sprintf("%d reports, %d lines: %d samples are missing, Run returned %v (want '%d samples were dropped')", total, lines, dropped, rerr, dropped), c)
			}
		} else if de.Dropped != dropped || rerr.Error() != fmt.Sprintf("%d samples were dropped", dropped) {
			res.Violate(key+"/drops-not-counted", fmt.Sprintf("%d reports, %d lines: %d samples are missing, Run returned %q", total, lines, dropped, rerr.Error()), c)
		}
		res.Count("jsonlines_runs_with_drops", 1)
		res.Count("jsonlines_dropped", dropped)
	}
	if !closedOK() {
		res.Violate(key+"/not-closed", "the sink was not closed exactly once when Run returned", c)
	}
	res.Count("jsonlines_runs", 1)
	res.Count("jsonlines_reports", int64(total))
	res.Count("jsonlines_lines_judged", int64(lines))
	res.Eval(vkit.JSON(c), total > 0)
}

// jsonlinesNetSamples: the samples the HTTP and gRPC guns report (netsample.Sample, with tags and
// error texts full of quotes, backslashes, line breaks and control characters — `Get "http://h/p":
// EOF` is what a transport failure looks like) into the real jsonlines aggregator: whatever the
// aggregator writes for such a sample, it is one line holding one valid JSON value per report.
func jsonlinesNetSamples(res *vkit.Result) {
	dest := tmpName(".jsonl")
	defer vkit.RemoveMem(dest)
	c := map[string]any{"aggregator": "jsonlines", "samples": "netsample.Sample with hostile tags and error texts", "goroutines": 4, "samples_each": 60}
	aggr, err := realAggregator(map[string]any{"type": "jsonlines", "sink": map[string]any{"type": "file", "path": dest}, "flush-interval": "5ms"})
	if err != nil {
		res.Inconclusive(true, "jsonlines config rejected: %v", err)
		return
	}
	ctx, cancel := context.WithCancel(context.Background())
	defer cancel()
	runErr := make(chan error, 1)
	go func() { runErr <- aggr.Run(ctx, core.AggregatorDeps{Log: vkit.NopLog()}) }()
	hostile := []string{`plain`, `quo"te`, `back\slash`, "line\nbreak", "tab\there", "ctl\x01\x1f", `Get "http://127.0.0.1:1/fail": EOF`,
		`malformed HTTP response "\x00\x01garbage"`, `{"json":"inside"}`, "юникод ☃", `trailing\`, `"`, ``}
	var wg sync.WaitGroup
	for g := 0; g < 4; g++ {
		wg.Add(1)
		go func(g int) {
			defer wg.Done()
			for k := 0; k < 60; k++ {
				s := netsample.Acquire(hostile[(g+k)%len(hostile)])
				s.SetID(uint64(g*1000 + k + 1))
				s.SetProtoCode(200)
				if k%2 == 0 {
					s.SetErr(errors.New(hostile[(g*7+k)%len(hostile)]))
				}
				s.AddTag(hostile[(k+3)%len(hostile)])
				aggr.Report(s)
			}
		}(g)
	}
	wg.Wait()
	cancel()
	select {
	case <-runErr:
	case <-time.After(60 * time.Second):
		res.Violate("C06/jsonlines/run-hang", "jsonlines Run did not return within 60 s after its context was cancelled", c)
		return
	}
	data, _ := afero.ReadFile(vkit.Fs(), dest)
	if len(data) == 0 || data[len(data)-1] != '\n' {
		res.Violate("C06/jsonlines/net-samples/malformed", fmt.Sprintf("240 reports: the output is empty or does not end with a newline (%d bytes)", len(data)), c)
		return
	}
	lines := strings.Split(string(data[:len(data)-1]), "\n")
	for i, l := range lines {
		dec := json.NewDecoder(strings.NewReader(l))
		var v any
		if err := dec.Decode(&v); err != nil || dec.More() {
			res.Violate("C06/jsonlines/net-samples/malformed", fmt.Sprintf("line %d is not one valid JSON value (%v): %q", i+1, err, l), c)
			break
		}
	}
	if len(lines) != 240 {
		res.Violate("C06/jsonlines/net-samples/count", fmt.Sprintf("240 reports, %d lines", len(lines)), c)
	}
	res.Count("jsonlines_net_sample_lines", int64(len(lines)))
	res.Eval(vkit.JSON(c), true)
}

// ---------------------------------------------------------------- layer 2: engine level

type repGun struct {
	aggr      core.Aggregator
	st        *engState
	rng       *rand.Rand
	inst      int
	shotDelay time.Duration
	stallAt   int64 // the stallAt-th shot of the run takes stallFor
	stallFor  time.Duration
}

type engState struct {
	mu        sync.Mutex
	wants     []wantSample
	started   atomic.Int64
	completed atomic.Int64
	seq       atomic.Uint64
}

func (g *repGun) Bind(a core.Aggregator, deps core.GunDeps) error {
	g.aggr = a
	g.inst = deps.InstanceID
	return nil
}

func (g *repGun) Shoot(core.Ammo) {
	if g.shotDelay > 0 {
		time.Sleep(g.shotDelay)
	}
	id := g.st.seq.Add(1)
	if g.stallAt > 0 && int64(id) == g.stallAt {
		time.Sleep(g.stallFor)
	}
	s, w := makeSample(g.rng, id, fmt.Sprintf("i%d", g.inst))
	g.st.mu.Lock()
	g.st.wants = append(g.st.wants, w)
	g.st.mu.Unlock()
	g.st.started.Add(1)
	g.aggr.Report(s)
	g.st.completed.Add(1)
}

type engCase struct {
	Instances int `json:"instances"`
	Tokens    int `json:"tokens"`
	ShotUs    int `json:"shot_us"`
	Queue     int `json:"queue"`
	CancelAt  int `json:"cancel_after_reports"` // 0 = run to the end
	// Discard > 0: discard_overflow on and a const schedule of Tokens tokens per second for 1 s that
	// was started Discard ms ago, so the first tokens are ≥ 2 s late (discarded), the rest are fired.
	Discard int `json:"discard_prestart_ms,omitempty"`
	// TailStallMs > 0: discard_overflow on, a const schedule of Tokens per second for 1 s started
	// now, and the shot number Tokens/5 takes TailStallMs (> 3 s): every request after it is more
	// than 2 s late, so the run ENDS in a burst of discarded requests — the last things reported
	// before the aggregator is told to stop.
	TailStallMs int `json:"tail_stall_ms,omitempty"`
	// Ammo > 0: the run ends because the ammo runs out (Ammo items, per-instance unlimited RPS) while
	// the startup profile — Instances at once, then 10 more per second for RampMs — is still
	// releasing instances; every second gun is slow, so shots are in flight at that moment.
	Ammo   int   `json:"ammo,omitempty"`
	RampMs int   `json:"startup_ramp_ms,omitempty"`
	Seed   int64 `json:"seed"`
}

func engineOnce(res *vkit.Result, c engCase) {
	dest := tmpName(".phout")
	defer vkit.RemoveMem(dest)
	aggr, err := realAggregator(map[string]any{"type": "phout", "destination": dest, "id": true, "sample-queue-size": c.Queue})
	if err != nil {
		res.Inconclusive(true, "phout config rejected: %v", err)
		return
	}
	st := &engState{}
	var gunSeq atomic.Int64
	prov := &vkit.MockProvider{Items: -1, FailAfter: -1}
	pool := engine.InstancePoolConfig{ID: "p", Provider: prov, Aggregator: aggr,
		NewGun: func() (core.Gun, error) {
			return &repGun{st: st, rng: rand.New(rand.NewSource(c.Seed + gunSeq.Add(1))), shotDelay: time.Duration(c.ShotUs) * time.Microsecond}, nil
		},
		NewRPSSchedule:  func() (core.Schedule, error) { return schedule.NewOnce(int64(c.Tokens)), nil },
		StartupSchedule: schedule.NewOnce(int64(c.Instances))}
	if c.Ammo > 0 {
		prov.Items = c.Ammo
		c.Tokens = c.Ammo
		pool.NewRPSSchedule = func() (core.Schedule, error) { return schedule.NewUnlimited(time.Hour), nil }
		pool.RPSPerInstance = true
		pool.StartupSchedule = schedule.NewComposite(schedule.NewOnce(int64(c.Instances)), schedule.NewConst(10, time.Duration(c.RampMs)*time.Millisecond))
		pool.NewGun = func() (core.Gun, error) {
			n := gunSeq.Add(1)
			return &repGun{st: st, rng: rand.New(rand.NewSource(c.Seed + n)), shotDelay: time.Duration(c.ShotUs) * time.Microsecond * time.Duration(n%2)}, nil
		}
	}
	if c.Discard > 0 {
		shared := schedule.NewConst(float64(c.Tokens), time.Second)
		shared.Start(time.Now().Add(-time.Duration(c.Discard) * time.Millisecond))
		pool.NewRPSSchedule = func() (core.Schedule, error) { return shared, nil }
		pool.DiscardOverflow = true
	}
	if c.TailStallMs > 0 {
		shared := schedule.NewConst(float64(c.Tokens), time.Second)
		pool.NewRPSSchedule = func() (core.Schedule, error) { return shared, nil }
		pool.DiscardOverflow = true
		pool.NewGun = func() (core.Gun, error) {
			return &repGun{st: st, rng: rand.New(rand.NewSource(c.Seed + gunSeq.Add(1))), shotDelay: time.Duration(c.ShotUs) * time.Microsecond,
				stallAt: int64(c.Tokens / 5), stallFor: time.Duration(c.TailStallMs) * time.Millisecond}, nil
		}
	}
	eng := engine.New(vkit.NopLog(), vkit.NewMetrics(), engine.Config{Pools: []engine.InstancePoolConfig{pool}})
	ctx, cancel := context.WithCancel(context.Background())
	defer cancel()
	done := make(chan error, 1)
	go func() { done <- eng.Run(ctx) }()
	var completedAtCancel int64 = -1
	if c.CancelAt > 0 {
		for st.completed.Load() < int64(c.CancelAt) {
			select {
			case err := <-done:
				done <- err
				goto ended
			default:
				runtime.Gosched()
			}
		}
		completedAtCancel = st.completed.Load()
		cancel()
	}
ended:
	var rerr error
	select {
	case rerr = <-done:
	case <-time.After(30 * time.Second):
		res.Violate("C06/engine/run-hang", "Engine.Run did not return within 30 s", c)
		return
	}
	wd := make(chan struct{})
	go func() { eng.Wait(); close(wd) }()
	select {
	case <-wd:
	case <-time.After(30 * time.Second):
		res.Violate("C06/engine/wait-hang", "Engine.Wait did not return within 30 s", c)
		return
	}
	data, _ := afero.ReadFile(vkit.Fs(), dest)
	recs, bad := parsePhout(data)
	if bad != "" {
		res.Violate("C06/engine/malformed", bad, c)
		return
	}
	started, completed := st.started.Load(), st.completed.Load()
	if completedAtCancel < 0 {
		if rerr != nil {
			res.Violate("C06/engine/run-error", fmt.Sprintf("normal run returned %v", rerr), c)
		}
		if c.Discard > 0 || c.TailStallMs > 0 {
			// every token is one line: a shot line of the gun, or a 'discarded' line with net code 777
			disc := 0
			var shots []phoutRec
			for _, r := range recs {
				if strings.HasPrefix(r.Tag, "discarded#") {
					disc++
					if r.Fields[8] != 777 {
						res.Violate("C06/engine/discarded-line", fmt.Sprintf("discarded line written with net code %d, want 777: %v", r.Fields[8], r), c)
					}
				} else {
					shots = append(shots, r)
				}
			}
			if int64(len(shots)) != completed || int64(disc)+completed != int64(c.Tokens) {
				res.Violate("C06/engine/discard-count", fmt.Sprintf("%d tokens, the gun reported %d shots: the output has %d shot lines and %d 'discarded' lines (want %d and %d)", c.Tokens, completed, len(shots), disc, completed, int64(c.Tokens)-completed), c)
			}
			res.Count("engine_runs_discard", 1)
			res.Count("engine_discarded_lines", int64(disc))
			recs = shots
		} else if int64(len(recs)) != completed || completed != int64(c.Tokens) {
			res.Violate("C06/engine/count", fmt.Sprintf("run ended normally: %d tokens, %d reports made, %d lines in the output after Engine.Run returned", c.Tokens, completed, len(recs)), c)
		}
		res.Count("engine_runs_normal", 1)
	} else {
		if int64(len(recs)) < completedAtCancel {
			res.Violate("C06/engine/cancel-lost", fmt.Sprintf("%d reports had returned when the run was cancelled, only %d lines are in the output after Engine.Wait (reports ever started: %d)", completedAtCancel, len(recs), started), c)
		}
		if int64(len(recs)) > started {
			res.Violate("C06/engine/count", fmt.Sprintf("%d lines for %d reports", len(recs), started), c)
		}
		res.Count("engine_runs_cancelled", 1)
	}
	// exactly once + field fidelity for what is there
	byID := map[string]wantSample{}
	st.mu.Lock()
	for _, w := range st.wants {
		byID[fmt.Sprintf("%s#%d", w.Tag, w.ID)] = w
	}
	st.mu.Unlock()
	seen := map[string]bool{}
	for _, r := range recs {
		w, ok := byID[r.Tag]
		if !ok || seen[r.Tag] {
			res.Violate("C06/engine/duplicate-or-unknown", fmt.Sprintf("line %q unknown or written twice", r.Tag), c)
			continue
		}
		seen[r.Tag] = true
		if w.Fields != r.Fields {
			res.Violate("C06/engine/fields", fmt.Sprintf("sample %q reported %v written %v", r.Tag, w.Fields, r.Fields), c)
		}
	}
	res.Count("engine_lines_judged", int64(len(recs)))
	res.Eval(vkit.JSON(c), true)
}

// ---------------------------------------------------------------- layer 3: process level

type procCase struct {
	Signal    string `json:"signal"`
	AfterMs   int    `json:"signal_after_first_request_ms"`
	Instances int    `json:"instances"`
	Aggr      string `json:"aggregator"`
	Procs     int    `json:"gomaxprocs"` // 0 = default
	SlowPipe  bool   `json:"result_to_slow_pipe"`
	Idx       int    `json:"idx"`
}

type countTarget struct {
	ln   net.Listener
	srv  *http.Server
	seen atomic.Int64
	Addr string
}

func newCountTarget() (*countTarget, error) {
	ln, err := net.Listen("tcp", "127.0.0.1:0")
	if err != nil {
		return nil, err
	}
	t := &countTarget{ln: ln, Addr: ln.Addr().String()}
	t.srv = &http.Server{Handler: http.HandlerFunc(func(w http.ResponseWriter, r *http.Request) {
		t.seen.Add(1)
		w.WriteHeader(200)
	})}
	go func() { _ = t.srv.Serve(ln) }()
	return t, nil
}

func processOnce(res *vkit.Result, bin string, c procCase) {
	tgt, err := newCountTarget()
	if err != nil {
		res.Inconclusive(true, "target: %v", err)
		return
	}
	defer tgt.srv.Close()
	dir, err := os.MkdirTemp(vkit.TmpDir(), "c06proc")
	if err != nil {
		res.Inconclusive(true, "tmp: %v", err)
		return
	}
	defer os.RemoveAll(dir)
	out := filepath.Join(dir, "phout.log")
	ammo := filepath.Join(dir, "ammo.uri")
	_ = os.WriteFile(ammo, []byte("/a taga\n/b tagb\n"), 0o644)
	// Injected delay: the result destination is a named pipe whose reader (this monitor)
	// stops reading for a while once the signal was sent, so the aggregator's final flush
	// blocks in write(2). A process that exits without waiting for the flush then loses
	// the data for certain instead of only when it loses a 100 µs race.
	var pipeData []byte
	pipeDone := make(chan struct{})
	var pipeStall atomic.Bool
	var ownW *os.File
	if c.SlowPipe {
		if err := syscall.Mkfifo(out, 0o600); err != nil {
			res.Inconclusive(true, "mkfifo: %v", err)
			return
		}
		rd, err := os.OpenFile(out, os.O_RDONLY|syscall.O_NONBLOCK, 0)
		if err != nil {
			res.Inconclusive(true, "open fifo: %v", err)
			return
		}
		ownW, err = os.OpenFile(out, os.O_WRONLY, 0)
		if err != nil {
			res.Inconclusive(true, "open fifo for writing: %v", err)
			return
		}
		go func() {
			defer close(pipeDone)
			defer rd.Close()
			buf := make([]byte, 64<<10)
			stalled := false
			for {
				if !stalled && pipeStall.Load() {
					stalled = true
					time.Sleep(500 * time.Millisecond)
				}
				n, err := rd.Read(buf)
				pipeData = append(pipeData, buf[:n]...)
				if err != nil {
					return
				}
			}
		}()
	}
	var closeOnce sync.Once
	closePipe := func() {
		closeOnce.Do(func() {
			if ownW != nil {
				ownW.Close()
				<-pipeDone
			}
		})
	}
	defer closePipe()
	conf := fmt.Sprintf(`pools:
  - id: "p"
    gun: {type: "http", target: "%s"}
    ammo: {type: "uri", file: "%s"}
    result: {type: "phout", destination: "%s", id: true}
    rps: {type: "unlimited", duration: "120s"}
    startup: {type: "once", times: %d}
log: {level: "error"}
`, tgt.Addr, ammo, out, c.Instances)
	cf := filepath.Join(dir, "load.yaml")
	_ = os.WriteFile(cf, []byte(conf), 0o644)
	logf, _ := os.Create(filepath.Join(dir, "pandora.out"))
	defer logf.Close()
	cmd := exec.Command(bin, cf)
	cmd.Dir = dir
	cmd.Stdout = logf
	cmd.Stderr = logf
	cmd.Env = append(os.Environ(), "GORACE=")
	if c.Procs > 0 {
		// few Ps: when the signal handler gets the engine result the aggregator goroutine
		// has often not run yet — the window in which an early exit loses data is wide
		cmd.Env = append(cmd.Env, fmt.Sprintf("GOMAXPROCS=%d", c.Procs))
	}
	// the race detector log of the parent must not be inherited as a file prefix by a non-race binary: harmless
	if err := cmd.Start(); err != nil {
		res.Inconclusive(true, "cannot start pandora: %v", err)
		return
	}
	exited := make(chan error, 1)
	go func() { exited <- cmd.Wait() }()
	// wait for the first request
	deadline := time.Now().Add(30 * time.Second)
	for tgt.seen.Load() == 0 {
		select {
		case err := <-exited:
			b, _ := os.ReadFile(filepath.Join(dir, "pandora.out"))
			res.Inconclusive(true, "pandora exited before shooting: %v: %s", err, tail(string(b), 1500))
			return
		default:
		}
		if time.Now().After(deadline) {
			_ = cmd.Process.Kill()
			res.Inconclusive(true, "pandora did not shoot within 30 s")
			return
		}
		time.Sleep(2 * time.Millisecond)
	}
	time.Sleep(time.Duration(c.AfterMs) * time.Millisecond)
	sig := syscall.SIGINT
	if c.Signal == "SIGTERM" {
		sig = syscall.SIGTERM
	}
	pipeStall.Store(true)
	seenAtSignal := tgt.seen.Load()
	_ = cmd.Process.Signal(sig)
	select {
	case <-exited:
	case <-time.After(50 * time.Second):
		_ = cmd.Process.Kill()
		<-exited
		closePipe()
		res.Violate("C06/process/"+c.Signal+"/no-exit", "pandora did not exit within 50 s after the signal", c)
		return
	}
	seenFinal := tgt.seen.Load()
	var data []byte
	if c.SlowPipe {
		closePipe()
		data = pipeData
		res.Count("process_runs_slow_pipe", 1)
	} else {
		data, _ = os.ReadFile(out)
	}
	recs, bad := parsePhout(data)
	key := "C06/process/" + c.Signal
	if bad != "" {
		res.Violate(key+"/malformed", bad, c)
		return
	}
	lower := seenAtSignal - int64(c.Instances)
	if int64(len(recs)) < lower {
		res.Violate(key+"/lost-lines", fmt.Sprintf("the target had answered %d requests when %s was sent (at most %d still unreported), the result file has only %d lines after the process exited (%d requests seen in total)", seenAtSignal, c.Signal, c.Instances, len(recs), seenFinal), c)
	}
	if int64(len(recs)) > seenFinal+int64(c.Instances) {
		res.Violate(key+"/count", fmt.Sprintf("%d lines for %d requests ever seen", len(recs), seenFinal), c)
	}
	ids := map[string]bool{}
	for _, r := range recs {
		if ids[r.Tag] {
			res.Violate(key+"/duplicate", fmt.Sprintf("line %q written twice", r.Tag), c)
			break
		}
		ids[r.Tag] = true
	}
	res.Count("process_runs", 1)
	res.Count("process_lines_judged", int64(len(recs)))
	res.Count("process_requests_at_signal", seenAtSignal)
	res.Max("process_max_requests_at_signal", seenAtSignal)
	res.Eval(vkit.JSON(c), seenAtSignal > int64(c.Instances))
	res.Sample(map[string]any{"layer": "process", "case": c, "requests_answered_at_signal": seenAtSignal, "requests_total": seenFinal, "lines_after_exit": len(recs)})
}

func tail(s string, n int) string {
	if len(s) > n {
		return s[len(s)-n:]
	}
	return s
}

// coreSink adapts slowSink to core.DataSink.
type coreSink struct{ s *slowSink }

func (d coreSink) OpenSink() (io.WriteCloser, error) { return slowWC{d.s}, nil }

// ---------------------------------------------------------------- main

// emptyRun: a run that makes no report at all (empty ammo, a stop before the first shot) still owns
// its result file: afterwards it exists and holds exactly what the run reported — nothing — even
// if an earlier run left output at the same path.
func emptyRun(res *vkit.Result) {
	for _, kind := range []string{"phout", "jsonlines"} {
		for _, stale := range []bool{false, true} {
			c := map[string]any{"aggregator": kind, "reports": 0, "earlier_output_at_destination": stale}
			dest := tmpName("." + kind)
			if stale {
				_ = vkit.WriteMemAt(dest, []byte("stale 1\nstale 2\nstale 3\n"))
			}
			conf := map[string]any{"type": "phout", "destination": dest}
			if kind == "jsonlines" {
				conf = map[string]any{"type": "jsonlines", "sink": map[string]any{"type": "file", "path": dest}}
			}
			aggr, err := realAggregator(conf)
			if err != nil {
				res.Inconclusive(true, "%s config rejected: %v", kind, err)
				vkit.RemoveMem(dest)
				continue
			}
			ctx, cancel := context.WithCancel(context.Background())
			done := make(chan error, 1)
			go func() { done <- aggr.Run(ctx, core.AggregatorDeps{Log: vkit.NopLog()}) }()
			time.Sleep(5 * time.Millisecond)
			cancel()
			select {
			case err := <-done:
				if err != nil && !errors.Is(err, context.Canceled) {
					res.Violate("C06/"+kind+"/empty-run/run-error", fmt.Sprintf("Run without reports returned %v", err), c)
				}
			case <-time.After(20 * time.Second):
				res.Violate("C06/"+kind+"/empty-run/hang", "Run without reports did not return within 20 s of the cancel", c)
				vkit.RemoveMem(dest)
				continue
			}
			data, err := afero.ReadFile(vkit.Fs(), dest)
			switch {
			case err != nil:
				res.Violate("C06/"+kind+"/empty-run/no-file", fmt.Sprintf("the result file does not exist after the run: %v", err), c)
			case len(data) != 0:
				res.Violate("C06/"+kind+"/empty-run/stale-lines", fmt.Sprintf("0 reports were made, the result file holds %d bytes: %q", len(data), short(string(data))), c)
			}
			vkit.RemoveMem(dest)
			res.Count("empty_runs", 1)
			res.Eval(vkit.JSON(c), true)
		}
	}
}

func short(s string) string {
	if len(s) > 80 {
		return s[:80] + "…"
	}
	return s
}

// scenarioEngine: the real engine with the http/scenario gun writing through the real phout, against
// a target that makes every fifth answer to step b fail its assertion. The target counts what it
// received per step; the output must hold exactly one well-formed line per request received —
// no step twice, none missing — and each line's status must be the one the target sent.
func scenarioEngine(res *vkit.Result, instances, shots int) {
	c := map[string]any{"layer": "engine+http/scenario gun", "instances": instances, "shots": shots}
	var hitsA, hitsB atomic.Int64
	srv := &http.Server{Handler: http.HandlerFunc(func(w http.ResponseWriter, r *http.Request) {
		switch r.URL.Path {
		case "/a":
			hitsA.Add(1)
			_, _ = w.Write([]byte("ok a"))
		case "/b":
			if hitsB.Add(1)%5 == 0 {
				w.WriteHeader(201)
				_, _ = w.Write([]byte("nope"))
				return
			}
			_, _ = w.Write([]byte("ok b"))
		}
	})}
	ln, err := net.Listen("tcp", "127.0.0.1:0")
	if err != nil {
		res.Inconclusive(true, "listen: %v", err)
		return
	}
	go func() { _ = srv.Serve(ln) }()
	defer srv.Close()
	yaml := `requests:
  - name: "a"
    method: "GET"
    uri: "/a"
    headers: {}
  - name: "b"
    method: "GET"
    uri: "/b"
    headers: {}
    postprocessors:
      - type: "assert/response"
        body: ["ok"]
        status_code: 200
  - name: "c"
    method: "GET"
    uri: "/a"
    headers: {}
scenarios:
  - name: "s"
    weight: 1
    min_waiting_time: 0
    requests: ["a", "b", "c"]
`
	sp := tmpName(".yaml")
	_ = vkit.WriteMemAt(sp, []byte(yaml))
	defer vkit.RemoveMem(sp)
	dest := tmpName(".phout")
	defer vkit.RemoveMem(dest)
	ec, err := vkit.DecodePools(map[string]any{"pools": []any{map[string]any{"id": "p",
		"ammo":   map[string]any{"type": "http/scenario", "file": sp, "limit": shots},
		"result": map[string]any{"type": "phout", "destination": dest, "id": true},
		"gun":    map[string]any{"type": "http/scenario", "target": ln.Addr().String()},
		"rps":    map[string]any{"type": "const", "ops": 2000, "duration": "60s"}, "startup": map[string]any{"type": "once", "times": instances}}}})
	if err != nil {
		res.Inconclusive(true, "scenario pool rejected: %v", err)
		return
	}
	rr := vkit.RunEngine(ec, nil, 120*time.Second)
	if rr.Err != nil || rr.Hang || rr.WaitHang {
		res.Violate("C06/scenario-engine/run", fmt.Sprintf("run: err=%v hang=%v", rr.Err, rr.Hang || rr.WaitHang), c)
		return
	}
	data, _ := afero.ReadFile(vkit.Fs(), dest)
	recs, bad := parsePhout(data)
	if bad != "" {
		res.Violate("C06/scenario-engine/malformed", bad, c)
		return
	}
	lines := map[string]int{}
	failedB := 0
	for _, r := range recs {
		step := strings.SplitN(strings.SplitN(r.Tag, "#", 2)[0], "|", 2)[0]
		lines[step]++
		if step == "s.b" && r.Fields[9] != 200 {
			failedB++
		}
	}
	a, b := int(hitsA.Load()), int(hitsB.Load())
	// steps a and c both fetch /a
	if lines["s.a"]+lines["s.c"] != a || lines["s.b"] != b || len(recs) != a+b {
		res.Violate("C06/scenario-engine/lines-vs-requests", fmt.Sprintf("the target received %d requests to /a and %d to /b; the output has %d lines: %v", a, b, len(recs), lines), c)
	}
	if failedB != b/5 {
		res.Violate("C06/scenario-engine/status", fmt.Sprintf("%d answers to step b carried status 201; %d lines of step b carry another status than 200", b/5, failedB), c)
	}
	res.Count("scenario_engine_lines", int64(len(recs)))
	res.Eval(vkit.JSON(c), len(recs) > instances)
}

func main() {
	vkit.Fs()
	res := vkit.NewResult("layer 1: seeded (goroutines, samples, queue size, buffer size, flush interval, cancel delay after the last Report, id on/off, slow sink) histories of Report calls against the real phout and jsonlines aggregators, output judged by an independent strict parser; layer 2: real engine + phout ending normally or cancelled after k reports; layer 3: real pandora binary stopped by SIGINT/SIGTERM at seeded instants. distinct = distinct case parameters; non-trivial = at least one report (process: more requests answered than instances)")
	rng := vkit.Rand("c06")
	cancelUs := []int{-1, 0, 0, 20, 200, 2000, 20000}
	emptyRun(res)
	jsonlinesNetSamples(res)
	scenarioEngine(res, 4, 200)
	scenarioEngine(res, 1, 40)
	// regression seeds first
	phoutOnce(res, phoutCase{G: 4, K: 50, Queue: 8, WithID: true, CancelUs: 0, Seed: 11})
	phoutOnce(res, phoutCase{G: 1, K: 1, Queue: 1, WithID: false, CancelUs: 0, Seed: 12})
	phoutOnce(res, phoutCase{G: 8, K: 20, Queue: 256, WithID: true, CancelUs: 0, LateRun: true, Seed: 13})
	// phout's flush-time option in every spelling a config can hold: whatever it says, every report is a line
	for i, ft := range []string{"1s", "10ms", "1us", "0", "0s", "-1s", "1h"} {
		phoutOnce(res, phoutCase{G: 4, K: 100, Queue: 16, WithID: true, CancelUs: 0, FlushTime: ft, Seed: int64(60 + i)})
		phoutOnce(res, phoutCase{G: 2, K: 30, Queue: 256, WithID: i%2 == 0, CancelUs: 500, LateRun: i%2 == 1, FlushTime: ft, Seed: int64(70 + i)})
	}
	for i, n := 0, vkit.N(120, 2500); i < n; i++ {
		c := phoutCase{G: 1 + rng.Intn(16), K: 1 + rng.Intn(120), Queue: []int{1, 2, 7, 64, 1024, 4096}[rng.Intn(6)], WithID: rng.Intn(2) == 0,
			Buffer: []int{0, 0, 64, 4096}[rng.Intn(4)], CancelUs: cancelUs[rng.Intn(len(cancelUs))], LateRun: rng.Intn(6) == 0, Seed: rng.Int63()}
		phoutOnce(res, c)
		if i < 2 {
			res.Sample(map[string]any{"layer": "aggregator/phout", "case": c})
		}
	}
	// Boundary sweeps: with fixed-size lines every report count from 1 up to a little more than
	// two internal buffers' worth is tried, so that the last report lands on every alignment
	// relative to the 4 KiB minimal buffer (and, with large lines, the 512 KiB default buffer).
	// Buffering mistakes that only bite when the last line exactly fills or tips a buffer
	// cannot hide behind random sizes this way.
	sweep := func(pad, lineLen, bufBytes, boundary int) {
		from, to := 1, 2*boundary/lineLen+3
		if boundary > 64<<10 {
			from, to = boundary/lineLen-2, boundary/lineLen+3
		}
		for n := from; n <= to; n++ {
			phoutOnce(res, phoutCase{G: 1, K: n, Queue: 8192, WithID: true, Buffer: bufBytes, CancelUs: 0, Pad: pad, Seed: int64(n)})
			jsonlinesOnce(res, jsCase{G: 1, K: n, Queue: 8192, FlushMs: 1000, Buffer: bufBytes, CancelUs: 0, Pad: pad, Seed: int64(n)})
			res.Count("boundary_sweep_runs", 2)
		}
	}
	sweep(280, 333, 0, 4096)
	sweep(280, 333, 4096, 4096)
	sweep(950, 1000, 0, 4096)
	sweep(30, 80, 8192, 8192)
	if vkit.Thorough() {
		sweep(100, 150, 0, 4096)
		sweep(3900, 3950, 0, 4096)
		sweep(8000, 8050, 0, 512<<10)
		sweep(8000, 8050, 64<<10, 64<<10)
	}
	// idle gaps: longer than the 1 s idle-flush / flush-interval timers, then more reports
	{
		var wg sync.WaitGroup
		for i, gap := range []int{1150, 1600, 2300} {
			wg.Add(2)
			go func(i, gap int) {
				defer wg.Done()
				phoutOnce(res, phoutCase{G: 1 + i, K: 8, Queue: 64, WithID: true, CancelUs: 0, GapMs: gap, Seed: int64(40 + i)})
			}(i, gap)
			go func(i, gap int) {
				defer wg.Done()
				jsonlinesOnce(res, jsCase{G: 1 + i, K: 8, Queue: 64, FlushMs: 1000, CancelUs: 0, GapMs: gap, Seed: int64(50 + i)})
			}(i, gap)
			res.Count("idle_gap_runs", 2)
		}
		wg.Wait()
	}
	jsonlinesOnce(res, jsCase{G: 4, K: 200, Queue: 1, FlushMs: 1, SlowUs: 300, CancelUs: 0, Seed: 21})
	jsonlinesOnce(res, jsCase{G: 2, K: 10, Queue: 64, FlushMs: 1000, CancelUs: 0, Seed: 22})
	// a large backlog in the queue when the cancel arrives, and a flush timer that ticks all the time
	for i := 0; i < 6; i++ {
		jsonlinesOnce(res, jsCase{G: 4, K: 5000, Queue: 20000, FlushUs: 1 + 20*i, CancelUs: 0, Seed: int64(23 + i)})
	}
	for i, n := 0, vkit.N(100, 1500); i < n; i++ {
		c := jsCase{G: 1 + rng.Intn(16), K: 1 + rng.Intn(150), Queue: []int{1, 2, 7, 64, 4096}[rng.Intn(5)], FlushMs: []int{1, 5, 50, 1000}[rng.Intn(4)],
			Buffer: []int{0, 0, 64, 4096}[rng.Intn(4)], CancelUs: cancelUs[rng.Intn(len(cancelUs))], Seed: rng.Int63()}
		if rng.Intn(4) == 0 {
			c.SlowUs = 50 + rng.Intn(400)
			c.K = 1 + rng.Intn(40)
		}
		jsonlinesOnce(res, c)
		if i < 2 {
			res.Sample(map[string]any{"layer": "aggregator/jsonlines", "case": c})
		}
	}
	engineOnce(res, engCase{Instances: 4, Tokens: 400, ShotUs: 0, Queue: 16, CancelAt: 0, Seed: 31})
	engineOnce(res, engCase{Instances: 4, Tokens: 100000, ShotUs: 0, Queue: 1024, CancelAt: 300, Seed: 32})
	// overload: tokens of the first 1.2 s of a 3.2 s-old schedule are discarded while guns keep acquiring samples
	engineOnce(res, engCase{Instances: 6, Tokens: 3000, ShotUs: 200, Queue: 4096, Discard: 3200, Seed: 33})
	engineOnce(res, engCase{Instances: 2, Tokens: 800, ShotUs: 50, Queue: 64, Discard: 2600, Seed: 34})
	// the run ends in a burst of discarded requests (one stalled shot puts the rest > 2 s behind)
	{
		var wg sync.WaitGroup
		// 40 runs at once: the machine is busy at the moment the bursts begin, which is when a
		// report that is not made before the instance returns would be left behind
		for i := 0; i < 40; i++ {
			wg.Add(1)
			go func(i int) {
				defer wg.Done()
				engineOnce(res, engCase{Instances: 1 + i%4/3, Tokens: 300 + 100*(i%16), ShotUs: 0, Queue: []int{4096, 16, 1}[i%3], TailStallMs: 3200, Seed: int64(60 + i)})
			}(i)
		}
		wg.Wait()
	}
	// the ammo runs out while instances are still being started and slow shots are in flight
	for i, n := 0, vkit.N(12, 120); i < n; i++ {
		engineOnce(res, engCase{Instances: 2 + rng.Intn(5), Ammo: 4 + rng.Intn(60), ShotUs: 500 + rng.Intn(4000), Queue: []int{1, 64, 4096}[rng.Intn(3)], RampMs: 2000, Seed: rng.Int63()})
	}
	for i, n := 0, vkit.N(40, 600); i < n; i++ {
		c := engCase{Instances: 1 + rng.Intn(12), Tokens: 50 + rng.Intn(800), ShotUs: []int{0, 0, 10, 100}[rng.Intn(4)],
			Queue: []int{1, 4, 64, 4096}[rng.Intn(4)], Seed: rng.Int63()}
		if rng.Intn(2) == 0 {
			c.CancelAt = 1 + rng.Intn(c.Tokens)
			c.Tokens = 1000000
		}
		engineOnce(res, c)
		if i < 2 {
			res.Sample(map[string]any{"layer": "engine", "case": c})
		}
	}
	// process level
	bin := os.Getenv("VERIF_PANDORA_BIN")
	if bin == "" {
		res.Inconclusive(true, "no pandora binary (VERIF_PANDORA_BIN)")
	} else {
		var cases []procCase
		n := vkit.N(12, 80)
		for i := 0; i < n; i++ {
			sig := "SIGINT"
			if i%2 == 1 {
				sig = "SIGTERM"
			}
			cases = append(cases, procCase{Signal: sig, AfterMs: 300 + rng.Intn(1500), Instances: 8, Aggr: "phout", Procs: []int{1, 0, 2, 0}[(i/2)%4], SlowPipe: (i/2)%3 != 2, Idx: i})
		}
		sem := make(chan struct{}, 3)
		var wg sync.WaitGroup
		for _, c := range cases {
			wg.Add(1)
			sem <- struct{}{}
			go func(c procCase) {
				defer wg.Done()
				defer func() { <-sem }()
				processOnce(res, bin, c)
			}(c)
		}
		wg.Wait()
	}
	vkit.CheckRaceLog(res, "C06")
	if res.Counter("phout_lines_judged") < 1000 || res.Counter("jsonlines_runs_with_drops") < 1 || res.Counter("engine_runs_cancelled") < 5 || res.Counter("process_runs") < 4 {
		res.Inconclusive(true, "too little observed: %d phout lines, %d jsonlines runs with drops, %d cancelled engine runs, %d signalled processes",
			res.Counter("phout_lines_judged"), res.Counter("jsonlines_runs_with_drops"), res.Counter("engine_runs_cancelled"), res.Counter("process_runs"))
	}
	res.Write()
}
