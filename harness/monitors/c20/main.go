// C20 — gRPC wire fidelity: method, message and metadata reach the server as written.
package main

import (
	"net"
	"strconv"
	"encoding/json"
	"fmt"
	"math/rand"
	"sort"
	"strings"
	"sync"
	"time"

	server "github.com/yandex/pandora/examples/grpc/server"
	"google.golang.org/protobuf/proto"

	"verif/harness/vkit"
)

type Entry struct {
	Vid     int               `json:"vid"`
	Method  string            `json:"method"`        // Hello Auth List Order | Nope (unknown)
	Bad     string            `json:"bad,omitempty"` // "", unknown-method, ill-typed, unknown-field
	Payload map[string]any    `json:"payload"`
	MD      map[string]string `json:"metadata,omitempty"`
}

type Case struct {
	Kind      string  `json:"kind"` // grpcjson | scenario
	Entries   []Entry `json:"entries,omitempty"`
	Instances int     `json:"instances"`
	Shared    bool    `json:"shared_client"`
	// ReflectElsewhere: the method list is taken from another port (reflect_port), where a second
	// server of the same service listens; calls belong to the target, none to that other port
	ReflectElsewhere bool `json:"reflect_port_elsewhere,omitempty"`
	TimeoutMs int     `json:"timeout_ms"`
	Rows      int     `json:"rows,omitempty"`
	Shots     int     `json:"shots,omitempty"`
	Seed      int64   `json:"seed"`
}

var tgt *vkit.GRPCTarget
var reflTgt *vkit.GRPCTarget

func marker(vid int) string { return fmt.Sprintf("vid-%d", vid) }

func genEntry(rng *rand.Rand, vid int) Entry {
	e := Entry{Vid: vid, Payload: map[string]any{}}
	big := func() any {
		switch rng.Intn(5) {
		case 4:
			return rng.Int63() // beyond 2^53 as a bare JSON number: an int64 field takes it exactly
		case 0:
			return rng.Int63n(1 << 53)
		case 1:
			return -rng.Int63n(1 << 53)
		case 2:
			return fmt.Sprint(rng.Int63()) // beyond 2^53 as a string
		default:
			return rng.Intn(1000)
		}
	}
	switch rng.Intn(4) {
	case 0:
		e.Method = "Hello"
		e.Payload["name"] = marker(vid)
	case 1:
		e.Method = "Auth"
		e.Payload["login"] = marker(vid)
		if rng.Intn(2) == 0 {
			e.Payload["pass"] = []string{"p", "пароль ☃", "", "a\"b\\c"}[rng.Intn(4)]
		}
	case 2:
		e.Method = "List"
		e.Payload["token"] = marker(vid)
		if rng.Intn(3) != 0 {
			e.Payload["user_id"] = big()
		}
	default:
		e.Method = "Order"
		e.Payload["token"] = marker(vid)
		if rng.Intn(3) != 0 {
			e.Payload["user_id"] = big()
		}
		if rng.Intn(3) != 0 {
			e.Payload["item_id"] = big()
		}
	}
	for k := rng.Intn(3); k > 0; k-- {
		if e.MD == nil {
			e.MD = map[string]string{}
		}
		e.MD[[]string{"x-a", "X-Mixed-Case", "authorization", "x-trace"}[rng.Intn(4)]] = fmt.Sprintf("v%d-%d", vid, rng.Intn(100))
	}
	switch rng.Intn(8) {
	case 0:
		e.Bad = "unknown-method"
		e.Method = "Nope"
	case 1:
		e.Bad = "ill-typed"
		e.Payload = map[string]any{"name": 5, "login": []any{1}, "token": map[string]any{"x": 1}}
		if e.Method == "List" || e.Method == "Order" {
			e.Payload = map[string]any{"token": marker(vid), "user_id": "not-a-number"}
		}
	case 2:
		e.Bad = "unknown-field"
		e.Payload["no_such_field"] = 1
	}
	return e
}

func toInt64(v any) int64 {
	switch x := v.(type) {
	case int:
		return int64(x)
	case int64:
		return x
	case string:
		var n int64
		fmt.Sscan(x, &n)
		return n
	case float64:
		return int64(x)
	}
	return 0
}

func str(v any) string {
	s, _ := v.(string)
	return s
}

func expectedProto(e Entry) proto.Message {
	switch e.Method {
	case "Hello":
		return &server.HelloRequest{Name: str(e.Payload["name"])}
	case "Auth":
		return &server.AuthRequest{Login: str(e.Payload["login"]), Pass: str(e.Payload["pass"])}
	case "List":
		return &server.ListRequest{Token: str(e.Payload["token"]), UserId: toInt64(e.Payload["user_id"])}
	case "Order":
		return &server.OrderRequest{Token: str(e.Payload["token"]), UserId: toInt64(e.Payload["user_id"]), ItemId: toInt64(e.Payload["item_id"])}
	}
	return nil
}

func markerOf(m proto.Message) string {
	switch r := m.(type) {
	case *server.HelloRequest:
		return r.Name
	case *server.AuthRequest:
		return r.Login
	case *server.ListRequest:
		return r.Token
	case *server.OrderRequest:
		return r.Token
	}
	return ""
}

func gunConf(c Case, typ string) map[string]any {
	g := map[string]any{"type": typ, "target": tgt.Addr, "timeout": fmt.Sprintf("%dms", c.TimeoutMs)}
	if c.Shared && typ == "grpc" {
		g["shared-client"] = map[string]any{"enabled": true, "client-number": 2}
	}
	if c.ReflectElsewhere && reflTgt != nil {
		_, port, _ := net.SplitHostPort(reflTgt.Addr)
		rp, _ := strconv.Atoi(port)
		g["reflect_port"] = rp
	}
	return g
}

func runGrpcJSON(res *vkit.Result, c Case) {
	fail := func(check, f string, a ...any) { res.Violate("C20/grpcjson/"+check, fmt.Sprintf(f, a...), c) }
	var b strings.Builder
	for _, e := range c.Entries {
		line := map[string]any{"tag": marker(e.Vid), "call": "target.TargetService." + e.Method, "payload": e.Payload}
		if e.MD != nil {
			line["metadata"] = e.MD
		}
		js, _ := json.Marshal(line)
		b.Write(js)
		b.WriteByte('\n')
	}
	path := vkit.WriteMem([]byte(b.String()))
	defer vkit.RemoveMem(path)
	tgt.ResetCalls()
	ec, err := vkit.DecodePools(map[string]any{"pools": []any{map[string]any{
		"id": "p", "ammo": map[string]any{"type": "grpc/json", "file": path, "passes": 1}, "result": map[string]any{"type": "discard"},
		"gun": gunConf(c, "grpc"), "rps": map[string]any{"type": "const", "ops": 500, "duration": "60s"},
		"startup": map[string]any{"type": "once", "times": c.Instances},
	}}})
	if err != nil {
		fail("rejected", "valid pool config rejected: %v", err)
		return
	}
	aggr := &vkit.MockAggregator{}
	ec.Pools[0].Aggregator = aggr
	rr := vkit.RunEngine(ec, nil, 60*time.Second)
	if rr.Hang {
		res.Inconclusive(false, "grpc pool did not end within 60s")
		return
	}
	if rr.Err != nil {
		fail("run-error", "run ended with %v", rr.Err)
		return
	}
	byMarker := map[string]Entry{}
	for _, e := range c.Entries {
		byMarker[marker(e.Vid)] = e
	}
	arrived := map[string]int{}
	for _, call := range tgt.Calls() {
		mk := markerOf(call.Req)
		e, ok := byMarker[mk]
		if !ok {
			fail("unknown-call", "server received %s %v which matches no entry", call.Method, call.Req)
			continue
		}
		arrived[mk]++
		if e.Bad != "" {
			fail("bad-entry-on-wire", "entry %s (%s) must not reach the server but %s arrived", mk, e.Bad, call.Method)
			continue
		}
		if want := "/target.TargetService/" + e.Method; call.Method != want {
			fail("method", "entry %s: server got method %s, want %s", mk, call.Method, want)
		}
		if want := expectedProto(e); !proto.Equal(call.Req, want) {
			fail("message", "entry %s: server got %v, want %v", mk, call.Req, want)
		}
		for k, v := range e.MD {
			got := call.MD.Get(k)
			if len(got) != 1 || got[0] != v {
				fail("metadata", "entry %s: metadata %s = %v on the wire, want %q", mk, k, got, v)
			}
		}
		// "the entry's metadata": keys of the generator's namespace that the entry does not
		// define must not arrive (they could only come from another entry)
		for _, k := range []string{"x-a", "x-mixed-case", "authorization", "x-trace"} {
			defined := false
			for ek := range e.MD {
				if strings.ToLower(ek) == k {
					defined = true
				}
			}
			if got := call.MD.Get(k); !defined && len(got) > 0 {
				fail("foreign-metadata", "entry %s does not define metadata %s, the call carries %v", mk, k, got)
			}
		}
		if !call.HasDeadline {
			fail("deadline", "entry %s: call has no deadline (timeout %dms configured)", mk, c.TimeoutMs)
		} else if call.Timeout > time.Duration(c.TimeoutMs)*time.Millisecond+50*time.Millisecond {
			fail("deadline", "entry %s: deadline %v after arrival exceeds the configured timeout %dms", mk, call.Timeout, c.TimeoutMs)
		}
		res.Count("calls_matched", 1)
	}
	samples := map[string][]vkit.SampleRec{}
	for _, s := range aggr.Snapshot() {
		samples[s.Tags] = append(samples[s.Tags], s)
	}
	for _, e := range c.Entries {
		mk := marker(e.Vid)
		ss := samples[mk]
		if len(ss) != 1 {
			fail("samples", "entry %s produced %d samples, want exactly 1", mk, len(ss))
			continue
		}
		if e.Bad == "" {
			if arrived[mk] != 1 {
				fail("arrival", "good entry %s arrived %d times, want once", mk, arrived[mk])
			}
			if ss[0].Proto != 200 {
				fail("good-sample", "good entry %s reported with proto code %d", mk, ss[0].Proto)
			}
		} else {
			res.Count("bad_entries", 1)
			if ss[0].Proto == 200 {
				fail("bad-sample", "%s entry %s reported as 200", e.Bad, mk)
			}
		}
	}
}

func runScenario(res *vkit.Result, c Case) {
	fail := func(check, f string, a ...any) { res.Violate("C20/scenario/"+check, fmt.Sprintf(f, a...), c) }
	var csv strings.Builder
	for i := 0; i < c.Rows; i++ {
		fmt.Fprintf(&csv, "row%d,name%d\n", i, i)
	}
	csvPath := vkit.WriteMem([]byte(csv.String()))
	defer vkit.RemoveMem(csvPath)
	yaml := fmt.Sprintf(`variable_sources:
  - type: "file/csv"
    name: "users"
    file: "%s"
    fields: ["id", "name"]
calls:
  - name: "c1"
    tag: "hello"
    call: "target.TargetService.Hello"
    payload: '{"name": "{{.request.c1.preprocessor.u}}"}'
    metadata: {"x-row": "{{.request.c1.preprocessor.u}}", "x-static": "s"}
    preprocessors:
      - type: "prepare"
        mapping: {"u": "source.users[next].id"}
  - name: "c2"
    tag: "auth"
    call: "target.TargetService.Auth"
    payload: '{"login": "{{.request.c1.preprocessor.u}}", "pass": "{{.request.c1.postprocessor.hello}}"}'
    metadata: {"x-row": "{{.request.c1.preprocessor.u}}"}
  - name: "c3"
    tag: "order"
    call: "target.TargetService.Order"
    payload: '{"user_id": 9007199254740993, "item_id": 1152921504606846977, "token": "{{.request.c3.preprocessor.u}}"}'
    preprocessors:
      - type: "prepare"
        mapping: {"u": "request.c1.postprocessor.hello"}
scenarios:
  - name: "s1"
    weight: 1
    min_waiting_time: 0
    requests: ["c1", "c2", "c3"]
`, csvPath)
	base := vkit.WriteMem(nil)
	vkit.RemoveMem(base)
	path := base + ".yaml"
	_ = vkit.WriteMemAt(path, []byte(yaml))
	defer vkit.RemoveMem(path)
	tgt.ResetCalls()
	ec, err := vkit.DecodePools(map[string]any{"pools": []any{map[string]any{
		"id": "p", "ammo": map[string]any{"type": "grpc/scenario", "file": path, "limit": c.Shots}, "result": map[string]any{"type": "discard"},
		"gun": gunConf(c, "grpc/scenario"), "rps": map[string]any{"type": "const", "ops": 500, "duration": "60s"},
		"startup": map[string]any{"type": "once", "times": c.Instances},
	}}})
	if err != nil {
		fail("rejected", "valid pool config rejected: %v", err)
		return
	}
	aggr := &vkit.MockAggregator{}
	ec.Pools[0].Aggregator = aggr
	rr := vkit.RunEngine(ec, nil, 60*time.Second)
	if rr.Hang {
		res.Inconclusive(false, "grpc scenario pool did not end within 60s")
		return
	}
	if rr.Err != nil {
		fail("run-error", "run ended with %v", rr.Err)
		return
	}
	var rowsUsed, orderRows []string
	for _, call := range tgt.Calls() {
		if o, ok := call.Req.(*server.OrderRequest); ok {
			// integers a float64 cannot hold, written as bare JSON numbers in the payload text
			if o.UserId != 9007199254740993 || o.ItemId != 1152921504606846977 {
				fail("payload-number", "call Order was written with user_id 9007199254740993 and item_id 1152921504606846977; the server received %d and %d", o.UserId, o.ItemId)
			}
			// the third call has a preprocessor variable of its own that bears the same name ("u")
			// as the first call's but is mapped to the first call's response
			if strings.HasPrefix(o.Token, "Hello ") && strings.HasSuffix(o.Token, "!") {
				orderRows = append(orderRows, strings.TrimSuffix(strings.TrimPrefix(o.Token, "Hello "), "!"))
			} else {
				fail("preprocessor-variable", "call Order maps its variable u to the Hello response of its shot (\"Hello <row>!\"); the server received token %q", o.Token)
			}
			// the third call declares no metadata: none of the earlier calls' keys may come with it
			for _, k := range []string{"x-row", "x-static"} {
				if v := call.MD.Get(k); len(v) > 0 {
					fail("foreign-metadata", "call Order (row %s) declares no metadata, the server received %s=%v", o.Token, k, v)
				}
			}
			res.Count("calls_matched", 1)
			continue
		}
		row := markerOf(call.Req)
		md := call.MD.Get("x-row")
		if len(md) != 1 || md[0] != row {
			fail("metadata-row", "call %s carries payload of row %q but metadata x-row=%v (metadata rendered from another shot)", call.Method, row, md)
		}
		if strings.HasSuffix(call.Method, "/Hello") {
			rowsUsed = append(rowsUsed, row)
			if s := call.MD.Get("x-static"); len(s) != 1 || s[0] != "s" {
				fail("metadata", "static metadata x-static=%v", s)
			}
		} else if a, ok := call.Req.(*server.AuthRequest); ok {
			if want := "Hello " + row + "!"; a.Pass != want {
				fail("captured-value", "Auth.pass = %q, want the Hello response of the same shot %q", a.Pass, want)
			}
		}
		if !call.HasDeadline {
			fail("deadline", "scenario call without deadline")
		}
		res.Count("calls_matched", 1)
	}
	if len(rowsUsed) != c.Shots {
		fail("arrival", "%d shots but %d Hello calls arrived", c.Shots, len(rowsUsed))
	}
	sort.Strings(rowsUsed)
	var want []string
	for i := 0; i < c.Shots; i++ {
		want = append(want, fmt.Sprintf("row%d", i%c.Rows))
	}
	sort.Strings(want)
	if fmt.Sprint(rowsUsed) != fmt.Sprint(want) {
		fail("rows", "rows used %v, want consecutive rows round-robin %v", rowsUsed, want)
	}
	sort.Strings(orderRows)
	if fmt.Sprint(orderRows) != fmt.Sprint(rowsUsed) {
		fail("preprocessor-variable", "the Order calls carry the Hello responses of rows %v, the Hello calls were made for rows %v", orderRows, rowsUsed)
	}
	if n := len(aggr.Snapshot()); n != 3*c.Shots {
		fail("samples", "%d samples for %d shots of 3 calls", n, c.Shots)
	}
	res.Count("scenario_pools", 1)
}

// runSlowScenario: the configured timeout bounds each call, not the scenario: four calls with
// 900 ms pauses between them and a 2.5 s timeout must all reach the server, although the fourth
// one starts 2.7 s after the first. A failed attempt is repeated (a single call that really
// takes longer than 2.5 s on a loaded machine is not a defect); the verdict is on three attempts.
func runSlowScenario(res *vkit.Result) {
	c := Case{Kind: "scenario-slow", Instances: 2, TimeoutMs: 2500, Shots: 2}
	yaml := `calls:
  - name: "h"
    tag: "hello"
    call: "target.TargetService.Hello"
    payload: '{"name": "slow"}'
    metadata: {"x-step": "h"}
scenarios:
  - name: "s1"
    weight: 1
    min_waiting_time: 0
    requests: ["h", "sleep(900)", "h", "sleep(900)", "h", "sleep(900)", "h"]
`
	base := vkit.WriteMem(nil)
	vkit.RemoveMem(base)
	path := base + ".yaml"
	_ = vkit.WriteMemAt(path, []byte(yaml))
	defer vkit.RemoveMem(path)
	var problem string
	for attempt := 0; attempt < 3; attempt++ {
		problem = ""
		tgt.ResetCalls()
		ec, err := vkit.DecodePools(map[string]any{"pools": []any{map[string]any{
			"id": "p", "ammo": map[string]any{"type": "grpc/scenario", "file": path, "limit": c.Shots}, "result": map[string]any{"type": "discard"},
			"gun": gunConf(c, "grpc/scenario"), "rps": map[string]any{"type": "once", "times": c.Shots},
			"startup": map[string]any{"type": "once", "times": c.Instances},
		}}})
		if err != nil {
			res.Violate("C20/scenario-slow/rejected", fmt.Sprintf("valid pool config rejected: %v", err), c)
			return
		}
		aggr := &vkit.MockAggregator{}
		ec.Pools[0].Aggregator = aggr
		rr := vkit.RunEngine(ec, nil, 60*time.Second)
		if rr.Hang {
			res.Inconclusive(false, "slow grpc scenario pool did not end within 60s")
			return
		}
		if rr.Err != nil {
			res.Violate("C20/scenario-slow/run-error", fmt.Sprintf("run ended with %v", rr.Err), c)
			return
		}
		calls := tgt.Calls()
		failed := 0
		for _, s := range aggr.Snapshot() {
			if s.Proto != 200 {
				failed++
			}
		}
		if len(calls) != 4*c.Shots || failed > 0 {
			problem = fmt.Sprintf("%d shots of 4 calls (900 ms apart, timeout %d ms per call): %d calls reached the server, %d of %d samples failed", c.Shots, c.TimeoutMs, len(calls), failed, len(aggr.Snapshot()))
			continue
		}
		res.Count("calls_matched", int64(len(calls)))
		break
	}
	if problem != "" {
		res.Violate("C20/scenario-slow/arrival", problem+" (3 attempts)", c)
	}
	res.Eval(vkit.JSON(c), true)
}

// runTemplateErrorScenario: "a payload that does not fit yields a failed sample for that entry
// and does not disturb other entries". Scenario s-bad has a payload template that parses but
// fails while it is executed, after part of its text has been produced; s-good is plain. They
// alternate on one instance: every s-good call must arrive exactly as written.
func runTemplateErrorScenario(res *vkit.Result, instances int) {
	c := Case{Kind: "scenario-template-error", Instances: instances, TimeoutMs: 3000, Shots: 12 * instances}
	yaml := `variable_sources:
  - type: "variables"
    name: "v"
    variables: {"word": "abc"}
calls:
  - name: "bad"
    tag: "bad"
    call: "target.TargetService.Hello"
    payload: '{"name": "partial-{{index .source.v.word 7}}"}'
    metadata: {"x-kind": "bad"}
  - name: "badmeta"
    tag: "badmeta"
    call: "target.TargetService.Hello"
    payload: '{"name": "never"}'
    metadata: {"x-kind": "meta-{{index .source.v.word 9}}"}
  - name: "good"
    tag: "good"
    call: "target.TargetService.Hello"
    payload: '{"name": "fine-{{.source.v.word}}"}'
    metadata: {"x-kind": "good-{{.source.v.word}}"}
scenarios:
  - name: "s-bad"
    weight: 1
    min_waiting_time: 0
    requests: ["bad"]
  - name: "s-good"
    weight: 1
    min_waiting_time: 0
    requests: ["good"]
  - name: "s-badmeta"
    weight: 1
    min_waiting_time: 0
    requests: ["badmeta"]
`
	base := vkit.WriteMem(nil)
	vkit.RemoveMem(base)
	path := base + ".yaml"
	_ = vkit.WriteMemAt(path, []byte(yaml))
	defer vkit.RemoveMem(path)
	tgt.ResetCalls()
	ec, err := vkit.DecodePools(map[string]any{"pools": []any{map[string]any{
		"id": "p", "ammo": map[string]any{"type": "grpc/scenario", "file": path, "limit": c.Shots}, "result": map[string]any{"type": "discard"},
		"gun": gunConf(c, "grpc/scenario"), "rps": map[string]any{"type": "const", "ops": 300, "duration": "60s"},
		"startup": map[string]any{"type": "once", "times": c.Instances},
	}}})
	if err != nil {
		res.Violate("C20/scenario-template-error/rejected", fmt.Sprintf("pool config rejected: %v", err), c)
		return
	}
	aggr := &vkit.MockAggregator{}
	ec.Pools[0].Aggregator = aggr
	rr := vkit.RunEngine(ec, nil, 60*time.Second)
	if rr.Hang {
		res.Inconclusive(false, "template-error scenario pool did not end within 60s")
		return
	}
	if rr.Err != nil {
		res.Violate("C20/scenario-template-error/run-error", fmt.Sprintf("run ended with %v", rr.Err), c)
		return
	}
	good, other := 0, 0
	for _, call := range tgt.Calls() {
		name := markerOfName(call.Req)
		kind := call.MD.Get("x-kind")
		if name == "fine-abc" && len(kind) == 1 && kind[0] == "good-abc" {
			good++
		} else {
			other++
			res.Violate("C20/scenario-template-error/arrival", fmt.Sprintf("the server received a call that no entry describes: name %q, x-kind %v", name, kind), c)
		}
	}
	okGood := 0
	for _, s := range aggr.Snapshot() {
		if strings.HasPrefix(s.Tags, "s-good.") && s.Proto == 200 {
			okGood++
		}
	}
	want := c.Shots / 3
	if good != want || okGood != want {
		res.Violate("C20/scenario-template-error/good-entry-disturbed", fmt.Sprintf("%d shots of the plain scenario between shots whose template fails while rendering: %d arrived as written, %d samples with code 200 (want %d each); %d other calls", want, good, okGood, want, other), c)
	}
	res.Count("calls_matched", int64(good))
	res.Eval(vkit.JSON(c), true)
}

func markerOfName(m proto.Message) string {
	if h, ok := m.(*server.HelloRequest); ok {
		return h.Name
	}
	return ""
}

// runGrpcJSONDiscard: discard_overflow on, and the target answers one call 2.6 s late, so a run of
// tokens is discarded. Every entry that was fired must still arrive exactly once with its own
// name and metadata (ammo objects go back to the provider's pool on release — a discarded one
// too), and fired + discarded must account for every entry.
func runGrpcJSONDiscard(res *vkit.Result, instances, entries int) {
	c := Case{Kind: "grpcjson-discard", Instances: instances, TimeoutMs: 5000, Shots: entries}
	var b strings.Builder
	for i := 0; i < entries; i++ {
		fmt.Fprintf(&b, `{"tag":"t%d","call":"target.TargetService.Hello","payload":{"name":"d-%d"},"metadata":{"x-id":"%d"}}`+"\n", i, i, i)
	}
	path := vkit.WriteMem([]byte(b.String()))
	defer vkit.RemoveMem(path)
	tgt.ResetCalls()
	var once sync.Once
	tgt.Delay = func(rec *vkit.CallRec) time.Duration {
		d := time.Duration(0)
		if h, ok := rec.Req.(*server.HelloRequest); ok && h.Name == "d-40" {
			once.Do(func() { d = 2600 * time.Millisecond })
		}
		return d
	}
	defer func() { tgt.Delay = nil }()
	ec, err := vkit.DecodePools(map[string]any{"pools": []any{map[string]any{
		"id": "p", "ammo": map[string]any{"type": "grpc/json", "file": path, "passes": 1}, "result": map[string]any{"type": "discard"},
		"gun": gunConf(c, "grpc"), "rps": map[string]any{"type": "const", "ops": 150 * instances, "duration": "60s"},
		"startup": map[string]any{"type": "once", "times": instances}, "discard_overflow": true,
	}}})
	if err != nil {
		res.Violate("C20/grpcjson-discard/rejected", fmt.Sprintf("valid pool config rejected: %v", err), c)
		return
	}
	aggr := &vkit.MockAggregator{}
	ec.Pools[0].Aggregator = aggr
	rr := vkit.RunEngine(ec, nil, 120*time.Second)
	if rr.Hang {
		res.Inconclusive(false, "grpc discard pool did not end within 120s")
		return
	}
	if rr.Err != nil {
		res.Violate("C20/grpcjson-discard/run-error", fmt.Sprintf("run ended with %v", rr.Err), c)
		return
	}
	arrived := map[string]int{}
	for _, call := range tgt.Calls() {
		name := markerOfName(call.Req)
		id := call.MD.Get("x-id")
		if len(id) != 1 || name != "d-"+id[0] {
			res.Violate("C20/grpcjson-discard/mixed-entry", fmt.Sprintf("a call arrived with name %q and x-id %v: message and metadata of different entries", name, id), c)
			continue
		}
		arrived[name]++
	}
	dup := 0
	for _, n := range arrived {
		if n > 1 {
			dup++
		}
	}
	discarded := int(aggr.Discarded.Load())
	if dup > 0 || len(arrived)+discarded != entries {
		res.Violate("C20/grpcjson-discard/arrival", fmt.Sprintf("%d entries, %d discarded by the engine: %d distinct entries arrived (want %d), %d of them more than once", entries, discarded, len(arrived), entries-discarded, dup), c)
	}
	if discarded == 0 {
		res.Inconclusive(false, "the 2.6 s answer did not make the engine discard any token")
	}
	res.Count("calls_matched", int64(len(arrived)))
	res.Count("discard_runs_discarded_tokens", int64(discarded))
	res.Eval(vkit.JSON(c), discarded > 0)
}

// runScenarioHCLReload: an HCL scenario file is shot, then rewritten under the same name with other
// calls, payloads and metadata (a user editing ammo.hcl between two runs in one process, two pools
// with generated files), and shot again by a new provider: the server must receive what the
// file says now.
// runGrpcJSONRampTail: the ammo file (one pass) runs out while the startup profile is still
// starting instances and the instances that exist hold an entry each, waiting for their turn in
// a paced profile. The end of the ammo is no reason to drop what has been handed out: every
// entry of the file reaches the server, once, with its own metadata.
func runGrpcJSONRampTail(res *vkit.Result, entries int) {
	c := Case{Kind: "grpcjson-ramp-tail", Instances: 0, TimeoutMs: 5000, Shots: entries}
	var b strings.Builder
	for i := 0; i < entries; i++ {
		fmt.Fprintf(&b, `{"tag":"t%d","call":"target.TargetService.Hello","payload":{"name":"d-%d"},"metadata":{"x-id":"%d"}}`+"\n", i, i, i)
	}
	path := vkit.WriteMem([]byte(b.String()))
	defer vkit.RemoveMem(path)
	tgt.ResetCalls()
	ec, err := vkit.DecodePools(map[string]any{"pools": []any{map[string]any{
		"id": "p", "ammo": map[string]any{"type": "grpc/json", "file": path, "passes": 1}, "result": map[string]any{"type": "discard"},
		"gun": gunConf(c, "grpc"), "rps": map[string]any{"type": "const", "ops": 25, "duration": "60s"},
		"startup": map[string]any{"type": "const", "ops": 6, "duration": "30s"},
	}}})
	if err != nil {
		res.Violate("C20/grpcjson-ramp-tail/rejected", fmt.Sprintf("valid pool config rejected: %v", err), c)
		return
	}
	aggr := &vkit.MockAggregator{}
	ec.Pools[0].Aggregator = aggr
	rr := vkit.RunEngine(ec, nil, 120*time.Second)
	if rr.Hang {
		res.Inconclusive(false, "grpc ramp pool did not end within 120s")
		return
	}
	if rr.Err != nil {
		res.Violate("C20/grpcjson-ramp-tail/run-error", fmt.Sprintf("run ended with %v", rr.Err), c)
		return
	}
	arrived := map[string]int{}
	for _, call := range tgt.Calls() {
		name := markerOfName(call.Req)
		id := call.MD.Get("x-id")
		if len(id) != 1 || name != "d-"+id[0] {
			res.Violate("C20/grpcjson-ramp-tail/mixed-entry", fmt.Sprintf("a call arrived with name %q and x-id %v: message and metadata of different entries", name, id), c)
			continue
		}
		arrived[name]++
	}
	var missing []string
	dup := 0
	for i := 0; i < entries; i++ {
		switch n := arrived[fmt.Sprintf("d-%d", i)]; {
		case n == 0:
			missing = append(missing, fmt.Sprintf("d-%d", i))
		case n > 1:
			dup++
		}
	}
	if len(missing) > 0 || dup > 0 {
		res.Violate("C20/grpcjson-ramp-tail/arrival", fmt.Sprintf("%d entries in the file, read once: %d never reached the server (%v), %d arrived more than once", entries, len(missing), missing, dup), c)
	}
	res.Count("calls_matched", int64(len(arrived)))
	res.Count("ramp_tail_runs", 1)
	res.Eval(vkit.JSON(c), true)
}

func runScenarioHCLReload(res *vkit.Result) {
	c := Case{Kind: "scenario-hcl-reload", Instances: 1, TimeoutMs: 3000, Shots: 2}
	hcl := func(call, field, name, run string) string {
		return fmt.Sprintf(`call "c" {
  tag      = "t"
  call     = "target.TargetService.%s"
  payload  = "{\"%s\": \"%s\"}"
  metadata = {
    "x-run" = "%s"
  }
}
scenario "s" {
  weight           = 1
  min_waiting_time = 0
  requests         = ["c"]
}
`, call, field, name, run)
	}
	path := "/c20/reload/ammo.hcl"
	defer vkit.RemoveMem(path)
	versions := []struct{ call, field, name, run string }{{"Hello", "name", "alice", "first"}, {"Auth", "login", "bob", "second"}, {"Hello", "name", "carol", "third"}}
	for i, v := range versions {
		_ = vkit.WriteMemAt(path, []byte(hcl(v.call, v.field, v.name, v.run)))
		tgt.ResetCalls()
		ec, err := vkit.DecodePools(map[string]any{"pools": []any{map[string]any{
			"id": "p", "ammo": map[string]any{"type": "grpc/scenario", "file": path, "limit": c.Shots}, "result": map[string]any{"type": "discard"},
			"gun": gunConf(c, "grpc/scenario"), "rps": map[string]any{"type": "once", "times": c.Shots},
			"startup": map[string]any{"type": "once", "times": 1},
		}}})
		if err != nil {
			res.Violate("C20/scenario-hcl-reload/rejected", fmt.Sprintf("version %d of the file rejected: %v", i+1, err), c)
			return
		}
		ec.Pools[0].Aggregator = &vkit.MockAggregator{}
		rr := vkit.RunEngine(ec, nil, 60*time.Second)
		if rr.Hang || rr.Err != nil {
			res.Violate("C20/scenario-hcl-reload/run-error", fmt.Sprintf("version %d: run ended with %v (hang %v)", i+1, rr.Err, rr.Hang), c)
			return
		}
		calls := tgt.Calls()
		ok := len(calls) == c.Shots
		got := []string{}
		for _, call := range calls {
			run := call.MD.Get("x-run")
			got = append(got, fmt.Sprintf("%s %v x-run=%v", call.Method, call.Req, run))
			if !strings.HasSuffix(call.Method, "/"+v.call) || len(run) != 1 || run[0] != v.run || !strings.Contains(fmt.Sprint(call.Req), v.name) {
				ok = false
			}
		}
		if !ok {
			res.Violate("C20/scenario-hcl-reload/stale-file", fmt.Sprintf("version %d of %s says %s {%s: %s} with x-run=%s, %d shots; the server received %v", i+1, path, v.call, v.field, v.name, v.run, c.Shots, got), c)
			return
		}
		res.Count("calls_matched", int64(len(calls)))
	}
	res.Count("scenario_pools", 1)
	res.Eval(vkit.JSON(c), true)
}

func main() {
	vkit.Fs()
	res := vkit.NewResult("grpc/json pools: 3–12 entries over Hello/Auth/List/Order of the example service with generated field combinations (unicode/quotes in strings, int64 as numbers within ±2^53 and as strings beyond), metadata maps, unknown methods / ill-typed payloads / unknown fields interleaved with good entries, shared-client on/off, 1–8 instances, configured timeout; grpc/scenario pools: two chained calls with payload and metadata templated from a csv row ([next]) and a value captured from the first response; distinct = distinct case descriptions; non-trivial = ≥ 2 entries or shots")
	var err error
	tgt, err = vkit.NewGRPCTarget()
	if err != nil {
		res.Inconclusive(true, "cannot start grpc target: %v", err)
		res.Write()
		return
	}
	if reflTgt, err = vkit.NewGRPCTarget(); err != nil {
		res.Inconclusive(true, "cannot start the second grpc server: %v", err)
		res.Write()
		return
	}
	rng := vkit.Rand("c20")
	n := vkit.N(40, 800)
	vid := 1
	for i := 0; i < n; i++ {
		c := Case{Instances: 1 + rng.Intn(8), Shared: rng.Intn(2) == 0, TimeoutMs: 500 + rng.Intn(3000), Seed: rng.Int63()}
		if i%3 == 2 {
			c.Kind = "scenario"
			c.Rows = 1 + rng.Intn(6)
			c.Shots = 2 + rng.Intn(20)
			runScenario(res, c)
		} else {
			c.Kind = "grpcjson"
			n := 3 + rng.Intn(10)
			if i%4 == 3 {
				// long files: ammo objects are recycled through the provider's pool only after
				// its queue (128 entries) has been filled once
				n = 200 + rng.Intn(400)
			}
			for k := n; k > 0; k-- {
				c.Entries = append(c.Entries, genEntry(rng, vid))
				vid++
			}
			c.ReflectElsewhere = i%5 == 1
			reflTgt.ResetCalls()
			runGrpcJSON(res, c)
			if c.ReflectElsewhere {
				if n := len(reflTgt.Calls()); n > 0 {
					res.Violate("C20/grpcjson/calls-at-reflection-port", fmt.Sprintf("%d calls arrived at the port that is only named as reflect_port; the gun's target is another port", n), c)
				}
				res.Count("pools_with_reflect_port_elsewhere", 1)
			}
		}
		res.Eval(vkit.JSON(c), true)
		if i%13 == 0 {
			res.Sample(c)
		}
	}
	runSlowScenario(res)
	runScenarioHCLReload(res)
	runGrpcJSONDiscard(res, 1, 700)
	runGrpcJSONRampTail(res, 40)
	runGrpcJSONRampTail(res, 23)
	runTemplateErrorScenario(res, 1)
	runTemplateErrorScenario(res, 3)
	vkit.CheckRaceLog(res, "C20")
	if res.Counter("calls_matched") < 100 || res.Counter("bad_entries") < 5 || res.Counter("scenario_pools") < 5 {
		res.Inconclusive(true, "too few calls matched")
	}
	res.Write()
}
