// C13 — Malformed ammo, scenario or config input is rejected, never crashes or hangs.
//
// Mutation fuzzing in child processes (ulimit -v 8 GiB): each case is logged before it runs,
// so the parent knows which input killed a child. Outcome must be "error" or "delivered";
// violation = panic, process-fatal error, hang (10 s watchdog, re-run rule), or a delivered
// entry that differs from the model entry at the same index.
package main

import (
	"bytes"
	"encoding/json"
	"fmt"
	"io"
	"math/rand"
	"net/http"
	"os"
	"path/filepath"
	"runtime/debug"
	"strconv"
	"strings"
	"time"

	"github.com/yandex/pandora/core"
	"github.com/yandex/pandora/core/engine"
	"github.com/yandex/pandora/core/schedule"

	"verif/harness/vkit"
)

type Case struct {
	Kind    string   `json:"kind"`   // ammo scenario config
	Format  string   `json:"format"` // uri uripost raw jsonline grpcjson | http/scenario grpc/scenario | pool
	Ext     string   `json:"ext,omitempty"`
	Mut     string   `json:"mutation"`
	Text    []byte   `json:"text"` // base64 in JSON: ammo files are binary
	Preview string   `json:"text_preview,omitempty"`
	Preload bool     `json:"preload,omitempty"`
	Intact  int      `json:"intact_entries"` // ammo: number of leading entries untouched by the mutation
	Aux     string   `json:"aux,omitempty"`  // scenario: data source content; ammo: JSON model of the unmutated file
	AuxExt  string   `json:"aux_ext,omitempty"`
	Env     []string `json:"env,omitempty"`
}

// ---------------- ammo mutations ----------------

var typeName = map[string]string{"uri": "uri", "uripost": "uripost", "raw": "raw", "jsonline": "http/json", "grpcjson": "grpc/json", "json": "json"}

// stableFile renders a file whose prefix up to entry i is byte-identical whatever follows.
func stableFile(rng *rand.Rand, format string) (vkit.AmmoFile, []int) {
	f := vkit.GenAmmoFile(rng, format, 4, 1)
	f.Layout = vkit.Layout{FinalNewline: true, JSONMode: "lines", Seed: 1}
	var ends []int
	for i := range f.Items {
		if f.Items[i].Entry == nil {
			continue
		}
		g := f
		g.Items = f.Items[:i+1]
		ends = append(ends, len(g.Render()))
	}
	return f, ends
}

func ammoCases(rng *rand.Rand, n int) []Case {
	var out []Case
	formats := []string{"uri", "uripost", "raw", "jsonline"}
	for len(out) < n {
		format := formats[rng.Intn(len(formats))]
		f, ends := stableFile(rng, format)
		data := f.Render()
		modelJSON := vkit.JSON(f.ExpectedPass(nil))
		intactAt := func(pos int) int {
			k := 0
			for _, e := range ends {
				if e <= pos {
					k++
				}
			}
			return k
		}
		add := func(mut string, text []byte, pos int) {
			c := Case{Kind: "ammo", Format: format, Mut: mut, Text: text, Preview: preview(text), Intact: intactAt(pos), Preload: rng.Intn(3) == 0, Aux: modelJSON}
			out = append(out, c)
		}
		// truncation: every offset for small files, sampled otherwise
		if len(data) <= 400 {
			for k := 0; k < len(data); k++ {
				add("truncate", data[:k], k)
			}
		} else {
			for j := 0; j < 40; j++ {
				k := rng.Intn(len(data))
				add("truncate", data[:k], k)
			}
		}
		// size field replacement (uripost / raw): replace the size of a random entry
		if format == "uripost" || format == "raw" {
			for _, repl := range []string{"-1", "-9223372036854775808", "1099511627776", "99999999999999999999", "abc", "", "1e3", "0x10", "+5", "5 5", "0"} {
				k := rng.Intn(len(ends))
				start := 0
				if k > 0 {
					start = ends[k-1]
				}
				// the size is the first token of the entry's header line (skip in-file header lines)
				lines := strings.SplitAfter(string(data[start:]), "\n")
				off := start
				for _, l := range lines {
					if len(l) > 0 && l[0] >= '0' && l[0] <= '9' {
						sp := strings.IndexAny(l, " \n")
						mut := string(data[:off]) + repl + string(data[off+sp:])
						add("size="+repl, []byte(mut), start)
						break
					}
					off += len(l)
				}
			}
		}
		// broken header lines / junk lines inserted before entry k
		for _, junk := range []string{"[Header", "[: v]", "[]", "[", "]", "[K v]", "[K: v", "\x00\x01\x02", "{", "{\"method\": 5}", "{\"method\":\"G T\",\"uri\":\"/\"}", "{\"uri\":\"/\\u0000\"}", "not json", "[1,2", "5", "-", "9999999999 /x", "GET / HTTP/1.1", "1 \n", "3 /x\nab"} {
			k := rng.Intn(len(ends) + 1)
			pos := 0
			if k > 0 {
				pos = ends[k-1]
			}
			mut := string(data[:pos]) + junk + "\n" + string(data[pos:])
			add("junk-line", []byte(mut), pos)
		}
		// random byte flips / inserts
		for j := 0; j < 25; j++ {
			b := append([]byte(nil), data...)
			pos := rng.Intn(len(b))
			switch rng.Intn(3) {
			case 0:
				b[pos] = byte(rng.Intn(256))
			case 1:
				b = append(b[:pos], append([]byte{byte(rng.Intn(256))}, b[pos:]...)...)
			default:
				b = append(b[:pos], b[pos+1:]...)
			}
			add("byte-flip", b, pos)
		}
	}
	// grpc/json lines
	good := `{"tag":"t","call":"target.TargetService.Hello","payload":{"hello":"x"}}`
	for _, l := range []string{"", "\n\n", "{", "null", "[]", "5", `{"tag":5}`, `{"payload":"str"}`, `{"metadata":{"a":1}}`, good[:20], strings.Repeat("x", 70000), good + "\n{"} {
		for _, coe := range []bool{false, true} {
			c := Case{Kind: "ammo", Format: "grpcjson", Mut: "grpcjson-line", Text: []byte(good + "\n" + l + "\n" + good + "\n"), Intact: 0}
			if coe {
				c.Mut += "+continue-on-error"
			}
			out = append(out, c)
		}
	}
	// inputs without a single entry, read with passes: 0 (the default, "repeat for ever"): a
	// provider must find out that there is nothing to repeat instead of rewinding for ever
	for _, format := range []string{"uri", "uripost", "raw", "jsonline", "grpcjson", "json"} {
		for _, text := range []string{"", "\n", "\n\n\n", " ", " \t\n", "\r\n", "[Host: h.example]\n", "[]", "[]\n"} {
			if (text == "[]" || text == "[]\n") && format != "jsonline" && format != "json" {
				continue
			}
			if strings.HasPrefix(text, "[Host") && format != "uri" && format != "uripost" {
				continue
			}
			out = append(out, Case{Kind: "ammo", Format: format, Mut: "no-entries+unbounded", Text: []byte(text)})
		}
	}
	// entries that are well-formed for their format but are no request (a method with a blank in it,
	// a URL that cannot be parsed) between two good ones, in every layout of http/json and in raw,
	// with and without continueonerror and preloading: rejected or skipped, never a crash
	for _, bad := range []string{`{"method": "BAD METHOD", "uri": "/x", "host": "h.example.org"}`, `{"method": "GET", "uri": "http://[::1", "host": "h.example.org"}`, `{"method": "GET", "uri": "/%zz", "host": "h"}`} {
		good := `{"method": "GET", "uri": "/ok?vid=1", "host": "h.example.org", "tag": "t"}`
		for layout, text := range map[string]string{
			"lines": good + "\n" + bad + "\n" + good + "\n",
			"array": "[" + good + ",\n" + bad + ",\n" + good + "]\n",
			"array-bad-first": "[" + bad + ", " + good + "]",
			"array-bad-only":  "[" + bad + "]",
		} {
			for _, pre := range []bool{false, true} {
				for _, mut := range []string{"no-request-entry/" + layout, "no-request-entry/" + layout + "+continue-on-error"} {
					out = append(out, Case{Kind: "ammo", Format: "jsonline", Mut: mut, Text: []byte(text), Preload: pre})
				}
			}
		}
	}
	for _, pre := range []bool{false, true} {
		for _, mut := range []string{"no-request-entry/raw", "no-request-entry/raw+continue-on-error"} {
			g := "GET /ok HTTP/1.1\r\nHost: h.example.org\r\n\r\n"
			b := "BAD METHOD /x HTTP/1.1\r\nHost: h\r\n\r\n"
			out = append(out, Case{Kind: "ammo", Format: "raw", Mut: mut, Preload: pre,
				Text: []byte(fmt.Sprintf("%d t\n%s\n%d t\n%s\n%d t\n%s\n", len(g), g, len(b), b, len(g), g))})
		}
	}
	// files made of nothing but degenerate entries — zero-sized blocks, empty objects, lines that
	// hold a size or a tag and nothing else — read with passes: 0 and with passes: 1, with and
	// without preloading: whether such an entry is refused or handed on, the provider must not
	// read the file again and again without ever delivering or failing
	for format, texts := range map[string][]string{
		"raw":      {"0\n", "0 tag\n0\n", "0\n\n0 t\n\n", "0 tag"},
		"uripost":  {"0\n", "0 \n", "0  tag\n", "0 /\n0 /\n"},
		"uri":      {" tag\n", "\ttag only\n \n"},
		"jsonline": {"{}\n", "{}\n{}\n", "[{}]", "[{},{}]\n", "null\n", "[null]\n"},
		"grpcjson": {"{}\n", "{}\n{}\n", "null\n"},
		"json":     {"{}\n", "null\n", "[]\n[]\n"},
	} {
		for _, text := range texts {
			for _, pre := range []bool{false, true} {
				if pre && (format == "grpcjson" || format == "json") {
					continue
				}
				for _, mut := range []string{"degenerate-entries", "degenerate-entries+unbounded"} {
					out = append(out, Case{Kind: "ammo", Format: format, Mut: mut, Text: []byte(text), Preload: pre})
				}
			}
		}
	}
	// a filter that lets nothing through (chosencases naming a tag no entry has) over well-formed
	// and over cut-short files, with and without preloading, bounded and unbounded: the outcome is
	// an error or an empty delivery, never a crash and never an endless read
	for _, format := range []string{"uri", "uripost", "raw", "jsonline"} {
		f, _ := stableFile(rng, format)
		data := f.Render()
		for _, text := range [][]byte{data, data[:len(data)/2], nil, []byte("\n")} {
			for _, pre := range []bool{false, true} {
				for _, mut := range []string{"chosencases-none", "chosencases-none+unbounded"} {
					out = append(out, Case{Kind: "ammo", Format: format, Mut: mut, Text: text, Preview: preview(text), Preload: pre})
				}
			}
		}
	}
	// entries with bodies just above 1 MiB (where the decoders stop allocating the declared size at
	// once) in front of a malformed line: each must come out with its own bytes
	for _, format := range []string{"uripost", "raw"} {
		for _, pre := range []bool{false, true} {
			out = append(out, Case{Kind: "ammo", Format: format, Mut: "big-bodies", Preload: pre})
		}
	}
	// an ammo file that is not there (removed between writing the config and starting the run)
	for _, format := range []string{"uri", "uripost", "raw", "jsonline", "grpcjson", "json"} {
		for _, mut := range []string{"missing-file", "missing-file+unbounded"} {
			out = append(out, Case{Kind: "ammo", Format: format, Mut: mut, Text: []byte("x\n")})
		}
	}
	out = append(out, Case{Kind: "ammo", Format: "grpcjson", Mut: "empty-file", Text: nil})
	out = append(out, Case{Kind: "ammo", Format: "grpcjson", Mut: "blank-file", Text: []byte("\n\n")})
	return out
}

// bigBodySizes: three entries whose bodies are filled with 'a', 'b', 'c'.
var bigBodySizes = []int{1<<20 + 7, 1<<20 + 4099, 1 << 20}

func bigBodiesFile(format string) []byte {
	var b bytes.Buffer
	for i, n := range bigBodySizes {
		body := bytes.Repeat([]byte{byte('a' + i)}, n)
		if format == "uripost" {
			fmt.Fprintf(&b, "%d /big?vid=%d tag%d\n", n, i, i)
			b.Write(body)
			b.WriteString("\n")
			continue
		}
		blk := fmt.Sprintf("POST /big?vid=%d HTTP/1.1\r\nHost: h.example.org\r\nContent-Length: %d\r\n\r\n", i, n)
		fmt.Fprintf(&b, "%d tag%d\n%s", len(blk)+n, i, blk)
		b.Write(body)
		b.WriteString("\n")
	}
	b.WriteString("this is not an entry\n")
	return b.Bytes()
}

func runAmmo(res *vkit.Result, c Case, final bool, watchdog time.Duration) string {
	key := func(check string) string { return fmt.Sprintf("C13/ammo/%s/%s/%s", c.Format, mutClass(c.Mut), check) }
	if c.Mut == "big-bodies" {
		c.Text = bigBodiesFile(c.Format)
		defer func() { c.Text = nil }()
	}
	path := vkit.WriteMem(c.Text)
	defer vkit.RemoveMem(path)
	conf := map[string]any{"type": typeName[c.Format], "file": path, "passes": 1}
	if c.Format == "json" {
		conf = map[string]any{"type": "json", "source": map[string]any{"type": "file", "path": path}, "passes": 1}
	}
	if strings.Contains(c.Mut, "unbounded") {
		conf["passes"] = 0
	}
	if c.Preload {
		conf["preload"] = true
	}
	if strings.Contains(c.Mut, "continue-on-error") {
		conf["continueonerror"] = true
	}
	if strings.Contains(c.Mut, "chosencases-none") {
		conf["chosencases"] = []any{"verif-no-such-tag"}
	}
	if strings.Contains(c.Mut, "missing-file") {
		vkit.RemoveMem(path)
	}
	var p core.Provider
	var err error
	if pv := catch(func() { p, err = vkit.NewProvider(conf) }); pv != "" {
		res.Violate(key("panic"), "provider creation panicked: "+pv, c)
		return ""
	}
	if err != nil {
		res.Count("outcome_rejected_at_creation", 1)
		return ""
	}
	dr := vkit.Drain(p, 1, 200, watchdog)
	if dr.Panic != "" {
		res.Violate(key("panic"), dr.Panic, c)
		return ""
	}
	if dr.Hang != "" {
		if final {
			res.Violate(key("hang"), "provider neither ended nor failed within "+watchdog.String()+": "+dr.Hang, c)
		}
		return "hang"
	}
	if dr.RunErr != nil {
		res.Count("outcome_error", 1)
	} else {
		res.Count("outcome_delivered", 1)
		// "truncated entries are rejected with an error": where the format's own framing shows that
		// the last entry is cut (declared size larger than what is left; an unfinished JSON value),
		// ending without an error means the cut entry was silently swallowed
		if c.Mut == "truncate" && !strings.Contains(c.Mut, "continue-on-error") {
			if why := cutEntry(c); why != "" {
				res.Violate(key("truncated-entry-accepted"), fmt.Sprintf("%s, yet the provider ended without an error after delivering %d ammo", why, len(dr.Items)), c)
			}
			res.Count("truncations_judged_for_rejection", 1)
		}
	}
	// "never alters how well-formed entries before it are delivered": what a consumer gets of the
	// entries in front of the malformed one must not depend on how quickly it comes for them. The
	// same file is given to a second provider whose only consumer arrives once Run has failed (or
	// sits blocked on its full queue): it must be handed as many entries as the prompt consumer was.
	if dr.RunErr != nil && !dr.Cancelled && !dr.EndedByConsumers && len(dr.Items) > 0 && !strings.Contains(c.Mut, "unbounded") {
		var p2 core.Provider
		var err2 error
		if pv := catch(func() { p2, err2 = vkit.NewProvider(conf) }); pv == "" && err2 == nil {
			late := vkit.DrainLate(p2, 200, watchdog, 60*time.Millisecond)
			if late.Panic == "" && late.Hang == "" && !late.Cancelled && !late.EndedByConsumers {
				if late.RunErr == nil {
					res.Violate(key("late-consumer/no-error"), fmt.Sprintf("with a prompt consumer the provider failed (%v); with a consumer that arrives late it ended without an error", dr.RunErr), c)
				} else if len(late.Items) != len(dr.Items) {
					res.Violate(key("late-consumer/prefix-lost"), fmt.Sprintf("%d entries precede the malformed one and reach a prompt consumer; a consumer that arrives after the provider has met the malformed entry is handed %d of them (provider error: %v)", len(dr.Items), len(late.Items), late.RunErr), c)
				}
				res.Count("late_consumer_runs", 1)
				res.Count("late_consumer_entries", int64(len(late.Items)))
			}
		}
	}
	if c.Mut == "big-bodies" {
		for i, a := range dr.Items {
			if i >= len(bigBodySizes) {
				break
			}
			g, err := vkit.OpenHTTPAmmo(a)
			if err != nil {
				res.Violate(key("prefix-altered"), fmt.Sprintf("entry %d cannot be opened: %v", i, err), Case{Kind: c.Kind, Format: c.Format, Mut: c.Mut, Preload: c.Preload})
				break
			}
			if want := bytes.Repeat([]byte{byte('a' + i)}, bigBodySizes[i]); !bytes.Equal(g.Body, want) {
				first := -1
				for k := 0; k < len(g.Body) && k < len(want); k++ {
					if g.Body[k] != want[k] {
						first = k
						break
					}
				}
				res.Violate(key("prefix-altered"), fmt.Sprintf("entry %d precedes the malformed line and has a body of %d bytes %q; it was delivered with %d bytes, first difference at offset %d", i, len(want), string(want[:1]), len(g.Body), first),
					Case{Kind: c.Kind, Format: c.Format, Mut: c.Mut, Preload: c.Preload})
				break
			}
			res.Count("intact_entries_compared", 1)
			res.Count("big_bodies_compared", 1)
		}
	}
	// well-formed entries before the corruption must come out unchanged
	if c.Format != "grpcjson" && c.Aux != "" {
		var model []vkit.Expect
		_ = json.Unmarshal([]byte(c.Aux), &model)
		for i, a := range dr.Items {
			if i >= c.Intact || i >= len(model) {
				break
			}
			g, err := vkit.OpenHTTPAmmo(a)
			if err != nil {
				res.Violate(key("prefix-altered"), fmt.Sprintf("intact entry %d cannot be opened: %v", i, err), c)
				break
			}
			if d := vkit.DiffExpect(g, model[i]); d != "" {
				res.Violate(key("prefix-altered"), fmt.Sprintf("entry %d precedes the corruption but was delivered altered: %s", i, d), c)
				break
			}
			res.Count("intact_entries_compared", 1)
		}
	}
	return ""
}

// cutEntry says why the input's last entry is certainly incomplete by the format's own framing
// ("" when it cannot be told, e.g. a uri line cut short is still a uri line).
func cutEntry(c Case) string {
	text := string(c.Text)
	switch c.Format {
	case "uripost", "raw":
		// walk the entries: "<size> …\n" followed by size bytes
		off := 0
		for off < len(text) {
			nl := strings.IndexByte(text[off:], '\n')
			if nl < 0 {
				return "" // header line itself is cut: not judged
			}
			line := strings.TrimSpace(text[off : off+nl])
			next := off + nl + 1
			if line == "" || strings.HasPrefix(line, "[") {
				off = next
				continue
			}
			tok := strings.Fields(line)[0]
			size, err := strconv.Atoi(tok)
			if err != nil || size < 0 {
				return ""
			}
			if size > 0 && size <= 1<<20 && next+size > len(text) {
				return fmt.Sprintf("the last entry declares %d bytes but only %d follow its header line", size, len(text)-next)
			}
			off = next + size
		}
	case "jsonline":
		dec := json.NewDecoder(strings.NewReader(text))
		for {
			var v any
			err := dec.Decode(&v)
			if err == io.EOF {
				return ""
			}
			if err != nil {
				if strings.TrimSpace(text) == "" {
					return ""
				}
				return "the file ends inside a JSON value (" + err.Error() + ")"
			}
		}
	}
	return ""
}

func preview(b []byte) string {
	if len(b) > 600 {
		return fmt.Sprintf("%q…(%d bytes)", b[:600], len(b))
	}
	return fmt.Sprintf("%q", b)
}

func mutClass(m string) string {
	if strings.HasPrefix(m, "size=") {
		v := strings.TrimPrefix(m, "size=")
		switch {
		case strings.HasPrefix(v, "-"):
			return "size-negative"
		case v == "1099511627776":
			return "size-huge"
		default:
			return "size-other"
		}
	}
	return m
}

func catch(f func()) (pv string) {
	defer func() {
		if r := recover(); r != nil {
			pv = fmt.Sprintf("%v\n%s", r, debug.Stack())
		}
	}()
	f()
	return ""
}

// ---------------- scenario mutations ----------------

const httpScenarioYAML = `variable_sources:
  - type: "variables"
    name: "vars"
    variables: {"a": "1", "r": "@@VARFUNC@@"}
  - type: "file/csv"
    name: "users"
    file: "@@AUX@@"
    fields: ["id", "name"]
requests:
  - name: "r1"
    method: "@@METHOD@@"
    uri: "@@URI@@"
    headers: {"X-A": "{{.source.vars.a}}"}
    preprocessor:
      mapping: {"u": "@@PREMAP@@"}
    postprocessors:
      - type: "var/header"
        mapping: {"ct": "@@HDRMAP@@"}
      - type: "var/jsonpath"
        mapping: {"tok": "@@JSONPATH@@"}
      - type: "var/xpath"
        mapping: {"t": "@@XPATH@@"}
  - name: "r2"
    method: "POST"
    uri: "/r2"
    headers: {}
    body: "@@BODY@@"
scenarios:
  - name: "s1"
    weight: 1
    min_waiting_time: 0
    requests: @@REQS@@
`

const httpScenarioHCL = `variable_source "vars" "variables" {
  variables = {
    a = "1"
    r = "@@VARFUNC@@"
  }
}
variable_source "users" "file/csv" {
  file   = "@@AUX@@"
  fields = ["id", "name"]
}
request "r1" {
  method  = "@@METHOD@@"
  uri     = "@@URI@@"
  headers = {
    X-A = "{{.source.vars.a}}"
  }
  preprocessor {
    mapping = {
      u = "@@PREMAP@@"
    }
  }
  postprocessor "var/header" {
    mapping = {
      ct = "@@HDRMAP@@"
    }
  }
  postprocessor "var/jsonpath" {
    mapping = {
      tok = "@@JSONPATH@@"
    }
  }
  postprocessor "var/xpath" {
    mapping = {
      t = "@@XPATH@@"
    }
  }
}
request "r2" {
  method  = "POST"
  uri     = "/r2"
  headers = {}
  body    = "@@BODY@@"
}
scenario "s1" {
  weight           = 1
  min_waiting_time = 0
  requests         = @@REQS@@
}
`

const grpcScenarioYAML = `variable_sources:
  - type: "file/csv"
    name: "users"
    file: "@@AUX@@"
    fields: ["id", "name"]
calls:
  - name: "c1"
    tag: "t"
    call: "target.TargetService.Hello"
    payload: '{"hello": "x"}'
    metadata: {"m": "v"}
    preprocessors:
      - type: "prepare"
        mapping: {"u": "@@PREMAP@@"}
scenarios:
  - name: "s1"
    weight: 1
    min_waiting_time: 0
    requests: @@REQS@@
`

var defaults = map[string]string{
	"VARFUNC": "plain", "METHOD": "GET", "URI": "/r1?u={{.request.r1.preprocessor.u}}", "PREMAP": "source.users[next].id",
	"HDRMAP": "Content-Type|lower", "JSONPATH": "$.tok", "XPATH": "//title/text()", "BODY": "x={{.request.r1.postprocessor.tok}}",
	"REQS": `["r1", "r2(2)", "sleep(1)"]`, "WEIGHT": "1", "WEIGHT2": "2", "MWT": "0",
}

// two weighted scenarios: the templates above with a second scenario and open weight slots
func twoScenarios(tmpl, ext string, grpc bool) string {
	req := "r2"
	if grpc {
		req = "c1"
	}
	if ext == "hcl" {
		tmpl = strings.Replace(tmpl, "weight           = 1", "weight           = @@WEIGHT@@", 1)
		return tmpl + "scenario \"s2\" {\n  weight           = @@WEIGHT2@@\n  min_waiting_time = @@MWT@@\n  requests         = [\"" + req + "\"]\n}\n"
	}
	tmpl = strings.Replace(tmpl, "weight: 1", "weight: @@WEIGHT@@", 1)
	return tmpl + "  - name: \"s2\"\n    weight: @@WEIGHT2@@\n    min_waiting_time: @@MWT@@\n    requests: [\"" + req + "\"]\n"
}

var weightMutations = map[string][]string{
	"WEIGHT":  {"-1", "-5", "0", "3", "100000", "1.5", "\"x\"", "99999999999999999999", "-9223372036854775808", "null"},
	"WEIGHT2": {"-1", "-2", "0", "-100000"},
	"MWT":     {"-5", "1.5", "\"x\"", "99999999999999999999"},
}

var slotMutations = map[string][]string{
	"REQS": {`["nope"]`, `["sleep(5)", "r1"]`, `["sleep(5)"]`, `["r1(x)"]`, `["r1(2"]`, `["r1)"]`, `["r1(1,y)"]`, `["r1(-1)"]`, `["r1(0)"]`, `["r1()"]`, `["r1(1,2,3)"]`, `[]`, `[""]`, `["("]`, `["r1(99999999999999999999)"]`, `["r1", "sleep(x)"]`, `["r1 (2)"]`},
	"PREMAP": {"source.users[0].id", "source.users[next].id", "source.users[rand].id", "source.users[last].id", "source.users[-1].id", "source.users[-2].id", "source.users[-3].id", "source.users[-5].id", "source.users[-100].id", "source.users[1].id", "source.users[2].id", "source.users[5].id", "source.users[1000000].id", "source.users[abc].id", "source.users[].id", "source.users[99].id",
		"source.nosuch[next].id", "source.users", "source.users[next]", "source", "", ".", "source.users[next].id.deeper", "randString(-5)", "randString(100000)", "randInt(5,5)", "randInt(a,b)", "randInt(1,2,3)", "uuid(1)", "randString(", "source.vars.a[0]"},
	"HDRMAP":   {"X-Short|substr(100)", "X-Short|substr(5,2)", "X-Short|substr(a)", "X-Short|nomod", "X-Short|substr(-100)", "X-Short|substr(1,-100)", "X-Short|substr(-10,-8)", "X-Short|substr(-100,-50)", "X-Short|substr(-1,-100)", "X-Short|substr(100,200)", "X-Short|substr(-3)", "X-Short|substr(0,0)", "X-Short|substr()", "X-Short|replace(a)", "X-Short|", "|upper", "X-Short|upper|substr(1,100)|lower", "X-Short|substr(2,1)"},
	"JSONPATH": {"$..[", "$.x[", "", "$", "tok", "$.tok.deeper.more", "$[0]"},
	"XPATH":    {"count(//a)", "1+1", "//a[", "", "string(//title)", "//*", "boolean(1)"},
	"BODY":     {"{{.missing.x}}", "{{", "{{ index .source 5 }}", "{{randInt 5 1}}", "{{randString -1}}", "{{randInt 5 5}}", "{{uuid 1 2}}", "{{template \\\"x\\\"}}", "{{.request.r1.postprocessor.tok.deeper}}"},
	"URI":      {"{{", "/ with space", "/\\u0000", "http://[::1", "{{.request.r1.preprocessor.nope}}", ""},
	"METHOD":   {"G ET", "", "GET\\n", "ЖЖ"},
	"VARFUNC":  {"randInt(5,5)", "randString(-1)", "randInt(x)", "randString(1,2,3)", "uuid()", "randInt("},
}

func fill(tmpl string, over map[string]string, aux string) string {
	s := tmpl
	for k, v := range defaults {
		if o, ok := over[k]; ok {
			v = o
		}
		s = strings.ReplaceAll(s, "@@"+k+"@@", v)
	}
	return strings.ReplaceAll(s, "@@AUX@@", aux)
}

// reqLists enumerates request lists over a small item grammar: every sequence of length ≤ 2
// (and, in the thorough tier, 3; a seeded sample of them in the quick tier) of plain names,
// multiplicities incl. 0 and negative ones, per-request sleeps, sleep() items and unknown names.
func reqLists(rng *rand.Rand, quick bool) []string {
	items := []string{"r1", "r2", "r1(0)", "r1(-1)", "r1(2)", "r1(0, 5)", "r1(-1, 50)", "r1(1, -5)", "r2(2, 0)", "sleep(5)", "sleep(0)", "sleep(-5)", "sleep()", "nope"}
	var out []string
	q := func(xs ...string) string {
		for i := range xs {
			xs[i] = `"` + xs[i] + `"`
		}
		return "[" + strings.Join(xs, ", ") + "]"
	}
	for _, a := range items {
		out = append(out, q(a))
		for _, b := range items {
			out = append(out, q(a, b))
			for _, c := range items {
				if !quick || rng.Intn(14) == 0 {
					out = append(out, q(a, b, c))
				}
			}
		}
	}
	return out
}

func scenarioCases(rng *rand.Rand, quick bool) []Case {
	var out []Case
	csvs := map[string]string{"rows": "1,alice\n2,bob\n", "empty": "", "one": "7,x\n"}
	for _, rl := range reqLists(rng, quick) {
		out = append(out, Case{Kind: "scenario", Format: "http/scenario", Ext: "yaml", Mut: "REQS=" + rl + " csv=rows",
			Text: []byte(fill(httpScenarioYAML, map[string]string{"REQS": rl}, "@@AUXPATH@@")), Aux: csvs["rows"]})
		gl := strings.ReplaceAll(strings.ReplaceAll(rl, "r1", "c1"), "r2", "c1")
		out = append(out, Case{Kind: "scenario", Format: "grpc/scenario", Ext: "yaml", Mut: "REQS=" + gl + " csv=rows",
			Text: []byte(fill(grpcScenarioYAML, map[string]string{"REQS": gl}, "@@AUXPATH@@")), Aux: csvs["rows"]})
	}
	// csv data that does not match the declared fields (["id", "name"]): fewer or more columns,
	// ragged rows, blank lines, stray quotes, CRLF, a BOM — × a few ways of picking a row
	shapes := map[string]string{"narrow": "1\n2\n", "wide": "1,a,b,c\n2,d,e,f\n", "ragged-short": "1,a\n2\n", "ragged-long": "1\n2,b\n",
		"blank-lines": "\n\n1,a\n\n2,b\n", "stray-quote": "1,\"a\n2,b\n", "crlf": "1,a\r\n2,b\r\n", "bom": "\ufeff1,a\n2,b\n", "only-commas": ",,,\n", "nul": "1,a\x00\n"}
	for shape, csv := range shapes {
		for _, m := range []string{"source.users[0].id", "source.users[next].name", "source.users[-1].name", "source.users[1].id", "source.users[rand].name"} {
			for _, ext := range []string{"yaml", "hcl"} {
				tmpl := httpScenarioYAML
				if ext == "hcl" {
					tmpl = httpScenarioHCL
				}
				out = append(out, Case{Kind: "scenario", Format: "http/scenario", Ext: ext, Mut: "PREMAP=" + m + " csv=" + shape,
					Text: []byte(fill(tmpl, map[string]string{"PREMAP": m}, "@@AUXPATH@@")), Aux: csv})
			}
			out = append(out, Case{Kind: "scenario", Format: "grpc/scenario", Ext: "yaml", Mut: "PREMAP=" + m + " csv=" + shape,
				Text: []byte(fill(grpcScenarioYAML, map[string]string{"PREMAP": m, "REQS": `["c1"]`}, "@@AUXPATH@@")), Aux: csv})
		}
	}
	for slot, muts := range weightMutations {
		for _, m := range muts {
			for _, ext := range []string{"yaml", "hcl"} {
				tmpl := httpScenarioYAML
				if ext == "hcl" {
					tmpl = httpScenarioHCL
				}
				out = append(out, Case{Kind: "scenario", Format: "http/scenario", Ext: ext, Mut: slot + "=" + m + " two-scenarios",
					Text: []byte(fill(twoScenarios(tmpl, ext, false), map[string]string{slot: m}, "@@AUXPATH@@")), Aux: csvs["rows"]})
			}
			out = append(out, Case{Kind: "scenario", Format: "grpc/scenario", Ext: "yaml", Mut: slot + "=" + m + " two-scenarios",
				Text: []byte(fill(twoScenarios(grpcScenarioYAML, "yaml", true), map[string]string{slot: m, "REQS": `["c1"]`}, "@@AUXPATH@@")), Aux: csvs["rows"]})
		}
	}
	// name collisions: two scenarios under one name (alone, and next to a third with a name of its
	// own), two requests under one name, a scenario named like a request
	for _, ext := range []string{"yaml", "hcl"} {
		tmpl := httpScenarioYAML
		if ext == "hcl" {
			tmpl = httpScenarioHCL
		}
		two := fill(twoScenarios(tmpl, ext, false), nil, "@@AUXPATH@@")
		third := "  - name: \"s3\"\n    weight: 2\n    min_waiting_time: 0\n    requests: [\"r1\"]\n"
		if ext == "hcl" {
			third = "scenario \"s3\" {\n  weight           = 2\n  min_waiting_time = 0\n  requests         = [\"r1\"]\n}\n"
		}
		for name, text := range map[string]string{
			"both-scenarios-s1":       strings.Replace(two, `"s2"`, `"s1"`, 1),
			"two-of-three-scenarios":  strings.Replace(two, `"s2"`, `"s1"`, 1) + third,
			"both-requests-r1":        strings.Replace(strings.Replace(two, `name: "r2"`, `name: "r1"`, 1), `request "r2"`, `request "r1"`, 1),
			"scenario-named-like-req": strings.Replace(two, `"s2"`, `"r1"`, 1),
		} {
			out = append(out, Case{Kind: "scenario", Format: "http/scenario", Ext: ext, Mut: "names=" + name, Text: []byte(text), Aux: csvs["rows"]})
		}
	}
	{
		two := fill(twoScenarios(grpcScenarioYAML, "yaml", true), map[string]string{"REQS": `["c1"]`}, "@@AUXPATH@@")
		out = append(out, Case{Kind: "scenario", Format: "grpc/scenario", Ext: "yaml", Mut: "names=both-scenarios-s1", Text: []byte(strings.Replace(two, `"s2"`, `"s1"`, 1)), Aux: csvs["rows"]})
		out = append(out, Case{Kind: "scenario", Format: "grpc/scenario", Ext: "yaml", Mut: "names=two-of-three-scenarios",
			Text: []byte(strings.Replace(two, `"s2"`, `"s1"`, 1) + "  - name: \"s3\"\n    weight: 2\n    min_waiting_time: 0\n    requests: [\"c1\"]\n"), Aux: csvs["rows"]})
	}
	for slot, muts := range slotMutations {
		for _, m := range muts {
			for csvName, csv := range csvs {
				if slot != "PREMAP" && csvName != "rows" {
					continue
				}
				for _, ext := range []string{"yaml", "hcl"} {
					tmpl := httpScenarioYAML
					if ext == "hcl" {
						tmpl = httpScenarioHCL
					}
					out = append(out, Case{Kind: "scenario", Format: "http/scenario", Ext: ext, Mut: slot + "=" + m + " csv=" + csvName,
						Text: []byte(fill(tmpl, map[string]string{slot: m}, "@@AUXPATH@@")), Aux: csv})
				}
				if slot == "REQS" || slot == "PREMAP" {
					mm := strings.ReplaceAll(strings.ReplaceAll(m, "r1", "c1"), "r2", "c1")
					out = append(out, Case{Kind: "scenario", Format: "grpc/scenario", Ext: "yaml", Mut: slot + "=" + mm + " csv=" + csvName,
						Text: []byte(fill(grpcScenarioYAML, map[string]string{slot: mm, "REQS": pick(slot == "REQS", mm, `["c1"]`)}, "@@AUXPATH@@")), Aux: csv})
				}
			}
		}
	}
	// truncation of the valid descriptions
	for _, ext := range []string{"yaml", "hcl"} {
		tmpl := httpScenarioYAML
		if ext == "hcl" {
			tmpl = httpScenarioHCL
		}
		full := fill(tmpl, nil, "@@AUXPATH@@")
		step := 1
		if quick {
			step = 7
		}
		for k := 0; k < len(full); k += step {
			out = append(out, Case{Kind: "scenario", Format: "http/scenario", Ext: ext, Mut: "truncate", Text: []byte(full[:k]), Aux: csvs["rows"]})
		}
		for j := 0; j < 60; j++ {
			b := []byte(full)
			pos := rng.Intn(len(b))
			const junk = "{}[]()\"':,=\n #@$"
			b[pos] = junk[rng.Intn(len(junk))]
			out = append(out, Case{Kind: "scenario", Format: "http/scenario", Ext: ext, Mut: "byte-flip", Text: b, Aux: csvs["rows"]})
		}
	}
	return out
}

func pick(c bool, a, b string) string {
	if c {
		return a
	}
	return b
}

var target *vkit.HTTPTarget

func runScenario(res *vkit.Result, c Case, final bool, watchdog time.Duration) string {
	mut := c.Mut
	if i := strings.Index(mut, " csv="); i >= 0 && strings.HasSuffix(mut, "csv=empty") {
		mut = mut[:strings.Index(mut, "=")] + "/empty-source"
	} else if i := strings.Index(mut, "="); i >= 0 {
		mut = strings.TrimSpace(strings.Split(mut, " csv=")[0])
	}
	key := func(check string) string { return fmt.Sprintf("C13/scenario/%s.%s/%s/%s", c.Format, c.Ext, mut, check) }
	aux := vkit.WriteMem([]byte(c.Aux))
	defer vkit.RemoveMem(aux)
	base := vkit.WriteMem(nil)
	vkit.RemoveMem(base)
	path := base + "." + c.Ext
	_ = vkit.WriteMemAt(path, []byte(strings.ReplaceAll(string(c.Text), "@@AUXPATH@@", aux)))
	defer vkit.RemoveMem(path)
	var p core.Provider
	var err error
	if pv := catch(func() { p, err = vkit.NewProvider(map[string]any{"type": c.Format, "file": path, "limit": 2}) }); pv != "" {
		res.Violate(key("panic"), "provider creation panicked: "+pv, c)
		return ""
	}
	if err != nil {
		res.Count("outcome_rejected_at_creation", 1)
		return ""
	}
	if c.Format == "grpc/scenario" {
		dr := vkit.Drain(p, 1, 10, watchdog)
		if dr.Panic != "" {
			res.Violate(key("panic"), dr.Panic, c)
		} else if dr.Hang != "" {
			if final {
				res.Violate(key("hang"), dr.Hang, c)
			}
			return "hang"
		}
		res.Count("outcome_delivered", 1)
		return ""
	}
	// one or two shots through the real gun against the local target
	ec, err := vkit.DecodePools(map[string]any{"pools": []any{map[string]any{
		"id": "p", "ammo": map[string]any{"type": "dummy"}, "result": map[string]any{"type": "discard"},
		"gun":     map[string]any{"type": "http/scenario", "target": target.Addr},
		"rps":     map[string]any{"type": "once", "times": 5},
		"startup": map[string]any{"type": "once", "times": 1},
	}}})
	if err != nil {
		res.Inconclusive(true, "harness pool config rejected: %v", err)
		return ""
	}
	ec.Pools[0].Provider = p
	ec.Pools[0].Aggregator = &vkit.MockAggregator{}
	var rr vkit.RunResult
	if pv := catch(func() { rr = vkit.RunEngine(ec, nil, watchdog) }); pv != "" {
		res.Violate(key("panic"), "engine run panicked: "+pv, c)
		return ""
	}
	if rr.Hang || rr.WaitHang {
		if final {
			res.Violate(key("hang"), "run did not end within "+watchdog.String()+"\n"+rr.Stacks, c)
		}
		return "hang"
	}
	if rr.Err != nil && strings.Contains(rr.Err.Error(), "shoot panic") {
		res.Violate(key("shoot-panic"), "the shot panicked: "+rr.Err.Error(), c)
		return ""
	}
	if rr.Err != nil {
		res.Count("outcome_error", 1)
	} else {
		res.Count("outcome_delivered", 1)
	}
	return ""
}

// ---------------- config mutations ----------------

func configCases() []Case {
	base := func() map[string]any {
		return map[string]any{"pools": []any{map[string]any{
			"id":      "p",
			"ammo":    map[string]any{"type": "uri", "uris": []any{"/a", "/b"}, "limit": 3},
			"result":  map[string]any{"type": "phout", "destination": "/verif/phout-c13.log"},
			"gun":     map[string]any{"type": "http", "target": "127.0.0.1:1", "dial": map[string]any{"timeout": "1s"}},
			"rps":     []any{map[string]any{"type": "const", "ops": 5, "duration": "1s"}, map[string]any{"type": "line", "from": 1, "to": 2, "duration": "1s"}},
			"startup": map[string]any{"type": "once", "times": 1},
		}}}
	}
	paths := [][]string{{"ammo", "limit"}, {"ammo", "type"}, {"gun", "target"}, {"gun", "dial", "timeout"}, {"rps", "0", "ops"}, {"rps", "0", "duration"}, {"rps", "1", "from"},
		{"startup", "times"}, {"result", "destination"}, {"id"}, {"gun", "ssl"}, {"ammo", "uris"}, {"rps"}, {"gun"}, {"ammo", "headers"}}
	values := []any{"${property:/nonexistent-file}", "${property:}", "${property:#}", "${property:/etc/hostname}", "${property:/etc/hostname#nokey}", "${env:}", "${:x}", "${env:VERIF_UNSET_VAR_XYZ}", "${", "${}",
		"${env:VERIF_SET}", "${ENV:VERIF_SET}${env:VERIF_SET}", "${unknown:x}", "-1s", "-5", -5, 1e300, "1e999", nil, []any{}, map[string]any{}, map[string]any{"type": 5}, []any{1, "x"}, true, "", "\x00", strings.Repeat("9", 40), "0x10", "1_000"}
	// a properties file with everything but well-formed lines, and placeholders that name its odd lines
	propFile := filepath.Join(os.Getenv("VERIF_TMP"), "c13-odd.properties")
	_ = os.WriteFile(propFile, []byte("\n\nbare\n=novalue\nempty=\nk=v=w\n spaced = x \n#comment\ndup=1\ndup=2\nnum=3\n\x00\xff=bin\nlast-without-newline"), 0o644)
	for _, k := range []string{"", "bare", "=novalue", "empty", "k", " spaced ", "spaced", "#comment", "dup", "num", "nokey", "last-without-newline", "\x00\xff", "#"} {
		values = append(values, "${property:"+propFile+"#"+k+"}")
	}
	var out []Case
	for _, p := range paths {
		for _, v := range values {
			m := base()
			setPath(m["pools"].([]any)[0].(map[string]any), p, v)
			b, _ := json.Marshal(m)
			out = append(out, Case{Kind: "config", Format: "pool", Mut: strings.Join(p, ".") + "=" + fmt.Sprint(v), Text: b, Env: []string{"VERIF_SET=7"}})
		}
	}
	return out
}

func setPath(m map[string]any, path []string, v any) {
	var cur any = m
	for i, k := range path {
		last := i == len(path)-1
		switch c := cur.(type) {
		case map[string]any:
			if last {
				c[k] = v
				return
			}
			cur = c[k]
		case []any:
			idx := int(k[0] - '0')
			if last {
				c[idx] = v
				return
			}
			cur = c[idx]
		}
	}
}

func runConfig(res *vkit.Result, c Case) {
	cls := c.Mut
	if i := strings.Index(cls, "="); i >= 0 {
		v := cls[i+1:]
		switch {
		case strings.HasPrefix(v, "${property:"):
			cls = "placeholder-property"
		case strings.HasPrefix(v, "${"):
			cls = "placeholder-other"
		default:
			cls = "value"
		}
	}
	key := func(check string) string { return fmt.Sprintf("C13/config/%s/%s", cls, check) }
	var m map[string]any
	_ = json.Unmarshal(c.Text, &m)
	os.Setenv("VERIF_SET", "7")
	var ec engine.Config
	var err error
	if pv := catch(func() { ec, err = vkit.DecodePools(m) }); pv != "" {
		res.Violate(key("panic"), "config decoding panicked: "+pv, c)
		return
	}
	if err != nil {
		res.Count("outcome_rejected_at_creation", 1)
		return
	}
	// first use of the lazily decoded factories
	if pv := catch(func() {
		for _, p := range ec.Pools {
			_, _ = p.NewGun()
			_, _ = p.NewRPSSchedule()
		}
	}); pv != "" {
		res.Violate(key("panic"), "first factory call panicked: "+pv, c)
		return
	}
	res.Count("outcome_delivered", 1)
}

// ---------------- driver ----------------

func child() {
	vkit.Fs()
	res := vkit.NewResult("")
	var err error
	target, err = vkit.NewHTTPTarget(false)
	if err != nil {
		res.Inconclusive(true, "cannot start target: %v", err)
		res.ChildDone()
		return
	}
	target.Respond = func(rec *vkit.ReqRec, w http.ResponseWriter, r *http.Request) {
		w.Header().Set("Content-Type", "application/json")
		w.Header().Set("X-Short", "ab")
		_, _ = w.Write([]byte(`{"tok":"abc","items":[1,2]}<html><title>T</title></html>`))
	}
	hangs := 0
	for i, raw := range vkit.ChildCases() {
		var c Case
		_ = json.Unmarshal(raw, &c)
		vkit.LogCase(i)
		if hangs >= 3 {
			res.Count("skipped_after_3_hangs", 1)
			continue
		}
		run := func(final bool, wd time.Duration) string {
			switch c.Kind {
			case "ammo":
				return runAmmo(res, c, final, wd)
			case "scenario":
				return runScenario(res, c, final, wd)
			default:
				runConfig(res, c)
				return ""
			}
		}
		if run(false, 3*time.Second) == "hang" {
			if run(true, 10*time.Second) == "hang" {
				hangs++
			} else {
				res.Inconclusive(false, "case hung once under 3s but not when re-run: %s %s", c.Kind, c.Mut)
			}
		}
		res.Eval(c.Kind+c.Format+c.Ext+string(c.Text)+fmt.Sprint(c.Preload), len(c.Text) > 0)
		res.Count("cases_"+c.Kind, 1)
		if i%500 == 0 {
			t := preview(c.Text)
			res.Sample(map[string]any{"kind": c.Kind, "format": c.Format, "mutation": c.Mut, "text": t})
		}
	}
	res.ChildDone()
}

func main() {
	_ = schedule.NewOnce
	if vkit.IsChild() {
		child()
		return
	}
	res := vkit.NewResult("mutation fuzzing: (i) well-formed uri/uripost/raw/http-json files truncated at every byte offset (files ≤ 400 B), size fields replaced by negative/huge/non-numeric values, junk and broken header lines inserted, random byte flips; grpc/json lines incl. continue-on-error; (ii) HTTP (YAML+HCL) and gRPC scenario descriptions with every slot (request lists, preprocessor paths incl. empty data sources × [0]/[next]/[rand]/[last], header modifiers, jsonpath, xpath, templates, method, uri, variable functions) replaced by hostile values, truncations and byte flips, run through the providers and the real http/scenario gun against a local target; (iii) pool configs with placeholder/typed-value mutations at 15 paths; distinct = distinct input texts; non-trivial = non-empty input")
	rng := vkit.Rand("c13")
	var cases []Case
	// ammo (with the model of the intact prefix shipped in Aux)
	nAmmo := vkit.N(4000, 250000)
	cases = append(cases, ammoCases(rng, nAmmo)...)
	cases = append(cases, scenarioCases(rng, !vkit.Thorough())...)
	cases = append(cases, configCases()...)
	rng.Shuffle(len(cases), func(i, j int) { cases[i], cases[j] = cases[j], cases[i] })
	vkit.RunChildren(res, vkit.ChildSpec{Kind: "fuzz", Batches: vkit.Batches(cases, 400), Parallel: 16, Timeout: 20 * time.Minute, MemKB: 8 << 20,
		OnCrash: func(cr vkit.Crash) {
			var c Case
			_ = json.Unmarshal(cr.Case, &c)
			cls := c.Mut
			if c.Kind == "ammo" {
				cls = mutClass(c.Mut)
			}
			what := "process-died"
			if cr.TimedOut {
				what = "process-hung"
			} else if strings.Contains(cr.Output, "out of memory") || strings.Contains(cr.Output, "cannot allocate memory") {
				what = "out-of-memory"
			}
			res.Violate(fmt.Sprintf("C13/%s/%s/%s/%s", c.Kind, c.Format, cls, what), "child process died while handling this input:\n"+cr.Output, c)
		}})
	if res.Counter("cases_ammo") < 1000 || res.Counter("cases_scenario") < 200 || res.Counter("cases_config") < 100 {
		res.Inconclusive(true, "too few cases ran")
	}
	res.Write()
}
