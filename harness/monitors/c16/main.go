// C16 — A scenario means the same whether written in HCL or in YAML.
//
// Differential monitor: an abstract scenario description is rendered to HCL (plain, and
// with locals/collection functions whose value equals the literal) and to YAML; both texts go
// through the real front-ends (ReadAmmoConfig by file extension) and the real scenario
// providers; the results are compared with a normalised deep diff at the AmmoConfig level and
// at the delivered-ammo level. A third, independent oracle compares the decoded config with
// the abstract description itself, so a field lost by *both* paths is noticed too.
package main

import (
	"bytes"
	"context"
	"encoding/json"
	"fmt"
	"golang.org/x/text/unicode/norm"
	"math/rand"
	"reflect"
	"regexp"
	"strings"
	"sync"
	"time"

	grpcgun "github.com/yandex/pandora/components/guns/grpc/scenario"
	httpscenario "github.com/yandex/pandora/components/guns/http_scenario"
	sconfig "github.com/yandex/pandora/components/providers/scenario/config"
	"github.com/yandex/pandora/core"

	"verif/harness/vkit"
)

// ---------------------------------------------------------------- abstract description

type KV struct{ K, V string }

type Src struct {
	Kind      string // file/csv file/json variables
	Name      string
	File      string
	Fields    []string
	HasFields bool
	Ignore    *bool
	Delim     *string
	Vars      []KV
}

type Post struct {
	Type       string // var/jsonpath var/xpath var/header assert/response
	Mapping    []KV
	Headers    []KV
	HasHdr     bool
	Body       []string
	HasBody    bool
	Status     *int
	SizeVal    *int
	SizeOp     string
	Payload    []string // grpc
	HasPayl    bool
	HasMapping bool
}

type Req struct {
	Name, Method, URI string
	Headers           []KV
	Tag, Body         *string
	Pre               []KV
	HasPre            bool
	Posts             []Post
	Templater         string // "", text, html
}

type Call struct {
	Name, Call, Payload string
	Tag                 *string
	Metadata            []KV
	HasMeta             bool
	Pres                [][]KV
	Posts               []Post
}

type Scn struct {
	Name     string
	Weight   *int64
	MinWait  *int64
	Requests []string
}

type Desc struct {
	Sources   []Src
	Requests  []Req
	Calls     []Call
	Scenarios []Scn
	UseLocals bool
	// YAMLAnchors: the YAML rendering writes the first request's headers once under an anchor and
	// the later requests' headers as a merge of it (<<: *hdr0) plus the keys they add or override —
	// the documented YAML counterpart of HCL locals + merge() (docs/eng/scenario/locals.md)
	YAMLAnchors bool
}

// ---------------------------------------------------------------- generators

var plainStrings = []string{"abc", "Content-Type", "application/json", "/uri/path?x=1&y=2", "{{.request.r0.postprocessor.tok}}", "{{.source.vars.a}}",
	"Bearer {{.request.r0.postprocessor.tok}}", "$.auth_key", "//div[@class='data']", "X-Trace-ID|lower|replace(=,)|substr(6)", "source.users[next].id", "value with spaces"}

var hostileStrings = []string{
	"привет мир", "日本語", "😀 emoji", "é",
	"e\u0301 decomposed", "\u212b angstrom sign", "\u1100\u1161 jamo",
	`a"b`, `a\b`, `a\\"b`, `'single'`, `"`, `\`, `\n literal`, "`backtick`",
	"yes", "no", "on", "off", "y", "n", "null", "~", "123", "1.5", "0x1f", "1e3", "true", "false", ".inf", "2001-01-01", "0o17", "012", "1_000", "+1", "-",
	"- dash", "key: value", "# not comment", "a #b", "[x]", "{x}", "*alias", "&anchor", "!tag", "|", ">", "%", "@at", "?", ": colon", "a: b: c", ",",
	" lead", "trail ", "  ", "\ttab", "a\tb", " ",
	"line1\nline2", "line1\nline2\n", "\nlead", "trailing spaces  \nnext", "a\r\nb", "\n", "two\n\nblank",
	"${x}", "$${x}", "%{if}", "%%{x}", "$", "${", "$$", "a${b}c", "<<EOF", "EOF",
	"", "<body/>", "<a href=\"x\">&amp;</a>", `{"json": "body", "n": [1,2]}`,
	"\u2028sep", "\u00a0nbsp", "\ufeffbom", "tab\there", "\x7f",
}

func pick(rng *rand.Rand, hostile int) string {
	if rng.Intn(100) < hostile {
		return hostileStrings[rng.Intn(len(hostileStrings))]
	}
	return plainStrings[rng.Intn(len(plainStrings))]
}

func genKVs(rng *rand.Rand, max int, hostile int, safeKeys bool) []KV {
	n := rng.Intn(max + 1)
	seen := map[string]bool{}
	var out []KV
	for i := 0; i < n; i++ {
		k := pick(rng, hostile)
		if safeKeys || k == "" {
			k = fmt.Sprintf("Key-%d", i)
		}
		if seen[k] {
			continue
		}
		seen[k] = true
		out = append(out, KV{k, pick(rng, hostile)})
	}
	return out
}

func optStr(rng *rand.Rand, hostile int) *string {
	if rng.Intn(2) == 0 {
		return nil
	}
	s := pick(rng, hostile)
	return &s
}

func genName(rng *rand.Rand, prefix string, i int) string {
	extra := []string{"", "", "", "_x", "-dash", ".dot", " space", "Ünï", "9"}[rng.Intn(9)]
	return fmt.Sprintf("%s%d%s", prefix, i, extra)
}

func genPost(rng *rand.Rand, hostile int) Post {
	switch rng.Intn(4) {
	case 0:
		return Post{Type: "var/jsonpath", Mapping: genKVs(rng, 3, hostile, false), HasMapping: true}
	case 1:
		return Post{Type: "var/xpath", Mapping: genKVs(rng, 3, hostile, false), HasMapping: true}
	case 2:
		return Post{Type: "var/header", Mapping: genKVs(rng, 3, hostile, false), HasMapping: true}
	}
	p := Post{Type: "assert/response"}
	if rng.Intn(2) == 0 {
		p.HasHdr = true
		p.Headers = genKVs(rng, 3, hostile, false)
	}
	if rng.Intn(2) == 0 {
		p.HasBody = true
		for i := rng.Intn(3); i > 0; i-- {
			p.Body = append(p.Body, pick(rng, hostile))
		}
	}
	if rng.Intn(2) == 0 {
		v := []int{0, 200, 404, 500, 1 << 30}[rng.Intn(5)]
		p.Status = &v
	}
	if rng.Intn(2) == 0 {
		v := []int{0, 1, 10000, 1 << 30}[rng.Intn(4)]
		p.SizeVal = &v
		p.SizeOp = []string{"eq", "=", "lt", "<", "gt", ">"}[rng.Intn(6)]
	}
	return p
}

func genDesc(rng *rand.Rand, hostile int, withFiles bool) Desc {
	var d Desc
	d.UseLocals = rng.Intn(2) == 0
	for i, n := 0, rng.Intn(4); i < n; i++ {
		s := Src{Name: genName(rng, "src", i)}
		switch rng.Intn(3) {
		case 0:
			s.Kind = "file/csv"
			s.File = fmt.Sprintf("/c16/data-%d.csv", rng.Intn(3))
			if rng.Intn(3) > 0 {
				s.HasFields = true
				for j, m := 0, rng.Intn(3); j < m; j++ {
					s.Fields = append(s.Fields, []string{"id", "name", "pass", pick(rng, hostile)}[rng.Intn(4)]+fmt.Sprint(j))
				}
			}
			if rng.Intn(2) == 0 {
				b := rng.Intn(2) == 0
				s.Ignore = &b
			}
			if rng.Intn(2) == 0 {
				dl := []string{",", ";", "|", "\t"}[rng.Intn(4)]
				s.Delim = &dl
			}
		case 1:
			s.Kind = "file/json"
			s.File = "/c16/data.json"
		default:
			s.Kind = "variables"
			s.Vars = genKVs(rng, 4, hostile, false)
		}
		d.Sources = append(d.Sources, s)
	}
	http := rng.Intn(3) != 0
	grpc := !http || rng.Intn(4) == 0
	var names []string
	if http {
		for i, n := 0, 1+rng.Intn(4); i < n; i++ {
			r := Req{Name: genName(rng, "r", i), Method: []string{"GET", "POST", "PUT", "DELETE", "patch"}[rng.Intn(5)], URI: pick(rng, hostile),
				Headers: genKVs(rng, 4, hostile, false), Tag: optStr(rng, hostile), Body: optStr(rng, hostile), Templater: []string{"", "", "text", "html"}[rng.Intn(4)]}
			if rng.Intn(2) == 0 {
				r.HasPre = true
				r.Pre = genKVs(rng, 3, hostile, false)
			}
			for j, m := 0, rng.Intn(4); j < m; j++ {
				r.Posts = append(r.Posts, genPost(rng, hostile))
			}
			d.Requests = append(d.Requests, r)
			names = append(names, r.Name)
		}
	}
	if grpc {
		for i, n := 0, 1+rng.Intn(3); i < n; i++ {
			c := Call{Name: genName(rng, "c", i), Call: "target.TargetService." + []string{"Hello", "Auth", "List"}[rng.Intn(3)], Payload: pick(rng, hostile), Tag: optStr(rng, hostile)}
			if rng.Intn(2) == 0 {
				c.HasMeta = true
				c.Metadata = genKVs(rng, 3, hostile, false)
			}
			for j, m := 0, rng.Intn(3); j < m; j++ {
				c.Pres = append(c.Pres, genKVs(rng, 3, hostile, false))
			}
			for j, m := 0, rng.Intn(3); j < m; j++ {
				p := Post{Type: "assert/response"}
				if rng.Intn(2) == 0 {
					p.HasPayl = true
					for k := rng.Intn(3); k > 0; k-- {
						p.Payload = append(p.Payload, pick(rng, hostile))
					}
				}
				if rng.Intn(2) == 0 {
					v := []int{0, 200, 404}[rng.Intn(3)]
					p.Status = &v
				}
				c.Posts = append(c.Posts, p)
			}
			d.Calls = append(d.Calls, c)
			if !http {
				names = append(names, c.Name)
			}
		}
	}
	nScn := 1 + rng.Intn(3)
	if rng.Intn(16) == 0 {
		// no scenario at all: the section is left out in both syntaxes (YAML: no key, or an empty list)
		nScn = 0
	}
	for i, n := 0, nScn; i < n; i++ {
		s := Scn{Name: genName(rng, "scn", i)}
		if rng.Intn(3) > 0 {
			w := []int64{0, 1, 2, 3, 4, 6, 10, 1 << 40}[rng.Intn(7)]
			s.Weight = &w
		}
		if rng.Intn(2) == 0 {
			w := []int64{0, 1, 10, 1500}[rng.Intn(4)]
			s.MinWait = &w
		}
		for j, m := 0, 1+rng.Intn(4); j < m; j++ {
			nm := names[rng.Intn(len(names))]
			switch rng.Intn(5) {
			case 0:
				nm = fmt.Sprintf("%s(%d)", nm, 1+rng.Intn(3))
			case 1:
				nm = fmt.Sprintf("%s(%d, %d)", nm, 1+rng.Intn(3), rng.Intn(20))
			case 2:
				if j > 0 {
					nm = fmt.Sprintf("sleep(%d)", rng.Intn(30))
				}
			}
			s.Requests = append(s.Requests, nm)
		}
		d.Scenarios = append(d.Scenarios, s)
	}
	return d
}

// withAnchors rewrites a description so that requests after the first share the first one's
// header keys (one value overridden, one key added) and asks the YAML renderer for anchors.
func withAnchors(d Desc) Desc {
	if len(d.Requests) < 2 || len(d.Requests[0].Headers) == 0 {
		return d
	}
	base := d.Requests[0].Headers
	for j := 1; j < len(d.Requests); j++ {
		if j%2 == 0 && len(d.Requests) > 2 {
			continue // keeps headers of its own
		}
		h := append([]KV(nil), base...)
		h[(j-1)%len(h)].V += fmt.Sprintf(" overridden by %d", j)
		extra := fmt.Sprintf("X-Only-%d", j)
		dup := false
		for _, kv := range h {
			dup = dup || kv.K == extra
		}
		if !dup {
			h = append(h, KV{K: extra, V: "added"})
		}
		d.Requests[j].Headers = h
	}
	d.YAMLAnchors = true
	return d
}

// anchoredHeaders renders request j's headers as a merge of the anchor when they contain all of
// the anchor's keys; ok=false ⇒ render them literally.
func anchoredHeaders(base, h []KV) (string, bool) {
	bm := kvMap(base)
	hm := kvMap(h)
	if len(bm) != len(base) || len(hm) != len(h) {
		return "", false
	}
	for k := range bm {
		if _, ok := hm[k]; !ok {
			return "", false
		}
	}
	parts := []string{"<<: *hdr0"}
	for _, kv := range h {
		if v, ok := bm[kv.K]; !ok || v != kv.V {
			parts = append(parts, jq(kv.K)+": "+jq(kv.V))
		}
	}
	return "{" + strings.Join(parts, ", ") + "}", true
}

// ---------------------------------------------------------------- YAML renderer

func jq(s string) string {
	var b bytes.Buffer
	e := json.NewEncoder(&b)
	e.SetEscapeHTML(false)
	_ = e.Encode(s)
	// DEL is legal inside a JSON string but not as a literal character in YAML
	// and so is the byte order mark, which yaml.v2 does not take for a printable character
	out := strings.ReplaceAll(strings.TrimSuffix(b.String(), "\n"), "\x7f", `\u007f`)
	return strings.ReplaceAll(out, "\ufeff", `\uFEFF`)
}

func yamlMap(kvs []KV) string {
	parts := make([]string, 0, len(kvs))
	for _, kv := range kvs {
		parts = append(parts, jq(kv.K)+": "+jq(kv.V))
	}
	return "{" + strings.Join(parts, ", ") + "}"
}

func yamlList(xs []string) string {
	parts := make([]string, 0, len(xs))
	for _, x := range xs {
		parts = append(parts, jq(x))
	}
	return "[" + strings.Join(parts, ", ") + "]"
}

func yamlPost(b *strings.Builder, p Post, ind string) {
	fmt.Fprintf(b, "%s- type: %s\n", ind, jq(p.Type))
	in := ind + "  "
	if p.HasMapping {
		fmt.Fprintf(b, "%smapping: %s\n", in, yamlMap(p.Mapping))
	}
	if p.HasHdr {
		fmt.Fprintf(b, "%sheaders: %s\n", in, yamlMap(p.Headers))
	}
	if p.HasBody {
		fmt.Fprintf(b, "%sbody: %s\n", in, yamlList(p.Body))
	}
	if p.HasPayl {
		fmt.Fprintf(b, "%spayload: %s\n", in, yamlList(p.Payload))
	}
	if p.Status != nil {
		fmt.Fprintf(b, "%sstatus_code: %d\n", in, *p.Status)
	}
	if p.SizeVal != nil {
		fmt.Fprintf(b, "%ssize:\n%s  val: %d\n%s  op: %s\n", in, in, *p.SizeVal, in, jq(p.SizeOp))
	}
}

func (d Desc) YAML() string {
	var b strings.Builder
	if len(d.Sources) > 0 {
		b.WriteString("variable_sources:\n")
		for _, s := range d.Sources {
			fmt.Fprintf(&b, "  - type: %s\n    name: %s\n", jq(s.Kind), jq(s.Name))
			if s.Kind != "variables" {
				fmt.Fprintf(&b, "    file: %s\n", jq(s.File))
			}
			if s.HasFields {
				fmt.Fprintf(&b, "    fields: %s\n", yamlList(s.Fields))
			}
			if s.Ignore != nil {
				fmt.Fprintf(&b, "    ignore_first_line: %v\n", *s.Ignore)
			}
			if s.Delim != nil {
				fmt.Fprintf(&b, "    delimiter: %s\n", jq(*s.Delim))
			}
			if s.Kind == "variables" {
				fmt.Fprintf(&b, "    variables: %s\n", yamlMap(s.Vars))
			}
		}
	}
	if len(d.Requests) > 0 {
		b.WriteString("requests:\n")
		for ri, r := range d.Requests {
			hdr := yamlMap(r.Headers)
			if d.YAMLAnchors && ri == 0 {
				hdr = "&hdr0 " + hdr
			} else if d.YAMLAnchors {
				if m, ok := anchoredHeaders(d.Requests[0].Headers, r.Headers); ok {
					hdr = m
				}
			}
			fmt.Fprintf(&b, "  - name: %s\n    method: %s\n    uri: %s\n    headers: %s\n", jq(r.Name), jq(r.Method), jq(r.URI), hdr)
			if r.Tag != nil {
				fmt.Fprintf(&b, "    tag: %s\n", jq(*r.Tag))
			}
			if r.Body != nil {
				fmt.Fprintf(&b, "    body: %s\n", jq(*r.Body))
			}
			if r.Templater != "" {
				fmt.Fprintf(&b, "    templater:\n      type: %s\n", jq(r.Templater))
			}
			if r.HasPre {
				fmt.Fprintf(&b, "    preprocessor:\n      mapping: %s\n", yamlMap(r.Pre))
			}
			if len(r.Posts) > 0 {
				b.WriteString("    postprocessors:\n")
				for _, p := range r.Posts {
					yamlPost(&b, p, "      ")
				}
			}
		}
	}
	if len(d.Calls) > 0 {
		b.WriteString("calls:\n")
		for _, c := range d.Calls {
			fmt.Fprintf(&b, "  - name: %s\n    call: %s\n    payload: %s\n", jq(c.Name), jq(c.Call), jq(c.Payload))
			if c.Tag != nil {
				fmt.Fprintf(&b, "    tag: %s\n", jq(*c.Tag))
			}
			if c.HasMeta {
				fmt.Fprintf(&b, "    metadata: %s\n", yamlMap(c.Metadata))
			}
			if len(c.Pres) > 0 {
				b.WriteString("    preprocessors:\n")
				for _, p := range c.Pres {
					fmt.Fprintf(&b, "      - type: \"prepare\"\n        mapping: %s\n", yamlMap(p))
				}
			}
			if len(c.Posts) > 0 {
				b.WriteString("    postprocessors:\n")
				for _, p := range c.Posts {
					yamlPost(&b, p, "      ")
				}
			}
		}
	}
	if len(d.Scenarios) == 0 {
		if (len(d.Requests)+len(d.Calls)+len(d.Sources))%2 == 0 {
			b.WriteString("scenarios: []\n")
		}
		return b.String()
	}
	b.WriteString("scenarios:\n")
	for _, s := range d.Scenarios {
		fmt.Fprintf(&b, "  - name: %s\n", jq(s.Name))
		if s.Weight != nil {
			fmt.Fprintf(&b, "    weight: %d\n", *s.Weight)
		}
		if s.MinWait != nil {
			fmt.Fprintf(&b, "    min_waiting_time: %d\n", *s.MinWait)
		}
		fmt.Fprintf(&b, "    requests: %s\n", yamlList(s.Requests))
	}
	return b.String()
}

// ---------------------------------------------------------------- HCL renderer

func hq(s string) string {
	var b strings.Builder
	b.WriteByte('"')
	rs := []rune(s)
	for i, r := range rs {
		next := rune(0)
		if i+1 < len(rs) {
			next = rs[i+1]
		}
		switch {
		case r == '\\':
			b.WriteString(`\\`)
		case r == '"':
			b.WriteString(`\"`)
		case r == '\n':
			b.WriteString(`\n`)
		case r == '\r':
			b.WriteString(`\r`)
		case r == '\t':
			b.WriteString(`\t`)
		case r == '$' && next == '{':
			b.WriteString("$$")
		case r == '%' && next == '{':
			b.WriteString("%%")
		case r < 0x20 || r == 0x7f:
			fmt.Fprintf(&b, `\u%04x`, r)
		default:
			b.WriteRune(r)
		}
	}
	b.WriteByte('"')
	return b.String()
}

type hclW struct {
	b      strings.Builder
	locals []string // "name = expr" lines of the first locals block
	local2 []string // second block (may reference the first)
	rng    *rand.Rand
	use    bool
	n      int
}

func (w *hclW) newLocal(expr string) string {
	w.n++
	name := fmt.Sprintf("l%d", w.n)
	w.locals = append(w.locals, name+" = "+expr)
	return "local." + name
}

func hclMapLit(kvs []KV) string {
	parts := make([]string, 0, len(kvs))
	for _, kv := range kvs {
		parts = append(parts, hq(kv.K)+" = "+hq(kv.V))
	}
	return "{" + strings.Join(parts, ", ") + "}"
}

func hclListLit(xs []string) string {
	parts := make([]string, 0, len(xs))
	for _, x := range xs {
		parts = append(parts, hq(x))
	}
	return "[" + strings.Join(parts, ", ") + "]"
}

// mapExpr renders a map either as a literal or through locals/functions with the same value.
func (w *hclW) mapExpr(kvs []KV) string {
	if !w.use || len(kvs) == 0 || w.rng.Intn(2) == 0 {
		return hclMapLit(kvs)
	}
	switch w.rng.Intn(5) {
	case 3: // a function call with literals only: no locals block is needed for it
		k := w.rng.Intn(len(kvs) + 1)
		return fmt.Sprintf("merge(%s, %s)", hclMapLit(kvs[:k]), hclMapLit(kvs[k:]))
	case 4: // a local of the FIRST locals block that is itself computed by a function
		k := w.rng.Intn(len(kvs) + 1)
		return w.newLocal(fmt.Sprintf("merge(%s, %s)", hclMapLit(kvs[:k]), hclMapLit(kvs[k:])))
	case 0: // merge(local.a, {rest})
		k := 1 + w.rng.Intn(len(kvs))
		a := w.newLocal(hclMapLit(kvs[:k]))
		return fmt.Sprintf("merge(%s, %s)", a, hclMapLit(kvs[k:]))
	case 1: // a local built in the second block by merging a local of the first block
		k := w.rng.Intn(len(kvs))
		a := w.newLocal(hclMapLit(kvs[:k]))
		w.n++
		name := fmt.Sprintf("m%d", w.n)
		w.local2 = append(w.local2, fmt.Sprintf("%s = merge(%s, %s)", name, a, hclMapLit(kvs[k:])))
		return "local." + name
	default: // zipmap(keys, values)
		var ks, vs []string
		for _, kv := range kvs {
			ks = append(ks, kv.K)
			vs = append(vs, kv.V)
		}
		return fmt.Sprintf("zipmap(%s, %s)", hclListLit(ks), w.newLocal(hclListLit(vs)))
	}
}

func (w *hclW) listExpr(xs []string) string {
	if !w.use || len(xs) == 0 || w.rng.Intn(2) == 0 {
		return hclListLit(xs)
	}
	noEmpty, distinct := true, true
	seen := map[string]bool{}
	for _, x := range xs {
		noEmpty = noEmpty && x != ""
		distinct = distinct && !seen[x]
		seen[x] = true
	}
	switch k := w.rng.Intn(10); {
	case k == 5:
		// the first list that is not empty
		return fmt.Sprintf("coalescelist([], %s, [\"never used\"])", hclListLit(xs))
	case k == 6:
		return fmt.Sprintf("coalescelist(%s, %s)", w.newLocal("[]"), w.newLocal(hclListLit(xs)))
	case k == 7 && noEmpty:
		// empty strings dropped
		withEmpty := append(append([]string{""}, xs...), "")
		return fmt.Sprintf("compact(%s)", hclListLit(withEmpty))
	case k == 8 && distinct:
		return fmt.Sprintf("distinct(concat(%s, %s))", hclListLit(xs), w.newLocal(hclListLit(xs)))
	case k >= 7:
		padded := append(append([]string{"front"}, xs...), "back", "back")
		return fmt.Sprintf("slice(%s, 1, %d)", w.newLocal(hclListLit(padded)), 1+len(xs))
	}
	switch w.rng.Intn(5) {
	case 3:
		k := w.rng.Intn(len(xs) + 1)
		return fmt.Sprintf("concat(%s, %s)", hclListLit(xs[:k]), hclListLit(xs[k:]))
	case 4:
		k := w.rng.Intn(len(xs) + 1)
		return w.newLocal(fmt.Sprintf("concat(%s, %s)", hclListLit(xs[:k]), hclListLit(xs[k:])))
	case 0:
		k := w.rng.Intn(len(xs) + 1)
		return fmt.Sprintf("concat(%s, %s)", w.newLocal(hclListLit(xs[:k])), hclListLit(xs[k:]))
	case 1:
		rev := make([]string, len(xs))
		for i, x := range xs {
			rev[len(xs)-1-i] = x
		}
		return fmt.Sprintf("reverse(%s)", w.newLocal(hclListLit(rev)))
	default:
		return fmt.Sprintf("flatten([%s, %s])", hclListLit(xs[:1]), w.newLocal(hclListLit(xs[1:])))
	}
}

func (w *hclW) strExpr(s string) string {
	if !w.use || w.rng.Intn(3) > 0 {
		return hq(s)
	}
	switch w.rng.Intn(5) {
	case 3:
		return fmt.Sprintf("coalesce(%s, \"never used\")", w.newLocal(hq(s)))
	case 4:
		if w.rng.Intn(2) == 0 {
			// index(collection, key): the element under that key
			return fmt.Sprintf("index(%s, 1)", w.newLocal("[\"zero\", "+hq(s)+", \"two\"]"))
		}
		return fmt.Sprintf("values(%s)[0]", w.newLocal("{only = "+hq(s)+"}"))
	case 0:
		return w.newLocal(hq(s))
	case 1:
		return fmt.Sprintf("lookup(%s, \"k\", \"unused default\")", w.newLocal("{k = "+hq(s)+"}"))
	default:
		return fmt.Sprintf("element(%s, 1)", w.newLocal("[\"zero\", "+hq(s)+"]"))
	}
}

func (w *hclW) intExpr(v int64) string {
	if !w.use || w.rng.Intn(3) > 0 {
		return fmt.Sprint(v)
	}
	return w.newLocal(fmt.Sprint(v))
}

func (w *hclW) post(p Post, ind string) {
	fmt.Fprintf(&w.b, "%spostprocessor %s {\n", ind, hq(p.Type))
	in := ind + "  "
	if p.HasMapping {
		fmt.Fprintf(&w.b, "%smapping = %s\n", in, w.mapExpr(p.Mapping))
	}
	if p.HasHdr {
		fmt.Fprintf(&w.b, "%sheaders = %s\n", in, w.mapExpr(p.Headers))
	}
	if p.HasBody {
		fmt.Fprintf(&w.b, "%sbody = %s\n", in, w.listExpr(p.Body))
	}
	if p.HasPayl {
		fmt.Fprintf(&w.b, "%spayload = %s\n", in, w.listExpr(p.Payload))
	}
	if p.Status != nil {
		fmt.Fprintf(&w.b, "%sstatus_code = %s\n", in, w.intExpr(int64(*p.Status)))
	}
	if p.SizeVal != nil {
		fmt.Fprintf(&w.b, "%ssize {\n%s  val = %d\n%s  op = %s\n%s}\n", in, in, *p.SizeVal, in, hq(p.SizeOp), in)
	}
	fmt.Fprintf(&w.b, "%s}\n", ind)
}

func (d Desc) HCL(rng *rand.Rand) string {
	w := &hclW{rng: rng, use: d.UseLocals}
	for _, s := range d.Sources {
		fmt.Fprintf(&w.b, "variable_source %s %s {\n", hq(s.Name), hq(s.Kind))
		if s.Kind != "variables" {
			fmt.Fprintf(&w.b, "  file = %s\n", w.strExpr(s.File))
		}
		if s.HasFields {
			fmt.Fprintf(&w.b, "  fields = %s\n", w.listExpr(s.Fields))
		}
		if s.Ignore != nil {
			fmt.Fprintf(&w.b, "  ignore_first_line = %v\n", *s.Ignore)
		}
		if s.Delim != nil {
			fmt.Fprintf(&w.b, "  delimiter = %s\n", hq(*s.Delim))
		}
		if s.Kind == "variables" {
			fmt.Fprintf(&w.b, "  variables = %s\n", w.mapExpr(s.Vars))
		}
		w.b.WriteString("}\n")
	}
	for _, r := range d.Requests {
		fmt.Fprintf(&w.b, "request %s {\n  method = %s\n  uri = %s\n  headers = %s\n", hq(r.Name), hq(r.Method), w.strExpr(r.URI), w.mapExpr(r.Headers))
		if r.Tag != nil {
			fmt.Fprintf(&w.b, "  tag = %s\n", w.strExpr(*r.Tag))
		}
		if r.Body != nil {
			body := *r.Body
			// heredoc where it can express the value exactly: ends with a newline, no template
			// sequences, no line that is the delimiter, no CR, non-empty lines
			if strings.HasSuffix(body, "\n") && !strings.ContainsAny(body, "\r$%\\") && !strings.Contains(body, "EOF") && rng.Intn(2) == 0 {
				fmt.Fprintf(&w.b, "  body = <<EOF\n%sEOF\n", body)
			} else {
				fmt.Fprintf(&w.b, "  body = %s\n", w.strExpr(body))
			}
		}
		if r.Templater != "" {
			fmt.Fprintf(&w.b, "  templater {\n    type = %s\n  }\n", hq(r.Templater))
		}
		if r.HasPre {
			fmt.Fprintf(&w.b, "  preprocessor {\n    mapping = %s\n  }\n", w.mapExpr(r.Pre))
		}
		for _, p := range r.Posts {
			w.post(p, "  ")
		}
		w.b.WriteString("}\n")
	}
	for _, c := range d.Calls {
		fmt.Fprintf(&w.b, "call %s {\n  call = %s\n  payload = %s\n", hq(c.Name), hq(c.Call), w.strExpr(c.Payload))
		if c.Tag != nil {
			fmt.Fprintf(&w.b, "  tag = %s\n", hq(*c.Tag))
		}
		if c.HasMeta {
			fmt.Fprintf(&w.b, "  metadata = %s\n", w.mapExpr(c.Metadata))
		}
		for _, p := range c.Pres {
			fmt.Fprintf(&w.b, "  preprocessor \"prepare\" {\n    mapping = %s\n  }\n", w.mapExpr(p))
		}
		for _, p := range c.Posts {
			w.post(p, "  ")
		}
		w.b.WriteString("}\n")
	}
	for _, s := range d.Scenarios {
		fmt.Fprintf(&w.b, "scenario %s {\n", hq(s.Name))
		if s.Weight != nil {
			fmt.Fprintf(&w.b, "  weight = %s\n", w.intExpr(*s.Weight))
		}
		if s.MinWait != nil {
			fmt.Fprintf(&w.b, "  min_waiting_time = %s\n", w.intExpr(*s.MinWait))
		}
		fmt.Fprintf(&w.b, "  requests = %s\n}\n", w.listExpr(s.Requests))
	}
	var head strings.Builder
	if len(w.locals) >= 2 && len(w.b.String())%3 == 0 {
		// an earlier, smaller locals block defines the first local with another value; the block
		// that follows redefines it (docs/eng/scenario/locals.md: later definitions replace earlier ones)
		name := strings.SplitN(w.locals[0], " = ", 2)[0]
		head.WriteString("locals {\n  " + name + " = \"stale value of an earlier block\"\n}\n")
	}
	if len(w.locals) > 0 {
		head.WriteString("locals {\n")
		for _, l := range w.locals {
			head.WriteString("  " + l + "\n")
		}
		head.WriteString("}\n")
	}
	if len(w.local2) > 0 {
		head.WriteString("locals {\n")
		for _, l := range w.local2 {
			head.WriteString("  " + l + "\n")
		}
		head.WriteString("}\n")
	}
	return head.String() + w.b.String()
}

// ---------------------------------------------------------------- model check (third oracle)

func kvMap(kvs []KV) map[string]string {
	m := map[string]string{}
	for _, kv := range kvs {
		m[kv.K] = kv.V
	}
	return m
}

// exported returns the exported fields of a struct (through pointers/interfaces) as a map.
func exported(v any) map[string]any {
	rv := reflect.ValueOf(v)
	for rv.IsValid() && (rv.Kind() == reflect.Ptr || rv.Kind() == reflect.Interface) {
		if rv.IsNil() {
			return nil
		}
		rv = rv.Elem()
	}
	if !rv.IsValid() || rv.Kind() != reflect.Struct {
		return nil
	}
	out := map[string]any{}
	t := rv.Type()
	for i := 0; i < t.NumField(); i++ {
		if t.Field(i).PkgPath == "" {
			out[t.Field(i).Name] = rv.Field(i).Interface()
		}
	}
	return out
}

func sameMap(got any, want []KV) bool {
	gm, _ := got.(map[string]string)
	if gm == nil {
		if ga, ok := got.(map[string]any); ok {
			gm = map[string]string{}
			for k, v := range ga {
				gm[k] = fmt.Sprint(v)
			}
		}
	}
	wm := kvMap(want)
	if len(gm) != len(wm) {
		return false
	}
	for k, v := range wm {
		if gm[k] != v {
			return false
		}
	}
	return true
}

func sameList(got []string, want []string) bool {
	if len(got) != len(want) {
		return false
	}
	for i := range got {
		if got[i] != want[i] {
			return false
		}
	}
	return true
}

// modelDiff compares a decoded AmmoConfig with the abstract description.
func modelDiff(d Desc, c *sconfig.AmmoConfig) string {
	if len(c.VariableSources) != len(d.Sources) {
		return fmt.Sprintf("variable sources: %d decoded, %d described", len(c.VariableSources), len(d.Sources))
	}
	for i, s := range d.Sources {
		e := exported(c.VariableSources[i])
		if e["Name"] != s.Name {
			return fmt.Sprintf("source %d name %q, described %q", i, e["Name"], s.Name)
		}
		switch s.Kind {
		case "file/csv":
			if e["File"] != s.File {
				return fmt.Sprintf("source %q file %q, described %q", s.Name, e["File"], s.File)
			}
			f, _ := e["Fields"].([]string)
			if !sameList(f, s.Fields) {
				return fmt.Sprintf("source %q fields %q, described %q", s.Name, f, s.Fields)
			}
			wantIgn := s.Ignore != nil && *s.Ignore
			if e["IgnoreFirstLine"] != wantIgn {
				return fmt.Sprintf("source %q ignore_first_line %v, described %v", s.Name, e["IgnoreFirstLine"], wantIgn)
			}
			if s.Delim != nil && e["Delimiter"] != *s.Delim {
				return fmt.Sprintf("source %q delimiter %q, described %q", s.Name, e["Delimiter"], *s.Delim)
			}
		case "file/json":
			if e["File"] != s.File {
				return fmt.Sprintf("source %q file %q, described %q", s.Name, e["File"], s.File)
			}
		case "variables":
			if !sameMap(e["Variables"], s.Vars) {
				return fmt.Sprintf("source %q variables %v, described %v", s.Name, e["Variables"], s.Vars)
			}
		}
	}
	if len(c.Requests) != len(d.Requests) {
		return fmt.Sprintf("requests: %d decoded, %d described", len(c.Requests), len(d.Requests))
	}
	for i, r := range d.Requests {
		g := c.Requests[i]
		if g.Name != r.Name || g.Method != r.Method || g.URI != r.URI {
			return fmt.Sprintf("request %d name/method/uri %q %q %q, described %q %q %q", i, g.Name, g.Method, g.URI, r.Name, r.Method, r.URI)
		}
		if !sameMap(g.Headers, r.Headers) {
			return fmt.Sprintf("request %q headers %q, described %q", r.Name, g.Headers, r.Headers)
		}
		wantTag := ""
		if r.Tag != nil {
			wantTag = *r.Tag
		}
		if g.Tag != wantTag {
			return fmt.Sprintf("request %q tag %q, described %q", r.Name, g.Tag, wantTag)
		}
		if (g.Body == nil) != (r.Body == nil) || (g.Body != nil && *g.Body != *r.Body) {
			return fmt.Sprintf("request %q body %v, described %v", r.Name, strp(g.Body), strp(r.Body))
		}
		if r.HasPre {
			if g.Preprocessor == nil || !sameMap(g.Preprocessor.Mapping, r.Pre) {
				return fmt.Sprintf("request %q preprocessor %+v, described mapping %q", r.Name, g.Preprocessor, r.Pre)
			}
		} else if g.Preprocessor != nil {
			return fmt.Sprintf("request %q has a preprocessor that was not described", r.Name)
		}
		tn := ""
		if g.Templater != nil {
			tn = strings.ToLower(reflect.TypeOf(g.Templater).String())
		}
		if r.Templater != "" && !strings.Contains(tn, r.Templater) {
			return fmt.Sprintf("request %q templater %s, described %q", r.Name, tn, r.Templater)
		}
		if len(g.Postprocessors) != len(r.Posts) {
			return fmt.Sprintf("request %q: %d postprocessors decoded, %d described", r.Name, len(g.Postprocessors), len(r.Posts))
		}
		for j, p := range r.Posts {
			if s := postDiff(exported(g.Postprocessors[j]), reflect.TypeOf(g.Postprocessors[j]).String(), p); s != "" {
				return fmt.Sprintf("request %q postprocessor %d: %s", r.Name, j, s)
			}
		}
	}
	if len(c.Calls) != len(d.Calls) {
		return fmt.Sprintf("calls: %d decoded, %d described", len(c.Calls), len(d.Calls))
	}
	for i, cl := range d.Calls {
		g := c.Calls[i]
		wantTag := ""
		if cl.Tag != nil {
			wantTag = *cl.Tag
		}
		if g.Name != cl.Name || g.Call != cl.Call || g.Payload != cl.Payload || g.Tag != wantTag {
			return fmt.Sprintf("call %d %q %q %q %q, described %q %q %q %q", i, g.Name, g.Call, g.Payload, g.Tag, cl.Name, cl.Call, cl.Payload, wantTag)
		}
		if !sameMap(g.Metadata, cl.Metadata) {
			return fmt.Sprintf("call %q metadata %q, described %q", cl.Name, g.Metadata, cl.Metadata)
		}
		if len(g.Preprocessors) != len(cl.Pres) {
			return fmt.Sprintf("call %q: %d preprocessors decoded, %d described", cl.Name, len(g.Preprocessors), len(cl.Pres))
		}
		for j, p := range cl.Pres {
			if !sameMap(exported(g.Preprocessors[j])["Mapping"], p) {
				return fmt.Sprintf("call %q preprocessor %d mapping %v, described %q", cl.Name, j, exported(g.Preprocessors[j])["Mapping"], p)
			}
		}
		if len(g.Postprocessors) != len(cl.Posts) {
			return fmt.Sprintf("call %q: %d postprocessors decoded, %d described", cl.Name, len(g.Postprocessors), len(cl.Posts))
		}
		for j, p := range cl.Posts {
			e := exported(g.Postprocessors[j])
			pl, _ := e["Payload"].([]string)
			if !sameList(pl, p.Payload) {
				return fmt.Sprintf("call %q postprocessor %d payload %q, described %q", cl.Name, j, pl, p.Payload)
			}
			ws := 0
			if p.Status != nil {
				ws = *p.Status
			}
			if e["StatusCode"] != ws {
				return fmt.Sprintf("call %q postprocessor %d status_code %v, described %d", cl.Name, j, e["StatusCode"], ws)
			}
		}
	}
	if len(c.Scenarios) != len(d.Scenarios) {
		return fmt.Sprintf("scenarios: %d decoded, %d described", len(c.Scenarios), len(d.Scenarios))
	}
	for i, s := range d.Scenarios {
		g := c.Scenarios[i]
		var ww, wm int64
		if s.Weight != nil {
			ww = *s.Weight
		}
		if s.MinWait != nil {
			wm = *s.MinWait
		}
		if g.Name != s.Name || g.Weight != ww || g.MinWaitingTime != wm || !sameList(g.Requests, s.Requests) {
			return fmt.Sprintf("scenario %d %+v, described name %q weight %d min_waiting_time %d requests %q", i, g, s.Name, ww, wm, s.Requests)
		}
	}
	return ""
}

func strp(s *string) string {
	if s == nil {
		return "<absent>"
	}
	return fmt.Sprintf("%q", *s)
}

func postDiff(e map[string]any, typ string, p Post) string {
	want := map[string]string{"var/jsonpath": "Jsonpath", "var/xpath": "Xpath", "var/header": "Header", "assert/response": "AssertResponse"}[p.Type]
	if !strings.Contains(typ, want) {
		return fmt.Sprintf("decoded as %s, described type %q", typ, p.Type)
	}
	if p.HasMapping && !sameMap(e["Mapping"], p.Mapping) {
		return fmt.Sprintf("mapping %v, described %q", e["Mapping"], p.Mapping)
	}
	if p.Type != "assert/response" {
		return ""
	}
	if !sameMap(e["Headers"], p.Headers) {
		return fmt.Sprintf("headers %v, described %q", e["Headers"], p.Headers)
	}
	b, _ := e["Body"].([]string)
	if !sameList(b, p.Body) {
		return fmt.Sprintf("body %q, described %q", b, p.Body)
	}
	ws := 0
	if p.Status != nil {
		ws = *p.Status
	}
	if e["StatusCode"] != ws {
		return fmt.Sprintf("status_code %v, described %d", e["StatusCode"], ws)
	}
	sz := exported(e["Size"])
	if p.SizeVal == nil {
		if sz != nil {
			return fmt.Sprintf("size %v decoded, none described", sz)
		}
	} else if sz == nil || sz["Val"] != *p.SizeVal || sz["Op"] != p.SizeOp {
		return fmt.Sprintf("size %v, described val %d op %q", sz, *p.SizeVal, p.SizeOp)
	}
	return ""
}

// ---------------------------------------------------------------- running one description

var seq int

func drainProvider(kind, file string, n int) ([]core.Ammo, error) {
	p, err := vkit.NewProvider(map[string]any{"type": kind, "file": file})
	if err != nil {
		return nil, err
	}
	ctx, cancel := context.WithCancel(context.Background())
	done := make(chan error, 1)
	go func() { done <- p.Run(ctx, core.ProviderDeps{Log: vkit.NopLog()}) }()
	var out []core.Ammo
	for i := 0; i < n; i++ {
		got := make(chan core.Ammo, 1)
		go func() {
			a, ok := p.Acquire()
			if !ok {
				a = nil
			}
			got <- a
		}()
		select {
		case a := <-got:
			if a == nil {
				cancel()
				<-done
				return out, nil
			}
			out = append(out, a)
		case <-time.After(10 * time.Second):
			cancel()
			return out, fmt.Errorf("provider delivered nothing for 10 s")
		}
	}
	cancel()
	select {
	case <-done:
	case <-time.After(10 * time.Second):
	}
	return out, nil
}

func ringSize(d Desc) int {
	if len(d.Scenarios) <= 1 {
		return 1
	}
	var ws []int64
	for _, s := range d.Scenarios {
		w := int64(1)
		if s.Weight != nil && *s.Weight != 0 {
			w = *s.Weight
		}
		ws = append(ws, w)
	}
	g := ws[0]
	for _, w := range ws[1:] {
		a, b := g, w
		for b != 0 {
			a, b = b, a%b
		}
		g = a
	}
	t := int64(0)
	for _, w := range ws {
		t += w / g
	}
	if t > 64 {
		t = 64
	}
	return int(t)
}

func classify(d Desc) string {
	var parts []string
	if d.UseLocals {
		parts = append(parts, "locals")
	}
	parts = append(parts, fmt.Sprintf("src%d/req%d/call%d/scn%d", len(d.Sources), len(d.Requests), len(d.Calls), len(d.Scenarios)))
	return strings.Join(parts, ",")
}

// nfc returns the description with every string in Unicode normalisation form C.
func nfc(d Desc) (Desc, bool) {
	b, err := json.Marshal(d)
	if err != nil || norm.NFC.IsNormal(b) {
		return d, false
	}
	var out Desc
	if json.Unmarshal(norm.NFC.Bytes(b), &out) != nil {
		return d, false
	}
	return out, true
}

var typeKeyRe = regexp.MustCompile(`(?m)^(\s*(?:- )?)type:`)

func runDesc(res *vkit.Result, d Desc, rng *rand.Rand, idx int) {
	seq++
	base := fmt.Sprintf("/c16/case-%d", seq)
	if seq%2 == 0 {
		// the same file names again and again, as when a user edits ammo.hcl between runs
		base = "/c16/ammo"
	}
	hclText, yamlText := d.HCL(rng), d.YAML()
	// the key that selects a plugin is matched whatever its letter case; one YAML rendering in
	// five spells it Type or TYPE (HCL has block labels instead)
	typeKey := map[int]string{2: "Type", 4: "TYPE"}[seq%10]
	respell := func(y string) string {
		if typeKey == "" {
			return y
		}
		return typeKeyRe.ReplaceAllString(y, "${1}"+typeKey+":")
	}
	yamlText = respell(yamlText)
	if dn, changed := nfc(d); changed {
		// Known finding (DESIGN §5 #31): the HCL front end hands every string through cty, which
		// normalises it to NFC; the YAML front end keeps the bytes as written. The description as
		// written is compared first and a difference goes under one fixed key; then the check goes
		// on with what HCL makes of it — HCL(d) against YAML(NFC(d)) — where nothing may differ.
		hp, yp := base+".nfc.hcl", base+".nfc.yaml"
		_ = vkit.WriteMemAt(hp, []byte(hclText))
		_ = vkit.WriteMemAt(yp, []byte(yamlText))
		hc, herr := sconfig.ReadAmmoConfig(vkit.Fs(), hp)
		yc, yerr := sconfig.ReadAmmoConfig(vkit.Fs(), yp)
		vkit.RemoveMem(hp)
		vkit.RemoveMem(yp)
		if herr == nil && yerr == nil {
			if df := vkit.Diff(hc, yc); df != "" {
				res.Violate("C16/non-nfc-string/hcl-normalises-to-nfc", "a string that is not in Unicode normalisation form C is normalised by the HCL front end and kept as written by the YAML front end: "+df,
					map[string]any{"idx": idx, "hcl": hclText, "yaml": yamlText})
			}
			res.Count("descriptions_with_non_nfc_strings", 1)
		}
		d, yamlText = dn, respell(dn.YAML())
	}
	// the format is told by the extension, in whatever case it is written
	exts := [][2]string{{".hcl", ".yaml"}, {".hcl", ".yaml"}, {".HCL", ".YAML"}, {".Hcl", ".Yaml"}, {".hCl", ".yAmL"}}[seq%5]
	hp, yp := base+exts[0], base+exts[1]
	_ = vkit.WriteMemAt(hp, []byte(hclText))
	_ = vkit.WriteMemAt(yp, []byte(yamlText))
	defer vkit.RemoveMem(hp)
	defer vkit.RemoveMem(yp)
	c := map[string]any{"idx": idx, "hcl": hclText, "yaml": yamlText, "files": []string{hp, yp}}
	fp := hclText + "\x00" + yamlText
	hc, herr := sconfig.ReadAmmoConfig(vkit.Fs(), hp)
	yc, yerr := sconfig.ReadAmmoConfig(vkit.Fs(), yp)
	kind := "http"
	if len(d.Requests) == 0 {
		kind = "grpc"
	}
	key := "C16/" + kind
	if d.UseLocals {
		key += "+locals"
	}
	switch {
	case herr != nil && yerr != nil:
		res.Count("both_rejected", 1)
		res.Eval(fp, false)
		if res.Counter("both_rejected") <= 3 {
			res.Set(fmt.Sprintf("both_rejected_example_%d", res.Counter("both_rejected")), map[string]any{"hcl_error": herr.Error(), "yaml_error": yerr.Error()})
		}
		return
	case herr != nil:
		res.Violate(key+"/hcl-rejected", fmt.Sprintf("the YAML rendering is accepted, the HCL rendering of the same description is rejected: %v", herr), c)
		res.Eval(fp, true)
		return
	case yerr != nil:
		res.Violate(key+"/yaml-rejected", fmt.Sprintf("the HCL rendering is accepted, the YAML rendering of the same description is rejected: %v", yerr), c)
		res.Eval(fp, true)
		return
	}
	res.Count("both_accepted", 1)
	if df := vkit.Diff(hc, yc); df != "" {
		res.Violate(key+"/config-differs", "AmmoConfig from HCL vs from YAML: "+df, c)
	}
	if md := modelDiff(d, hc); md != "" {
		res.Violate(key+"/hcl-loses-field", "AmmoConfig from HCL vs the description: "+md, c)
	}
	if md := modelDiff(d, yc); md != "" {
		res.Violate(key+"/yaml-loses-field", "AmmoConfig from YAML vs the description: "+md, c)
	}
	// delivered ammo through the real providers
	for _, pk := range []string{"http/scenario", "grpc/scenario"} {
		if (pk == "http/scenario") != (len(d.Requests) > 0) && !(pk == "grpc/scenario" && len(d.Calls) > 0 && len(d.Requests) == 0) {
			continue
		}
		n := 2*ringSize(d) + 1
		ha, herr := drainProvider(pk, hp, n)
		ya, yerr := drainProvider(pk, yp, n)
		if (herr != nil) != (yerr != nil) {
			res.Violate(key+"/provider-one-sided", fmt.Sprintf("%s provider: HCL error %v, YAML error %v", pk, herr, yerr), c)
			continue
		}
		if herr != nil {
			res.Count("provider_both_rejected", 1)
			continue
		}
		if len(ha) != len(ya) {
			res.Violate(key+"/ammo-count", fmt.Sprintf("%s provider delivered %d ammo from HCL and %d from YAML", pk, len(ha), len(ya)), c)
			continue
		}
		for i := range ha {
			if df := ammoDiff(ha[i], ya[i]); df != "" {
				res.Violate(key+"/ammo-differs", fmt.Sprintf("%s provider, ammo %d: %s", pk, i, df), c)
				break
			}
		}
		res.Count("ammo_compared", int64(len(ha)))
	}
	res.Eval(fp, true)
	if d.UseLocals {
		res.Count("descriptions_with_locals_and_functions", 1)
	}
	if len(d.Calls) > 0 {
		res.Count("descriptions_with_grpc_calls", 1)
	}
	if len(d.Requests) > 0 {
		res.Count("descriptions_with_http_requests", 1)
	}
	if idx < 3 {
		res.Sample(map[string]any{"hcl": hclText, "yaml": yamlText})
	}
}

// nilish: no storage at all, or an interface holding a nil pointer (which the guns would dereference).
func nilish(v any) bool {
	if v == nil {
		return true
	}
	rv := reflect.ValueOf(v)
	return rv.Kind() == reflect.Ptr && rv.IsNil()
}

func storageKind(v any) string {
	switch {
	case v == nil:
		return "none"
	case nilish(v):
		return fmt.Sprintf("nil %T", v)
	}
	return "present"
}

func ammoDiff(a, b core.Ammo) string {
	switch x := a.(type) {
	case *httpscenario.Scenario:
		y, ok := b.(*httpscenario.Scenario)
		if !ok {
			return fmt.Sprintf("types %T vs %T", a, b)
		}
		xa, ya := *x, *y
		xa.ID, ya.ID = 0, 0
		xv, yv := xa.VariableStorage, ya.VariableStorage
		xa.VariableStorage, ya.VariableStorage = nil, nil
		if df := vkit.Diff(xa, ya); df != "" {
			return df
		}
		if nilish(xv) != nilish(yv) {
			return fmt.Sprintf("variable storage: %s vs %s", storageKind(xv), storageKind(yv))
		}
		if !nilish(xv) {
			return vkit.Diff(xv.Variables(), yv.Variables())
		}
	case *grpcgun.Scenario:
		y, ok := b.(*grpcgun.Scenario)
		if !ok {
			return fmt.Sprintf("types %T vs %T", a, b)
		}
		xa, ya := *x, *y
		xv, yv := xa.VariableStorage, ya.VariableStorage
		xa.VariableStorage, ya.VariableStorage = nil, nil
		if df := vkit.Diff(xa, ya); df != "" {
			return df
		}
		if nilish(xv) != nilish(yv) {
			return fmt.Sprintf("variable storage: %s vs %s", storageKind(xv), storageKind(yv))
		}
		if !nilish(xv) {
			return vkit.Diff(xv.Variables(), yv.Variables())
		}
	default:
		return fmt.Sprintf("unexpected ammo type %T", a)
	}
	return ""
}

// concurrentLoads: several providers are created at the same time in one process (several pools,
// or several engines). Each HCL load, running concurrently with the others, must still give
// what the YAML rendering of the same description gives.
func concurrentLoads(res *vkit.Result, rng *rand.Rand, rounds int) {
	type item struct {
		hp, yp string
		want   *sconfig.AmmoConfig
		hcl    string
	}
	var items []item
	for i := 0; len(items) < 24 && i < 400; i++ {
		d := genDesc(rng, 15, true)
		if dn, changed := nfc(d); changed {
			d = dn // see runDesc: non-NFC strings are a finding of their own
		}
		base := fmt.Sprintf("/c16/conc-%d", i)
		hclText, yamlText := d.HCL(rng), d.YAML()
		_ = vkit.WriteMemAt(base+".hcl", []byte(hclText))
		_ = vkit.WriteMemAt(base+".yaml", []byte(yamlText))
		hc, herr := sconfig.ReadAmmoConfig(vkit.Fs(), base+".hcl")
		yc, yerr := sconfig.ReadAmmoConfig(vkit.Fs(), base+".yaml")
		if herr != nil || yerr != nil || vkit.Diff(hc, yc) != "" {
			vkit.RemoveMem(base + ".hcl")
			vkit.RemoveMem(base + ".yaml")
			continue // sequential disagreement is reported by the main loop
		}
		items = append(items, item{base + ".hcl", base + ".yaml", yc, hclText})
	}
	defer func() {
		for _, it := range items {
			vkit.RemoveMem(it.hp)
			vkit.RemoveMem(it.yp)
		}
	}()
	var mu sync.Mutex
	reported := false
	for r := 0; r < rounds && !reported; r++ {
		var wg sync.WaitGroup
		start := make(chan struct{})
		for _, it := range items {
			wg.Add(1)
			go func(it item) {
				defer wg.Done()
				<-start
				hc, err := sconfig.ReadAmmoConfig(vkit.Fs(), it.hp)
				df := ""
				if err != nil {
					df = "error: " + err.Error()
				} else {
					df = vkit.Diff(hc, it.want)
				}
				if df != "" {
					mu.Lock()
					if !reported {
						reported = true
						res.Violate("C16/concurrent-loads/config-differs", fmt.Sprintf("an HCL description loaded while %d other HCL descriptions were being loaded differs from its YAML rendering (sequentially they agree): %s", len(items)-1, df), map[string]any{"hcl": it.hcl, "round": r})
					}
					mu.Unlock()
				}
			}(it)
		}
		close(start)
		wg.Wait()
		res.Count("concurrent_load_rounds", 1)
	}
	res.Eval("concurrent-loads", len(items) >= 2)
}

func main() {
	vkit.Fs()
	res := vkit.NewResult("generated scenario descriptions (0–3 variable sources of every kind, 1–4 HTTP requests and/or 1–3 gRPC calls with every optional field present/absent, every processor kind, 1–3 weighted scenarios with multiplicities and sleeps; strings drawn from a pool of unicode, quotes, backslashes, YAML-significant scalars, blanks, multi-line and HCL-template-significant values) rendered to YAML and to HCL (plain or through locals/merge/zipmap/concat/reverse/flatten/lookup/element with equal value); both decoded by the real front-ends and providers. distinct = distinct (HCL, YAML) text pairs; non-trivial = accepted by at least one front-end")
	// data files the sources refer to
	for i := 0; i < 3; i++ {
		_ = vkit.WriteMemAt(fmt.Sprintf("/c16/data-%d.csv", i), []byte("1,alice,p1\n2,bob,p2\n3,carol,p3\n"))
	}
	_ = vkit.WriteMemAt("/c16/data.json", []byte(`[{"id":1,"name":"a"},{"id":2,"name":"b"}]`))
	rng := vkit.Rand("c16")
	n := vkit.N(700, 25000)
	for i := 0; i < n; i++ {
		hostile := []int{0, 15, 40, 80}[i%4]
		d := genDesc(rng, hostile, true)
		if i%5 == 3 {
			d = withAnchors(d)
			if d.YAMLAnchors {
				res.Count("descriptions_with_yaml_anchors", 1)
			}
		}
		runDesc(res, d, rng, i)
	}
	concurrentLoads(res, rng, vkit.N(150, 3000))
	if res.Counter("both_accepted") < int64(n/3) {
		res.Inconclusive(true, "only %d of %d descriptions were accepted by both front-ends", res.Counter("both_accepted"), n)
	}
	res.Write()
}
