// C09 — HTTP wire fidelity: the request reaching the target equals ammo plus gun config.
//
// Generated ammo in all four formats (unique ?vid markers, header sets colliding with the
// provider's `headers` option incl. Host and case variants) is fired by real pools (http and
// connect guns, ssl on/off, keep-alive on/off, 1–8 instances) at an in-process recording
// target; every received request is matched to its entry by marker and compared.
package main

import (
	"bytes"
	"fmt"
	"io"
	"math/rand"
	"net/http"
	"net/url"
	"os"
	"path/filepath"
	"strings"
	"time"

	"go.uber.org/zap"
	"go.uber.org/zap/zapcore"

	"verif/harness/vkit"
)

type Case struct {
	File      vkit.AmmoFile `json:"file"`
	Conf      []vkit.KV     `json:"conf_headers,omitempty"`
	Gun       string        `json:"gun"`
	SSL       bool          `json:"ssl"`
	NoKeep    bool          `json:"disable_keep_alives"`
	Instances int           `json:"instances"`
	Passes    int           `json:"passes"`
	Preload   bool          `json:"preload,omitempty"`
	// Paced: two requests per second and instance, with response-header-timeout 150 ms and the
	// idle connection timeout left at its 90 s: instances idle for ~0.5 s between their shots
	// and must still find their connection open
	Paced bool   `json:"paced,omitempty"`
	// NamedTarget: the gun's target is written as a host name ("localhost:port") instead of an IP
	// literal: requests without a Host of their own carry that name, whatever the gun resolved it to
	NamedTarget bool `json:"named_target,omitempty"`
	// gun options that handle the request before it is sent: the answer log (filter all: the body is
	// read and put back), httptrace dump+trace (the request is dumped with its body), a shared client pool
	AnswLog      bool `json:"answlog_all,omitempty"`
	Trace        bool `json:"httptrace_dump_trace,omitempty"`
	SharedClient int  `json:"shared_client_number,omitempty"`
	// DebugLog: the run's log level is debug (log: {level: debug}): the guns then log every
	// request and response in full, bodies included
	DebugLog bool `json:"log_level_debug,omitempty"`
	Text  string `json:"file_preview,omitempty"`
}

var typeName = map[string]string{"uri": "uri", "uripost": "uripost", "raw": "raw", "jsonline": "http/json"}

var targets = map[bool]*vkit.HTTPTarget{}

func vidOf(uri string) string {
	u, err := url.ParseRequestURI(uri)
	if err != nil {
		return ""
	}
	return u.Query().Get("vid")
}

func runCase(res *vkit.Result, c Case) {
	tgt := targets[c.SSL]
	tgt.Reset()
	// the target keeps connections open but answers in different shapes: fixed length, empty,
	// chunked (flushed in two parts), long without a declared length, 204, 404
	tgt.Respond = func(rec *vkit.ReqRec, w http.ResponseWriter, r *http.Request) {
		switch rec.Seq % 6 {
		case 0:
			w.WriteHeader(200)
			_, _ = w.Write([]byte("ok"))
		case 1:
			w.Header().Set("Content-Length", "0")
			w.WriteHeader(200)
		case 2:
			w.WriteHeader(200)
			_, _ = w.Write([]byte("first part "))
			if f, ok := w.(http.Flusher); ok {
				f.Flush()
			}
			_, _ = w.Write([]byte("second part"))
		case 3:
			w.WriteHeader(200)
			_, _ = w.Write([]byte(strings.Repeat("long body without a declared length ", 200)))
		case 4:
			w.WriteHeader(204)
		default:
			w.WriteHeader(404)
			_, _ = w.Write([]byte("not found"))
		}
	}
	data := c.File.Render()
	c.Text = fmt.Sprintf("%q", data)
	if len(c.Text) > 2500 {
		c.Text = c.Text[:2500]
	}
	path := vkit.WriteMem(data)
	defer vkit.RemoveMem(path)
	keyp := fmt.Sprintf("C09/%s/%s", c.File.Format, c.Gun)
	fail := func(check, f string, a ...any) { res.Violate(keyp+"/"+check, fmt.Sprintf(f, a...), c) }
	ammo := map[string]any{"type": typeName[c.File.Format], "file": path, "passes": c.Passes}
	if c.Preload {
		ammo["preload"] = true
	}
	if len(c.Conf) > 0 {
		ammo["headers"] = vkit.ConfHeaders(c.Conf)
	}
	gun := map[string]any{"type": c.Gun, "target": tgt.Addr, "ssl": c.SSL}
	tHost, tPort, _ := strings.Cut(tgt.Addr, ":")
	tAddr := tgt.Addr
	if c.NamedTarget {
		tHost, tAddr = "localhost", "localhost:"+tPort
		gun["target"] = tAddr
	}
	if c.NoKeep {
		gun["disable-keep-alives"] = true
	}
	if c.AnswLog {
		gun["answlog"] = map[string]any{"enabled": true, "filter": "all", "path": answLogPath()}
	}
	if c.Trace {
		gun["httptrace"] = map[string]any{"dump": true, "trace": true}
	}
	if c.SharedClient > 0 {
		gun["shared-client"] = map[string]any{"enabled": true, "client-number": c.SharedClient}
	}
	rps := 400
	if c.Paced {
		gun["response-header-timeout"] = "150ms"
		gun["idle-conn-timeout"] = "90s"
		rps = 2 * c.Instances
	}
	ec, err := vkit.DecodePools(map[string]any{"pools": []any{map[string]any{
		"id": "p", "ammo": ammo, "result": map[string]any{"type": "discard"}, "gun": gun,
		"rps":     map[string]any{"type": "const", "ops": rps, "duration": "60s"},
		"startup": map[string]any{"type": "once", "times": c.Instances},
	}}})
	if err != nil {
		fail("rejected", "valid pool config rejected: %v", err)
		return
	}
	aggr := &vkit.MockAggregator{}
	ec.Pools[0].Aggregator = aggr
	var log *zap.Logger
	if c.DebugLog {
		log = zap.New(zapcore.NewCore(zapcore.NewJSONEncoder(zap.NewProductionEncoderConfig()), zapcore.AddSync(io.Discard), zapcore.DebugLevel))
		res.Count("cases_with_debug_log", 1)
	}
	rr := vkit.RunEngine(ec, log, 60*time.Second)
	if rr.Hang {
		res.Inconclusive(false, "pool did not end within 60s")
		return
	}
	if rr.Err != nil {
		fail("run-error", "run ended with %v", rr.Err)
		return
	}
	pass := c.File.ExpectedPass(c.Conf)
	byVid := map[string]vkit.Expect{}
	for _, x := range pass {
		byVid[vidOf(x.URI)] = x
	}
	reqs := tgt.Requests()
	seen := map[string]int{}
	for _, r := range reqs {
		vid := vidOf(r.URI)
		x, ok := byVid[vid]
		if !ok {
			fail("unknown-request", "target received %s %s which matches no ammo entry", r.Method, r.URI)
			continue
		}
		seen[vid]++
		var d []string
		if r.Method != x.Method {
			d = append(d, fmt.Sprintf("method %q want %q", r.Method, x.Method))
		}
		if r.URI != x.URI {
			d = append(d, fmt.Sprintf("request URI %q want %q", r.URI, x.URI))
		}
		wantBody := x.Body
		if r.Method == "HEAD" {
			wantBody = r.Body
		}
		if !bytes.Equal(r.Body, wantBody) && !(len(r.Body) == 0 && len(wantBody) == 0) {
			d = append(d, fmt.Sprintf("body %q want %q", r.Body, wantBody))
		}
		if r.TLS != c.SSL {
			d = append(d, fmt.Sprintf("tls=%v want %v", r.TLS, c.SSL))
		}
		if c.Gun == "http2" {
			if r.Proto == "HTTP/2.0" {
				res.Count("requests_over_http2", 1)
			} else {
				d = append(d, fmt.Sprintf("protocol %q from the http2 gun", r.Proto))
			}
		}
		if x.Host != "" {
			if r.Host != x.Host {
				d = append(d, fmt.Sprintf("Host %q want the ammo's %q", r.Host, x.Host))
			}
		} else if r.Host != tHost && r.Host != tAddr {
			d = append(d, fmt.Sprintf("Host %q want the target's host %q", r.Host, tHost))
		}
		// headers: every expected one present with its value(s); nothing beyond the permitted extras
		got := r.Header.Clone()
		for _, k := range []string{"Content-Length", "Transfer-Encoding", "Accept-Encoding"} {
			got.Del(k)
		}
		if c.NoKeep && got.Get("Connection") == "close" {
			if _, ok := x.Header["Connection"]; !ok {
				got.Del("Connection")
			}
		}
		want := x.Header.Clone()
		want.Del("Content-Length")
		if _, ok := want["User-Agent"]; !ok {
			if ua := got.Get("User-Agent"); strings.HasPrefix(ua, "Go-http-client/") {
				got.Del("User-Agent")
			}
		} else if len(want["User-Agent"]) == 1 && want.Get("User-Agent") == "" {
			// an explicitly empty User-Agent suppresses the header
			got.Del("User-Agent")
			want.Del("User-Agent")
		}
		if c.Gun == "http2" {
			// HTTP/2 carries a Cookie header as one field per cookie pair (RFC 9113 §8.2.3): the
			// client splits the value at every ";" and the server joins the pieces with "; " — the
			// cookies are the same, the blanks after the semicolons are not part of them
			for _, h := range []http.Header{got, want} {
				for i, v := range h["Cookie"] {
					h["Cookie"][i] = h2Cookie(v)
				}
			}
		}
		if hd := vkit.DiffHeader(got, want); hd != "" {
			cls := "headers"
			for _, kv := range c.Conf {
				if strings.Contains(hd, canon(kv.K)+"=") {
					cls = "config-header-vs-ammo-header"
				}
			}
			res.Violate(keyp+"/"+cls, fmt.Sprintf("request vid=%s: headers on the wire differ from ammo+config (ammo has priority): %s", vid, hd), c)
		}
		if len(d) > 0 {
			cls := "request"
			if strings.Contains(strings.Join(d, ";"), "Host ") {
				cls = "host"
			}
			fail(cls, "request vid=%s differs on the wire: %s", vid, strings.Join(d, "; "))
		}
		res.Count("requests_matched", 1)
	}
	for vid := range byVid {
		if seen[vid] != c.Passes {
			fail("count", "entry vid=%s arrived %d times, want %d", vid, seen[vid], c.Passes)
		}
	}
	// connections
	total := len(reqs)
	conns := int(tgt.NewConns.Load())
	if c.Gun == "connect" {
		conns = int(tgt.Connects.Load())
	}
	if c.NamedTarget {
		// a target given by name is probed once for reachability while the config is decoded (a
		// connection that carries no request and belongs to no instance): the connections that
		// carried requests are counted instead of the accepted ones
		used := map[string]bool{}
		for _, r := range reqs {
			used[r.Conn] = true
		}
		conns = len(used)
	}
	if c.SharedClient > 0 {
		// the statement's connection clause is about per-instance clients; with a shared pool only
		// the requests are judged
		res.Count("cases_with_shared_client", 1)
	} else if c.NoKeep {
		if conns != total {
			fail("connections", "keep-alives disabled: %d requests over %d connections, want one connection per request", total, conns)
		}
	} else if conns > c.Instances {
		fail("connections", "keep-alive: %d connections for %d instances (%d requests)", conns, c.Instances, total)
	}
	if len(c.Conf) > 0 {
		res.Count("cases_with_config_headers", 1)
	}
	res.Count(fmt.Sprintf("pools_%s_%s_ssl=%v_nokeep=%v", c.File.Format, c.Gun, c.SSL, c.NoKeep), 1)
	res.Eval(c.Text+fmt.Sprint(c.Conf, c.Gun, c.SSL, c.NoKeep, c.Instances), total >= 2)
	if c.File.Layout.Seed%17 == 0 {
		res.Sample(map[string]any{"format": c.File.Format, "gun": c.Gun, "ssl": c.SSL, "disable_keep_alives": c.NoKeep, "instances": c.Instances,
			"config_headers": c.Conf, "file": c.Text, "requests_received": total, "connections": conns})
	}
}

// answLogPath: the answer log is a real file (zap opens it through the os); one per process.
func answLogPath() string {
	d := os.Getenv("VERIF_TMP")
	if d == "" {
		d = os.TempDir()
	}
	return filepath.Join(d, fmt.Sprintf("c09-answ-%d.log", os.Getpid()))
}

// h2Cookie is what a Cookie value looks like after the split and re-join of HTTP/2.
func h2Cookie(v string) string {
	var parts []string
	for len(v) > 0 {
		p := strings.IndexByte(v, ';')
		if p < 0 {
			break
		}
		parts = append(parts, v[:p])
		p++
		for p < len(v) && v[p] == ' ' {
			p++
		}
		v = v[p:]
	}
	if len(v) > 0 {
		parts = append(parts, v)
	}
	return strings.Join(parts, "; ")
}

func canon(k string) string {
	return strings.Title(strings.ToLower(k)) // only used for a substring match on simple names
}

func gen(rng *rand.Rand, i int) Case {
	formats := []string{"uri", "uripost", "raw", "jsonline"}
	c := Case{File: vkit.GenAmmoFile(rng, formats[i%4], 6, 1), Gun: "http", Instances: 1 + rng.Intn(8), Passes: 1 + rng.Intn(2)}
	if rng.Intn(3) == 0 {
		// preloaded ammo is handed out again on every pass: with more instances than entries
		// the same entry is in the hands of several instances at once
		c.Preload = true
		c.Passes = 2 + rng.Intn(3)
		c.Instances = 4 + rng.Intn(8)
	}
	if rng.Intn(3) == 0 {
		c.Gun = "connect"
	}
	c.SSL = c.Gun == "http" && rng.Intn(3) == 0
	c.NoKeep = rng.Intn(3) == 0
	if i%6 == 5 {
		// the HTTP/2 gun (TLS only): one multiplexed connection per instance
		c.Gun, c.SSL, c.NoKeep = "http2", true, false
	}
	switch i % 7 {
	case 1:
		c.AnswLog = true
	case 3:
		c.Trace = true
	case 5:
		c.SharedClient = 1 + rng.Intn(3)
	case 6:
		c.AnswLog, c.Trace = true, rng.Intn(2) == 0
	case 2:
		c.DebugLog = true
	case 4:
		c.DebugLog, c.AnswLog = true, rng.Intn(2) == 0
	}
	if i%40 == 7 {
		c.Paced, c.NoKeep, c.Preload = true, false, false
		c.Instances = 1 + rng.Intn(3)
		c.Passes = (4*c.Instances)/len(c.File.Entries()) + 1
	}
	// configured headers that collide with headers the generator uses, in other letter case too
	if rng.Intn(4) != 0 {
		for _, k := range []string{"X-Req", "x-req", "ACCEPT", "User-Agent", "X-Conf-Only", "Cookie", "x-upper-case", "Host", "host"} {
			if rng.Intn(3) == 0 {
				v := "conf-" + k
				if strings.EqualFold(k, "host") {
					v = "confhost.example.org"
				}
				c.Conf = append(c.Conf, vkit.KV{K: k, V: v})
			}
		}
		if rng.Intn(4) == 0 {
			// a name configured twice: requests that do not define it carry both values
			c.Conf = append(c.Conf, vkit.KV{K: "X-Twice", V: "first"}, vkit.KV{K: "X-Twice", V: "second"})
			return c
		}
		// otherwise at most one spelling per header name
		seen := map[string]bool{}
		var out []vkit.KV
		for _, kv := range c.Conf {
			if !seen[strings.ToLower(kv.K)] {
				seen[strings.ToLower(kv.K)] = true
				out = append(out, kv)
			}
		}
		c.Conf = out
	}
	return c
}

func seeds() []Case {
	mk := func(format string) vkit.AmmoFile {
		f := vkit.AmmoFile{Format: format, Layout: vkit.Layout{FinalNewline: true, JSONMode: "lines", Seed: 3}}
		h1 := vkit.KV{K: "X-Req", V: "from-file"}
		h2 := vkit.KV{K: "Host", V: "filehost.example.org"}
		e1 := vkit.Entry{Method: "GET", URI: "/a?vid=1", Tag: "t"}
		e2 := vkit.Entry{Method: "GET", URI: "/b?vid=2"}
		switch format {
		case "uri", "uripost":
			if format == "uripost" {
				e1.Method, e2.Method = "POST", "POST"
				e1.Body = []byte("abc")
			}
			f.Items = []vkit.Item{{Entry: &e2}, {Header: &h1}, {Header: &h2}, {Entry: &e1}}
		default:
			e1.Host = "filehost.example.org"
			e1.Headers = []vkit.KV{h1}
			f.Items = []vkit.Item{{Entry: &e2}, {Entry: &e1}}
		}
		return f
	}
	var out []Case
	for _, f := range []string{"uri", "uripost", "raw", "jsonline"} {
		out = append(out, Case{File: mk(f), Gun: "http", Instances: 2, Passes: 1,
			Conf: []vkit.KV{{K: "x-req", V: "from-config"}, {K: "Host", V: "confhost.example.org"}, {K: "X-Conf-Only", V: "c"}}})
	}
	out = append(out, Case{File: mk("uri"), Gun: "http", Instances: 2, Passes: 4, Paced: true})
	out = append(out, Case{File: mk("uripost"), Gun: "connect", Instances: 1, Passes: 3, Paced: true})
	out = append(out, Case{File: mk("uripost"), Gun: "http", Instances: 2, Passes: 2, AnswLog: true, Trace: true})
	out = append(out, Case{File: mk("raw"), Gun: "http2", SSL: true, Instances: 2, Passes: 2})
	out = append(out, Case{File: mk("jsonline"), Gun: "http", Instances: 3, Passes: 2, SharedClient: 2})
	out = append(out, Case{File: mk("uripost"), Gun: "http", Instances: 2, Passes: 2, DebugLog: true})
	return out
}

// twoLateNamedTargets: two pools whose targets are written as the same host name with different
// ports; both are still down while the config is decoded (so nothing can be resolved beforehand)
// and up before the first shot. Every request must arrive at its own pool's target.
func twoLateNamedTargets(res *vkit.Result, gunType string) {
	ports := []int{vkit.FreePort(), vkit.FreePort()}
	var pools []any
	var paths []string
	for i, port := range ports {
		var b strings.Builder
		for k := 0; k < 6; k++ {
			fmt.Fprintf(&b, "/pool%d/e%d?vid=%d\n", i, k, k)
		}
		path := vkit.WriteMem([]byte(b.String()))
		paths = append(paths, path)
		pools = append(pools, map[string]any{
			"id": fmt.Sprintf("p%d", i), "ammo": map[string]any{"type": "uri", "file": path, "passes": 3}, "result": map[string]any{"type": "discard"},
			"gun": map[string]any{"type": gunType, "target": fmt.Sprintf("localhost:%d", port)},
			"rps": map[string]any{"type": "const", "ops": 300, "duration": "60s"}, "startup": map[string]any{"type": "once", "times": 2}})
	}
	defer func() {
		for _, p := range paths {
			vkit.RemoveMem(p)
		}
	}()
	c := map[string]any{"layer": "two pools, targets localhost:A and localhost:B, both down while the config is decoded", "gun": gunType}
	ec, err := vkit.DecodePools(map[string]any{"pools": pools})
	if err != nil {
		res.Violate("C09/late-named-targets/rejected", fmt.Sprintf("valid config rejected: %v", err), c)
		return
	}
	var tgts []*vkit.HTTPTarget
	for _, port := range ports {
		t, err := vkit.NewHTTPTargetAt(fmt.Sprintf("127.0.0.1:%d", port), false)
		if err != nil {
			res.Inconclusive(false, "cannot start a target on a port that was free a moment ago: %v", err)
			return
		}
		defer t.Close()
		tgts = append(tgts, t)
	}
	for i := range ec.Pools {
		ec.Pools[i].Aggregator = &vkit.MockAggregator{}
	}
	rr := vkit.RunEngine(ec, nil, 60*time.Second)
	if rr.Hang || rr.Err != nil {
		res.Violate("C09/late-named-targets/run-error", fmt.Sprintf("run ended with %v (hang %v)", rr.Err, rr.Hang), c)
		return
	}
	for i, t := range tgts {
		own, foreign := 0, ""
		for _, r := range t.Requests() {
			if strings.HasPrefix(r.URI, fmt.Sprintf("/pool%d/", i)) {
				own++
			} else if foreign == "" {
				foreign = r.URI
			}
		}
		if foreign != "" || own != 18 {
			res.Violate("C09/late-named-targets/wrong-target", fmt.Sprintf("target %d (localhost:%d) received %d of its pool's 18 requests and e.g. %q of the other pool", i, ports[i], own, foreign), c)
		}
		res.Count("requests_matched", int64(own))
	}
	res.Eval(vkit.JSON(c), true)
}

func main() {
	vkit.Fs()
	res := vkit.NewResult("pools decoded from config maps: ammo in uri/uripost/raw/http-json (1–6 entries, unique ?vid markers, header sets incl. Host) × `headers` option lists colliding with ammo headers in the same and in different letter case (incl. Host) × gun {http, connect, http2} × answlog (filter all) / httptrace dump+trace / shared-client × ssl × disable-keep-alives × 1–11 instances × 1–4 passes × preload on/off, fired at an in-process recording HTTP(S) target that also serves CONNECT tunnels and answers in six shapes (fixed length, empty, chunked, long without declared length, 204, 404); distinct = distinct (file, option list, gun settings); non-trivial = ≥ 2 requests received")
	var err error
	for _, tls := range []bool{false, true} {
		targets[tls], err = vkit.NewHTTPTarget(tls)
		if err != nil {
			res.Inconclusive(true, "cannot start target: %v", err)
			res.Write()
			return
		}
	}
	rng := vkit.Rand("c09")
	cases := seeds()
	for i := 0; i < vkit.N(200, 2500); i++ {
		cases = append(cases, gen(rng, i))
	}
	for i, c := range cases {
		if c.Gun == "http" && i%5 == 2 && c.SharedClient == 0 {
			c.NamedTarget = true
			res.Count("cases_with_named_target", 1)
		}
		runCase(res, c)
	}
	twoLateNamedTargets(res, "http")
	twoLateNamedTargets(res, "connect")
	if res.Counter("requests_matched") < 100 || res.Counter("cases_with_config_headers") < 10 || res.Counter("requests_over_http2") < 10 {
		res.Inconclusive(true, "too few requests matched")
	}
	res.Write()
}
