// C10 — Sample result coding: one sample per request with faithful codes, tags, ids.
package main

import (
	"bufio"
	"context"
	"fmt"
	"io"
	"sync"
	"sync/atomic"

	"github.com/spf13/afero"
	"github.com/yandex/pandora/core"
	"net"
	"net/http"
	"os"
	"path/filepath"
	"strconv"
	"strings"
	"time"

	"github.com/yandex/pandora/core/engine"
	server "github.com/yandex/pandora/examples/grpc/server"
	"google.golang.org/grpc/codes"

	"verif/harness/vkit"
)

func runPool(pool map[string]any, watchdog time.Duration) ([]vkit.SampleRec, vkit.RunResult, error) {
	ec, err := vkit.DecodePools(map[string]any{"pools": []any{pool}})
	if err != nil {
		return nil, vkit.RunResult{}, err
	}
	aggr := &vkit.MockAggregator{}
	ec.Pools[0].Aggregator = aggr
	rr := vkit.RunEngine(ec, nil, watchdog)
	return aggr.Snapshot(), rr, nil
}

func pool(ammo, gun map[string]any, instances int) map[string]any {
	return map[string]any{"id": "p", "ammo": ammo, "result": map[string]any{"type": "discard"}, "gun": gun,
		"rps": map[string]any{"type": "const", "ops": 2000, "duration": "60s"}, "startup": map[string]any{"type": "once", "times": instances}}
}

// ---------- (1) every HTTP status ----------

func httpStatuses(res *vkit.Result, gunType string, tls bool, instances int) {
	tgt, err := vkit.NewHTTPTarget(tls)
	if err != nil {
		res.Inconclusive(true, "target: %v", err)
		return
	}
	defer tgt.Close()
	tgt.Respond = func(rec *vkit.ReqRec, w http.ResponseWriter, r *http.Request) {
		code, _ := strconv.Atoi(strings.TrimPrefix(r.URL.Path, "/s/"))
		if code == 0 {
			code = 200
		}
		if code >= 300 && code <= 399 {
			// redirect statuses come with every kind of Location: none, well-formed (which the gun does
			// not follow by default), and values that are no URL at all — the status received is the
			// sample's code whatever the header says
			if loc := []string{"", "/ok", "http://other.example/x", "http://other host/path", "/bad%zzpath", ":8080/path", "http://[::1/unterminated", "//"}[code%8]; loc != "" {
				w.Header().Set("Location", loc)
			}
		}
		w.WriteHeader(code)
		if code != 204 && code != 304 && r.Method != "HEAD" {
			_, _ = w.Write([]byte("body of " + strconv.Itoa(code)))
		}
	}
	var b strings.Builder
	for code := 200; code <= 599; code++ {
		fmt.Fprintf(&b, "/s/%d s%d\n", code, code)
	}
	path := vkit.WriteMem([]byte(b.String()))
	defer vkit.RemoveMem(path)
	c := map[string]any{"gun": gunType, "tls": tls, "instances": instances}
	key := "C10/http-status/" + gunType
	samples, rr, err := runPool(pool(map[string]any{"type": "uri", "file": path, "passes": 1},
		map[string]any{"type": gunType, "target": tgt.Addr, "ssl": tls}, instances), 90*time.Second)
	if err != nil || rr.Err != nil || rr.Hang {
		res.Violate(key+"/run", fmt.Sprintf("pool failed: %v %v hang=%v", err, rr.Err, rr.Hang), c)
		return
	}
	if len(samples) != 400 {
		res.Violate(key+"/sample-count", fmt.Sprintf("400 requests fired, %d samples reported", len(samples)), c)
	}
	ids := map[uint64]int{}
	for _, s := range samples {
		want, _ := strconv.Atoi(strings.TrimPrefix(s.Tags, "s"))
		if s.Proto != want {
			res.Violate(key+"/proto", fmt.Sprintf("response status %d reported as proto code %d", want, s.Proto), c)
		}
		if s.Net != 0 {
			res.Violate(key+"/net", fmt.Sprintf("response %d received but net code is %d (%s)", want, s.Net, s.Err), c)
		}
		ids[s.ID]++
		res.Count("http_status_samples", 1)
	}
	for id, n := range ids {
		if n != 1 || id == 0 {
			res.Violate(key+"/ids", fmt.Sprintf("sample id %d appears %d times among %d samples of one run", id, n, len(samples)), c)
			break
		}
	}
	if got := tgt.Count(); got != 400 {
		res.Violate(key+"/requests", fmt.Sprintf("target saw %d requests for 400 ammo", got), c)
	}
	res.Eval(key+fmt.Sprint(tls, instances), true)
	res.Sample(map[string]any{"check": "every status 200…599", "gun": gunType, "tls": tls, "instances": instances, "samples": len(samples), "distinct_ids": len(ids)})
}

// ---------- (2) failure kinds ----------

func failureKinds(res *vkit.Result) {
	type kind struct {
		name      string
		handler   func(c net.Conn, n int64)
		gunExtra  map[string]any
		wantProto int // −1: any
		wantNet   int // 0: any non-zero code; else the errno of this failure kind
	}
	readReq := func(c net.Conn) {
		buf := make([]byte, 4096)
		_ = c.SetReadDeadline(time.Now().Add(2 * time.Second))
		_, _ = c.Read(buf)
	}
	kinds := []kind{
		{name: "reset", handler: func(c net.Conn, n int64) {
			readReq(c)
			if tc, ok := c.(*net.TCPConn); ok {
				_ = tc.SetLinger(0)
			}
		}, wantProto: 0, wantNet: 104}, // ECONNRESET
		{name: "close-before-response", handler: func(c net.Conn, n int64) { readReq(c) }, wantProto: 0},
		{name: "header-timeout", handler: func(c net.Conn, n int64) { readReq(c); time.Sleep(600 * time.Millisecond) },
			gunExtra: map[string]any{"response-header-timeout": "150ms"}, wantProto: 0, wantNet: 110}, // ETIMEDOUT
		{name: "short-body", handler: func(c net.Conn, n int64) {
			readReq(c)
			_, _ = c.Write([]byte("HTTP/1.1 200 OK\r\nContent-Length: 100\r\n\r\nonly-ten-b"))
		}, wantProto: 200},
		{name: "garbage-status-line", handler: func(c net.Conn, n int64) {
			readReq(c)
			_, _ = c.Write([]byte("HTTP/1.1 abc nope\r\n\r\n"))
		}, wantProto: 0},
		{name: "refused", wantProto: 0, wantNet: 111}, // ECONNREFUSED
	}
	for _, k := range kinds {
		// "http+answlog" / "http+trace": the gun also writes every exchange to its answer log (filter
		// all), or dumps and traces it — what it looked at on the way must not change the verdict
		for _, gunVar := range []string{"http", "connect", "http+answlog", "http+trace"} {
			gunType := strings.Split(gunVar, "+")[0]
			if gunVar != "http" && k.name != "refused" && k.name != "reset" && !(gunType == "http" && k.name == "short-body") {
				continue
			}
			addr := vkit.ClosedPort()
			if k.handler != nil {
				rt, err := vkit.NewRawTarget(k.handler)
				if err != nil {
					res.Inconclusive(true, "raw target: %v", err)
					return
				}
				defer rt.Close()
				addr = rt.Addr
			}
			path := vkit.WriteMem([]byte("/a t1\n/b t2\n/c t3\n/d t4\n/e t5\n/f t6\n"))
			gun := map[string]any{"type": gunType, "target": addr, "dial": map[string]any{"timeout": "1s"}}
			for kk, v := range k.gunExtra {
				gun[kk] = v
			}
			if strings.HasSuffix(gunVar, "+answlog") {
				gun["answlog"] = map[string]any{"enabled": true, "filter": "all", "path": filepath.Join(vkit.TmpDir(), fmt.Sprintf("c10-answ-%d.log", os.Getpid()))}
			}
			if strings.HasSuffix(gunVar, "+trace") {
				gun["httptrace"] = map[string]any{"dump": true, "trace": true}
			}
			c := map[string]any{"failure": k.name, "gun": gunVar}
			key := "C10/http-failure/" + k.name + "/" + gunVar
			samples, rr, err := runPool(pool(map[string]any{"type": "uri", "file": path, "passes": 1}, gun, 2), 60*time.Second)
			vkit.RemoveMem(path)
			if err != nil || rr.Err != nil || rr.Hang {
				res.Violate(key+"/run", fmt.Sprintf("a failing target aborted the pool: %v %v hang=%v", err, rr.Err, rr.Hang), c)
				continue
			}
			if len(samples) != 6 {
				res.Violate(key+"/sample-count", fmt.Sprintf("6 requests fired, %d samples reported", len(samples)), c)
			}
			for _, s := range samples {
				if s.Net == 0 {
					res.Violate(key+"/net", fmt.Sprintf("the exchange failed (%s) but net code is 0 (proto %d, err %q)", k.name, s.Proto, s.Err), c)
				}
				if k.wantNet != 0 && s.Net != 0 && s.Net != k.wantNet {
					res.Violate(key+"/errno", fmt.Sprintf("failure kind %s reported with net code %d, the errno of this failure is %d (err %q)", k.name, s.Net, k.wantNet, s.Err), c)
				}
				if k.wantProto >= 0 && s.Proto != k.wantProto {
					res.Violate(key+"/proto", fmt.Sprintf("proto code %d, want %d", s.Proto, k.wantProto), c)
				}
				res.Count("http_failure_samples", 1)
			}
			res.Eval(key, true)
			if len(samples) > 0 {
				res.Sample(map[string]any{"check": "failure kind", "failure": k.name, "gun": gunType, "first_sample": samples[0]})
			}
		}
	}
}

// ---------- (3) tags ----------

func modelAutoTag(depth int, path string) string {
	// first `depth` path elements: /a/b/c with depth 2 → /a/b
	parts := strings.Split(strings.TrimPrefix(path, "/"), "/")
	if len(parts) > depth {
		parts = parts[:depth]
	}
	return "/" + strings.Join(parts, "/")
}

func tags(res *vkit.Result) {
	tgt, err := vkit.NewHTTPTarget(false)
	if err != nil {
		res.Inconclusive(true, "target: %v", err)
		return
	}
	defer tgt.Close()
	// the last two have an empty path (the request goes out as "GET /?…"): there is nothing to derive
	// an auto-tag from, so an untagged entry is __EMPTY__ whatever the auto-tag settings
	paths := []string{"/one", "/one/two", "/one/two/three", "/one/two/three/four", "/a/b/c/d/e?x=/q/r", "/", "?x=1", "http://example.com"}
	type line struct{ path, tag string }
	var lines []line
	var b strings.Builder
	for i, p := range paths {
		for _, tg := range []string{"", "mytag"} {
			uri := p
			if strings.Contains(uri, "?") {
				uri += fmt.Sprintf("&vid=%d", len(lines))
			} else {
				uri += fmt.Sprintf("?vid=%d", len(lines))
			}
			lines = append(lines, line{p, tg})
			fmt.Fprintf(&b, "%s %s\n", uri, tg)
			_ = i
		}
	}
	// "no-tag-only" is given as true, given as false, or left out (documented default: true), for
	// both gun types that take the auto-tag section.
	for _, gunType := range []string{"http", "connect"} {
		for _, enabled := range []bool{false, true} {
			for depth := 1; depth <= 3; depth++ {
				for _, nto := range []string{"true", "false", "omitted"} {
					noTagOnly := nto != "false"
					if !enabled && (depth != 2 || nto == "false") {
						continue
					}
					if gunType == "connect" && depth == 3 {
						continue
					}
					path := vkit.WriteMem([]byte(b.String()))
					// ids identify the line: one instance, ids 1…n in file order
					at := map[string]any{"enabled": enabled, "uri-elements": depth, "no-tag-only": noTagOnly}
					if nto == "omitted" {
						delete(at, "no-tag-only")
						if depth == 2 {
							delete(at, "uri-elements") // documented default: 2
						}
					}
					gun := map[string]any{"type": gunType, "target": tgt.Addr, "auto-tag": at}
					c := map[string]any{"gun": gunType, "auto_tag": enabled, "uri_elements": depth, "no_tag_only": nto}
					key := fmt.Sprintf("C10/tags/auto=%v", enabled)
					if gunType != "http" {
						key = fmt.Sprintf("C10/tags/%s/auto=%v", gunType, enabled)
					}
					samples, rr, err := runPool(pool(map[string]any{"type": "uri", "file": path, "passes": 1}, gun, 1), 60*time.Second)
					vkit.RemoveMem(path)
					if err != nil || rr.Err != nil || rr.Hang {
						res.Violate(key+"/run", fmt.Sprintf("pool failed: %v %v", err, rr.Err), c)
						continue
					}
					if len(samples) != len(lines) {
						res.Violate(key+"/sample-count", fmt.Sprintf("%d requests, %d samples", len(lines), len(samples)), c)
						continue
					}
					for _, s := range samples {
						l := lines[int(s.ID)-1]
						purePath := strings.SplitN(l.path, "?", 2)[0]
						if strings.HasPrefix(purePath, "http://") {
							purePath = ""
						}
						auto := ""
						if purePath != "" {
							auto = modelAutoTag(depth, purePath)
						}
						var ok bool
						switch {
						case !enabled && l.tag == "":
							ok = s.Tags == "__EMPTY__"
						case !enabled:
							ok = s.Tags == l.tag
						case l.tag == "" && auto == "":
							ok = s.Tags == "__EMPTY__" // no tag and no path to derive one from
						case l.tag == "":
							ok = s.Tags == auto
						case noTagOnly:
							ok = s.Tags == l.tag
						default: // tag present and auto-tag forced: either is accepted
							ok = s.Tags == l.tag || (auto != "" && s.Tags == auto) || s.Tags == l.tag+"|"+auto
						}
						if !ok {
							res.Violate(key+"/tag", fmt.Sprintf("ammo %q with tag %q reported with tag %q (auto-tag %v depth %d no-tag-only %v; auto tag would be %q)", l.path, l.tag, s.Tags, enabled, depth, noTagOnly, auto), c)
						}
						res.Count("tag_samples", 1)
					}
					res.Eval(fmt.Sprint(key, depth, nto), true)
				}
			}
		}
	}
}

// ---------- (3b) the ammo's tag on every pass, for every file format ----------

// tagsFormats: five tagged entries per file, read three times, with and without preloading: every
// tag must be reported exactly three times (a tag lost or replaced on a later pass shows here).
func tagsFormats(res *vkit.Result) {
	tgt, err := vkit.NewHTTPTarget(false)
	if err != nil {
		res.Inconclusive(true, "target: %v", err)
		return
	}
	defer tgt.Close()
	const entries, passes = 5, 3
	files := map[string]func() (string, string){
		"uri": func() (string, string) {
			var b strings.Builder
			for i := 0; i < entries; i++ {
				fmt.Fprintf(&b, "/u%d tag%d\n", i, i)
			}
			return "uri", b.String()
		},
		"uripost": func() (string, string) {
			var b strings.Builder
			for i := 0; i < entries; i++ {
				fmt.Fprintf(&b, "5 /p%d tag%d\nhello\n", i, i)
			}
			return "uripost", b.String()
		},
		"raw": func() (string, string) {
			var b strings.Builder
			for i := 0; i < entries; i++ {
				req := fmt.Sprintf("GET /r%d HTTP/1.1\r\nHost: h.example\r\n\r\n", i)
				fmt.Fprintf(&b, "%d tag%d\n%s\n", len(req), i, req)
			}
			return "raw", b.String()
		},
		"jsonline-lines": func() (string, string) {
			var b strings.Builder
			for i := 0; i < entries; i++ {
				fmt.Fprintf(&b, `{"host":"h.example","method":"GET","uri":"/j%d","tag":"tag%d"}`+"\n", i, i)
			}
			return "http/json", b.String()
		},
		"jsonline-array": func() (string, string) {
			var xs []string
			for i := 0; i < entries; i++ {
				xs = append(xs, fmt.Sprintf(`{"host":"h.example","method":"GET","uri":"/a%d","tag":"tag%d"}`, i, i))
			}
			return "http/json", "[" + strings.Join(xs, ",\n") + "]\n"
		},
	}
	// every second entry without a tag: those are reported as __EMPTY__, never with a neighbour's tag
	mixed := map[string]func() (string, string){
		"uri-mixed": func() (string, string) {
			var b strings.Builder
			for i := 0; i < entries; i++ {
				if i%2 == 0 {
					fmt.Fprintf(&b, "/u%d tag%d\n", i, i)
				} else {
					fmt.Fprintf(&b, "/u%d\n", i)
				}
			}
			return "uri", b.String()
		},
		"jsonline-lines-mixed": func() (string, string) {
			var b strings.Builder
			for i := 0; i < entries; i++ {
				if i%2 == 0 {
					fmt.Fprintf(&b, `{"host":"h.example","method":"GET","uri":"/j%d","tag":"tag%d"}`+"\n", i, i)
				} else {
					fmt.Fprintf(&b, `{"host":"h.example","method":"GET","uri":"/j%d"}`+"\n", i)
				}
			}
			return "http/json", b.String()
		},
		"jsonline-array-mixed": func() (string, string) {
			var xs []string
			for i := 0; i < entries; i++ {
				if i%2 == 0 {
					xs = append(xs, fmt.Sprintf(`{"host":"h.example","method":"GET","uri":"/a%d","tag":"tag%d"}`, i, i))
				} else {
					xs = append(xs, fmt.Sprintf(`{"host":"h.example","method":"GET","uri":"/a%d"}`, i))
				}
			}
			return "http/json", "[" + strings.Join(xs, ",\n") + "]\n"
		},
		"uripost-mixed": func() (string, string) {
			var b strings.Builder
			for i := 0; i < entries; i++ {
				if i%2 == 0 {
					fmt.Fprintf(&b, "5 /p%d tag%d\nhello\n", i, i)
				} else {
					fmt.Fprintf(&b, "5 /p%d\nhello\n", i)
				}
			}
			return "uripost", b.String()
		},
	}
	for k, v := range mixed {
		files[k] = v
	}
	for _, name := range []string{"uri", "uripost", "raw", "jsonline-lines", "jsonline-array", "uri-mixed", "uripost-mixed", "jsonline-lines-mixed", "jsonline-array-mixed"} {
		for _, preload := range []bool{false, true} {
			for _, instances := range []int{1, 3} {
				typ, text := files[name]()
				path := vkit.WriteMem([]byte(text))
				ammo := map[string]any{"type": typ, "file": path, "passes": passes}
				if preload {
					ammo["preload"] = true
				}
				c := map[string]any{"format": name, "preload": preload, "passes": passes, "instances": instances}
				key := "C10/tags-by-format/" + name
				samples, rr, err := runPool(pool(ammo, map[string]any{"type": "http", "target": tgt.Addr}, instances), 60*time.Second)
				vkit.RemoveMem(path)
				if err != nil || rr.Err != nil || rr.Hang {
					res.Violate(key+"/run", fmt.Sprintf("pool failed: %v %v", err, rr.Err), c)
					continue
				}
				got := map[string]int{}
				for _, s := range samples {
					got[s.Tags]++
				}
				want := map[string]int{}
				for i := 0; i < entries; i++ {
					if strings.HasSuffix(name, "-mixed") && i%2 == 1 {
						want["__EMPTY__"] += passes
						continue
					}
					want[fmt.Sprintf("tag%d", i)] = passes
				}
				if fmt.Sprint(got) != fmt.Sprint(want) {
					res.Violate(key+"/tag", fmt.Sprintf("%d tagged entries read %d times: samples per tag %v, want %v", entries, passes, got, want), c)
				}
				res.Count("tag_samples", int64(len(samples)))
				res.Eval(vkit.JSON(c), true)
			}
		}
	}
}

// ---------- (4b) gRPC tags when ammo objects are recycled ----------

// grpcTagsRecycled: a grpc/json file in which some lines carry a tag and some do not, read 100
// times by one instance — the provider recycles its ammo objects once its 128-entry queue has
// been through. Sample k must carry the tag of line k mod 7 (none, or __EMPTY__, where the line has none).
func grpcTagsRecycled(res *vkit.Result) {
	tgt, err := vkit.NewGRPCTarget()
	if err != nil {
		res.Inconclusive(true, "grpc target: %v", err)
		return
	}
	defer tgt.Close()
	tags := []string{"hello", "", "auth", "x", "", "", "last"}
	var b strings.Builder
	for i, t := range tags {
		if t == "" {
			fmt.Fprintf(&b, `{"call":"target.TargetService.Hello","payload":{"name":"n%d"}}`+"\n", i)
		} else {
			fmt.Fprintf(&b, `{"tag":"%s","call":"target.TargetService.Hello","payload":{"name":"n%d"},"metadata":{"k%d":"v"}}`+"\n", t, i, i)
		}
	}
	path := vkit.WriteMem([]byte(b.String()))
	defer vkit.RemoveMem(path)
	const passes = 100
	samples, rr, err := runPool(pool(map[string]any{"type": "grpc/json", "file": path, "passes": passes},
		map[string]any{"type": "grpc", "target": tgt.Addr, "timeout": "3s"}, 1), 120*time.Second)
	c := map[string]any{"check": "grpc tags with recycled ammo", "lines": tags, "passes": passes}
	if err != nil || rr.Err != nil || rr.Hang {
		res.Violate("C10/grpc-tags/run", fmt.Sprintf("pool failed: %v %v", err, rr.Err), c)
		return
	}
	if len(samples) != passes*len(tags) {
		res.Violate("C10/grpc-tags/sample-count", fmt.Sprintf("%d calls, %d samples", passes*len(tags), len(samples)), c)
		return
	}
	wrong, first := 0, ""
	for k, s := range samples {
		want := tags[k%len(tags)]
		// an untagged line: the plain gRPC gun reports the empty tag as it is (only the HTTP and the
		// scenario guns substitute __EMPTY__); either is the line's own tag
		if s.Tags != want && !(want == "" && s.Tags == "__EMPTY__") {
			wrong++
			if first == "" {
				first = fmt.Sprintf("sample %d (line %d) tagged %q, want %q", k, k%len(tags), s.Tags, want)
			}
		}
	}
	if wrong > 0 {
		res.Violate("C10/grpc-tags/tag", fmt.Sprintf("%d of %d samples carry another line's tag, e.g. %s", wrong, len(samples), first), c)
	}
	res.Count("grpc_tag_samples", int64(len(samples)))
	res.Eval("grpc-tags-recycled", true)
}

// ---------- (4c) one sample per executed gRPC scenario step, also when a step fails before the call ----------

// grpcScenarioStepSamples: step "auth" is answered with an error status (the scenario goes on:
// a status is a result), step "list" has a preprocessor reading auth's response, which is not
// there — the step is started and fails before anything is sent. Both steps are executed
// steps: one sample each (auth with the mapped status, list as failed), per shot.
func grpcScenarioStepSamples(res *vkit.Result) {
	tgt, err := vkit.NewGRPCTarget()
	if err != nil {
		res.Inconclusive(true, "grpc target: %v", err)
		return
	}
	defer tgt.Close()
	tgt.Status = func(rec *vkit.CallRec) (codes.Code, string) {
		if a, ok := rec.Req.(*server.AuthRequest); ok && a.Login == "rejected" {
			return codes.InvalidArgument, "scripted"
		}
		return codes.OK, ""
	}
	yaml := `variable_sources:
  - type: "variables"
    name: "v"
    variables: {"word": "abc"}
calls:
  - name: "auth"
    tag: "auth"
    call: "target.TargetService.Auth"
    payload: '{"login": "rejected", "pass": "x"}'
  - name: "list"
    tag: "list"
    call: "target.TargetService.List"
    preprocessors:
      - type: "prepare"
        mapping: {"tok": "request.auth.postprocessor.token"}
    payload: '{"token": "{{.request.list.preprocessor.tok}}"}'
  - name: "tmpl"
    tag: "tmpl"
    call: "target.TargetService.Hello"
    payload: '{"name": "p-{{index .source.v.word 9}}"}'
scenarios:
  - name: "shop"
    weight: 1
    min_waiting_time: 0
    requests: ["auth", "list"]
  - name: "tpl"
    weight: 1
    min_waiting_time: 0
    requests: ["tmpl"]
`
	base := vkit.WriteMem(nil)
	vkit.RemoveMem(base)
	sp := base + ".yaml"
	_ = vkit.WriteMemAt(sp, []byte(yaml))
	defer vkit.RemoveMem(sp)
	const shots = 8
	samples, rr, err := runPool(pool(map[string]any{"type": "grpc/scenario", "file": sp, "limit": shots},
		map[string]any{"type": "grpc/scenario", "target": tgt.Addr}, 2), 60*time.Second)
	c := map[string]any{"gun": "grpc/scenario", "scenarios": "shop: auth (answered InvalidArgument) → list (preprocessor reads auth's response); tpl: a payload template that fails while rendered", "shots": shots}
	if err != nil || rr.Err != nil || rr.Hang {
		res.Violate("C10/grpc-scenario-steps/run", fmt.Sprintf("pool failed: %v %v", err, rr.Err), c)
		return
	}
	got := map[string]int{}
	for _, s := range samples {
		got[fmt.Sprintf("%s=%d", strings.Split(s.Tags, "|")[0], s.Proto)]++
	}
	want := map[string]int{"shop.auth=400": shots / 2, "shop.list=0": shots / 2, "tpl.tmpl=0": shots / 2}
	if fmt.Sprint(got) != fmt.Sprint(want) {
		res.Violate("C10/grpc-scenario-steps/samples", fmt.Sprintf("samples per step and code %v, want one per executed step: %v", got, want), c)
	}
	res.Count("grpc_scenario_step_samples", int64(len(samples)))
	res.Eval("grpc-scenario-steps", true)
}

// ---------- (4) gRPC codes ----------

var grpcTable = map[codes.Code]int{codes.OK: 200, codes.Canceled: 499, codes.InvalidArgument: 400, codes.DeadlineExceeded: 504, codes.NotFound: 404,
	codes.AlreadyExists: 409, codes.PermissionDenied: 403, codes.ResourceExhausted: 429, codes.FailedPrecondition: 400, codes.Aborted: 409,
	codes.OutOfRange: 400, codes.Unimplemented: 501, codes.Unavailable: 503, codes.Unauthenticated: 401}

func grpcCodes(res *vkit.Result) {
	tgt, err := vkit.NewGRPCTarget()
	if err != nil {
		res.Inconclusive(true, "grpc target: %v", err)
		return
	}
	defer tgt.Close()
	tgt.Status = func(rec *vkit.CallRec) (codes.Code, string) {
		name := ""
		switch r := rec.Req.(type) {
		case *server.HelloRequest:
			name = r.Name
		case *server.AuthRequest:
			name = r.Login
		}
		n, _ := strconv.Atoi(strings.TrimPrefix(name, "code-"))
		return codes.Code(n), "scripted"
	}
	all := []int{0, 1, 2, 3, 4, 5, 6, 7, 8, 9, 10, 11, 12, 13, 14, 15, 16, 17, 99}
	var b strings.Builder
	for _, n := range all {
		fmt.Fprintf(&b, `{"tag":"code-%d","call":"target.TargetService.Hello","payload":{"name":"code-%d"}}`+"\n", n, n)
	}
	path := vkit.WriteMem([]byte(b.String()))
	defer vkit.RemoveMem(path)
	// plain gun
	tgt.ResetCalls()
	samples, rr, err := runPool(pool(map[string]any{"type": "grpc/json", "file": path, "passes": 1},
		map[string]any{"type": "grpc", "target": tgt.Addr, "timeout": "3s"}, 2), 60*time.Second)
	c := map[string]any{"gun": "grpc"}
	if err != nil || rr.Err != nil || rr.Hang {
		res.Violate("C10/grpc-status/run", fmt.Sprintf("pool failed: %v %v", err, rr.Err), c)
		return
	}
	if len(samples) != len(all) {
		res.Violate("C10/grpc-status/sample-count", fmt.Sprintf("%d calls, %d samples", len(all), len(samples)), c)
	}
	for _, s := range samples {
		n, _ := strconv.Atoi(strings.TrimPrefix(s.Tags, "code-"))
		want, ok := grpcTable[codes.Code(n)]
		if !ok {
			want = 500
		}
		if s.Proto != want {
			res.Violate("C10/grpc-status/proto", fmt.Sprintf("gRPC status %d (%s) reported as %d, documented mapping says %d", n, codes.Code(n), s.Proto, want), c)
		}
		res.Count("grpc_status_samples", 1)
	}
	// one sample per fired request: whatever status the target answers with, it must have
	// received that call exactly once (a call re-sent behind the gun's back would be a request
	// without a sample)
	hits := map[string]int{}
	for _, call := range tgt.Calls() {
		if r, ok := call.Req.(*server.HelloRequest); ok {
			hits[r.Name]++
		}
	}
	for _, n := range all {
		if h := hits[fmt.Sprintf("code-%d", n)]; h != 1 {
			res.Violate("C10/grpc-status/requests-per-sample", fmt.Sprintf("the call answered with gRPC status %d (%s) was fired once and gave one sample, the target received it %d times", n, codes.Code(n), h), c)
		}
	}
	res.Eval("grpc-codes", true)
	res.Sample(map[string]any{"check": "every gRPC status 0…16, 17, 99", "samples": len(samples)})

	// scenario gun: codes and tags scenario.call-tag
	yaml := `calls:
  - name: "c1"
    tag: "tagone"
    call: "target.TargetService.Hello"
    payload: '{"name": "code-0"}'
  - name: "c2"
    tag: "tagtwo"
    call: "target.TargetService.Auth"
    payload: '{"login": "code-5"}'
scenarios:
  - name: "scn"
    weight: 1
    min_waiting_time: 0
    requests: ["c1(2)", "c2"]
`
	base := vkit.WriteMem(nil)
	vkit.RemoveMem(base)
	sp := base + ".yaml"
	_ = vkit.WriteMemAt(sp, []byte(yaml))
	defer vkit.RemoveMem(sp)
	samples, rr, err = runPool(pool(map[string]any{"type": "grpc/scenario", "file": sp, "limit": 5},
		map[string]any{"type": "grpc/scenario", "target": tgt.Addr}, 2), 60*time.Second)
	c = map[string]any{"gun": "grpc/scenario"}
	if err != nil || rr.Err != nil || rr.Hang {
		res.Violate("C10/grpc-scenario/run", fmt.Sprintf("pool failed: %v %v", err, rr.Err), c)
		return
	}
	cnt := map[string]int{}
	for _, s := range samples {
		first := strings.Split(s.Tags, "|")[0]
		cnt[first]++
		want := map[string]int{"scn.tagone": 200, "scn.tagtwo": 404}[first]
		if want == 0 {
			res.Violate("C10/grpc-scenario/tag", fmt.Sprintf("sample tagged %q, want scenario.call-tag (scn.tagone / scn.tagtwo)", s.Tags), c)
		} else if s.Proto != want {
			res.Violate("C10/grpc-scenario/proto", fmt.Sprintf("step %s reported proto %d want %d", first, s.Proto, want), c)
		}
	}
	if cnt["scn.tagone"] != 10 || cnt["scn.tagtwo"] != 5 {
		res.Violate("C10/grpc-scenario/sample-count", fmt.Sprintf("5 shots of [c1(2), c2]: samples per step %v, want tagone 10 tagtwo 5", cnt), c)
	}
	res.Eval("grpc-scenario", true)
	res.Count("grpc_scenario_samples", int64(len(samples)))

	// scenario gun, calls that are made and answered but whose assertion then fails: the sample
	// still carries the documented code of the status received and the call's tag
	for _, k := range []struct {
		code, want int
		assert    string
	}{{0, 200, `payload: ["never in the answer"]`}, {3, 400, `status_code: 200`}, {5, 404, `status_code: 200`}, {14, 503, `payload: ["x"]`}} {
		y := fmt.Sprintf(`calls:
  - name: "c"
    tag: "t"
    call: "target.TargetService.Hello"
    payload: '{"name": "code-%d"}'
    postprocessors:
      - type: "assert/response"
        %s
scenarios:
  - name: "scn"
    weight: 1
    min_waiting_time: 0
    requests: ["c"]
`, k.code, k.assert)
		_ = vkit.WriteMemAt(sp, []byte(y))
		tgt.ResetCalls()
		samples, rr, err = runPool(pool(map[string]any{"type": "grpc/scenario", "file": sp, "limit": 3},
			map[string]any{"type": "grpc/scenario", "target": tgt.Addr}, 1), 60*time.Second)
		c = map[string]any{"gun": "grpc/scenario", "status": k.code, "assertion_that_fails": k.assert}
		if err != nil || rr.Err != nil || rr.Hang {
			res.Violate("C10/grpc-scenario/run", fmt.Sprintf("pool failed: %v %v", err, rr.Err), c)
			return
		}
		if got := len(tgt.Calls()); len(samples) != 3 || got != 3 {
			res.Violate("C10/grpc-scenario/failed-assertion/sample-count", fmt.Sprintf("3 shots of one call: %d samples, the target received %d calls", len(samples), got), c)
		}
		for _, sm := range samples {
			if first := strings.Split(sm.Tags, "|")[0]; first != "scn.t" || sm.Proto != k.want {
				res.Violate("C10/grpc-scenario/failed-assertion/coding", fmt.Sprintf("the call was answered with gRPC status %d (documented code %d) and its assertion failed afterwards: the sample has tag %q and proto code %d", k.code, k.want, sm.Tags, sm.Proto), c)
				break
			}
		}
		res.Count("grpc_scenario_samples", int64(len(samples)))
	}
	res.Eval("grpc-scenario-failed-assertion", true)

	// scenario gun, one call answered with Unavailable / ResourceExhausted / Aborted: requests at the target = samples
	for _, code := range []int{14, 8, 10, 4} {
		y := fmt.Sprintf(`calls:
  - name: "c"
    tag: "t"
    call: "target.TargetService.Hello"
    payload: '{"name": "code-%d"}'
scenarios:
  - name: "scn"
    weight: 1
    min_waiting_time: 0
    requests: ["c"]
`, code)
		_ = vkit.WriteMemAt(sp, []byte(y))
		tgt.ResetCalls()
		samples, rr, err = runPool(pool(map[string]any{"type": "grpc/scenario", "file": sp, "limit": 4},
			map[string]any{"type": "grpc/scenario", "target": tgt.Addr}, 2), 60*time.Second)
		c = map[string]any{"gun": "grpc/scenario", "status": code}
		if err != nil || rr.Err != nil || rr.Hang {
			res.Violate("C10/grpc-scenario/run", fmt.Sprintf("pool failed: %v %v", err, rr.Err), c)
			return
		}
		if got := len(tgt.Calls()); len(samples) != 4 || got != 4 {
			res.Violate("C10/grpc-scenario/requests-per-sample", fmt.Sprintf("4 shots of one call answered with gRPC status %d: %d samples, the target received %d calls", code, len(samples), got), c)
		}
		res.Count("grpc_scenario_samples", int64(len(samples)))
	}
}

// ---------- (5) HTTP scenario ----------

func httpScenario(res *vkit.Result) {
	tgt, err := vkit.NewHTTPTarget(false)
	if err != nil {
		res.Inconclusive(true, "target: %v", err)
		return
	}
	defer tgt.Close()
	tgt.Respond = func(rec *vkit.ReqRec, w http.ResponseWriter, r *http.Request) {
		if strings.HasPrefix(r.URL.Path, "/second") {
			w.WriteHeader(418)
		}
		_, _ = w.Write([]byte("ok"))
	}
	yaml := `requests:
  - name: "first"
    method: "GET"
    uri: "/first"
    headers: {}
    tag: "ignored-tag"
  - name: "second"
    method: "GET"
    uri: "/second"
    headers: {}
scenarios:
  - name: "scn"
    weight: 1
    min_waiting_time: 0
    requests: ["first", "second(2)"]
`
	base := vkit.WriteMem(nil)
	vkit.RemoveMem(base)
	sp := base + ".yaml"
	_ = vkit.WriteMemAt(sp, []byte(yaml))
	defer vkit.RemoveMem(sp)
	samples, rr, err := runPool(pool(map[string]any{"type": "http/scenario", "file": sp, "limit": 6},
		map[string]any{"type": "http/scenario", "target": tgt.Addr}, 3), 60*time.Second)
	c := map[string]any{"gun": "http/scenario"}
	if err != nil || rr.Err != nil || rr.Hang {
		res.Violate("C10/http-scenario/run", fmt.Sprintf("pool failed: %v %v", err, rr.Err), c)
		return
	}
	cnt := map[string]int{}
	for _, s := range samples {
		first := strings.Split(s.Tags, "|")[0]
		cnt[first]++
		want := map[string]int{"scn.first": 200, "scn.second": 418}[first]
		if want == 0 {
			res.Violate("C10/http-scenario/tag", fmt.Sprintf("sample tagged %q, want scenario.step-name", s.Tags), c)
		} else if s.Proto != want || s.Net != 0 {
			res.Violate("C10/http-scenario/proto", fmt.Sprintf("step %s reported proto %d net %d, want %d / 0", first, s.Proto, s.Net, want), c)
		}
	}
	if cnt["scn.first"] != 6 || cnt["scn.second"] != 12 {
		res.Violate("C10/http-scenario/sample-count", fmt.Sprintf("6 shots of [first, second(2)]: samples per step %v", cnt), c)
	}
	res.Eval("http-scenario", true)
	res.Count("http_scenario_samples", int64(len(samples)))

	// a step that fails in its postprocessor (assertion on the status) is one sample too, reported as failed
	yaml2 := strings.Replace(yaml, `    uri: "/second"
    headers: {}
`, `    uri: "/second"
    headers: {}
    postprocessors:
      - type: "assert/response"
        status_code: 200
`, 1)
	sp2 := base + "-assert.yaml"
	_ = vkit.WriteMemAt(sp2, []byte(yaml2))
	defer vkit.RemoveMem(sp2)
	samples, rr, err = runPool(pool(map[string]any{"type": "http/scenario", "file": sp2, "limit": 6},
		map[string]any{"type": "http/scenario", "target": tgt.Addr}, 3), 60*time.Second)
	if err != nil || rr.Err != nil || rr.Hang {
		res.Violate("C10/http-scenario/run", fmt.Sprintf("pool failed: %v %v", err, rr.Err), c)
		return
	}
	cnt = map[string]int{}
	okSecond := 0
	for _, s := range samples {
		first := strings.Split(s.Tags, "|")[0]
		cnt[first]++
		if first == "scn.second" && s.Net == 0 && s.Proto != 0 {
			okSecond++
		}
	}
	if cnt["scn.first"] != 6 || cnt["scn.second"] != 6 || okSecond != 0 {
		res.Violate("C10/http-scenario/failed-step-sample-count", fmt.Sprintf("6 shots of [first, second(2)] where the first execution of second fails its assertion: samples per step %v (want first 6, second 6), %d of second reported as successful (want 0)", cnt, okSecond), c)
	}
	res.Eval("http-scenario-failing-step", true)
	res.Count("http_scenario_samples", int64(len(samples)))
}

// httpScenarioCancelledInPause: four shots exist (limit 4) and four instances take one each; every
// shot's first step is followed by a pause of two seconds. Once the target has received — and
// answered — all four first steps, the run is cancelled. Whatever the guns do with the rest of
// the shot, the first step was executed four times and answered four times: exactly four
// samples may carry its name (counted, not timed).
func httpScenarioCancelledInPause(res *vkit.Result, list string) {
	tgt, err := vkit.NewHTTPTarget(false)
	if err != nil {
		res.Inconclusive(true, "target: %v", err)
		return
	}
	defer tgt.Close()
	ctx, cancel := context.WithCancel(context.Background())
	defer cancel()
	var firsts atomic.Int64
	tgt.Respond = func(rec *vkit.ReqRec, w http.ResponseWriter, r *http.Request) {
		_, _ = w.Write([]byte("ok"))
		if strings.HasPrefix(r.URL.Path, "/first") && firsts.Add(1) == 4 {
			time.AfterFunc(100*time.Millisecond, cancel)
		}
	}
	yaml := `requests:
  - name: "first"
    method: "GET"
    uri: "/first"
    headers: {}
  - name: "second"
    method: "GET"
    uri: "/second"
    headers: {}
scenarios:
  - name: "scn"
    weight: 1
    min_waiting_time: 0
    requests: ` + list + "\n"
	base := vkit.WriteMem(nil)
	vkit.RemoveMem(base)
	sp := base + "-pause.yaml"
	_ = vkit.WriteMemAt(sp, []byte(yaml))
	defer vkit.RemoveMem(sp)
	c := map[string]any{"gun": "http/scenario", "requests": list, "shots": 4, "instances": 4, "cancelled": "100 ms after the fourth first step was answered"}
	ec, err := vkit.DecodePools(map[string]any{"pools": []any{pool(map[string]any{"type": "http/scenario", "file": sp, "limit": 4},
		map[string]any{"type": "http/scenario", "target": tgt.Addr}, 4)}})
	if err != nil {
		res.Violate("C10/http-scenario/run", fmt.Sprintf("pool rejected: %v", err), c)
		return
	}
	aggr := &vkit.MockAggregator{}
	ec.Pools[0].Aggregator = aggr
	eng := engine.New(vkit.NopLog(), vkit.NewMetrics(), ec)
	done := make(chan error, 1)
	go func() { done <- eng.Run(ctx) }()
	select {
	case <-done:
	case <-time.After(60 * time.Second):
		res.Inconclusive(false, "cancelled scenario run did not end within 60 s")
		return
	}
	eng.Wait()
	n := 0
	var tagsSeen []string
	for _, sm := range aggr.Snapshot() {
		if strings.Split(sm.Tags, "|")[0] == "scn.first" {
			n++
			tagsSeen = append(tagsSeen, fmt.Sprintf("%s proto=%d net=%d", sm.Tags, sm.Proto, sm.Net))
		}
	}
	if got := firsts.Load(); got != 4 {
		res.Inconclusive(false, "the target received %d first steps instead of 4", got)
		return
	}
	if n != 4 {
		res.Violate("C10/http-scenario/cancelled-in-pause/sample-count", fmt.Sprintf("the first step was executed 4 times (4 shots exist, the target received and answered 4), but %d samples carry its name: %v", n, tagsSeen), c)
	}
	res.Eval("http-scenario-cancelled-in-pause "+list, true)
	res.Count("http_scenario_samples", int64(n))
}

// ---------- (6) ids under concurrent Acquire ----------

// idStress: 32 goroutines acquire HTTP ammo from one provider at the same time (what N instances
// do); every sample id attached to the ammo must be distinct.
func idStress(res *vkit.Result, format string, preload bool, total int) {
	var b strings.Builder
	for i := 0; i < 50; i++ {
		switch format {
		case "uri":
			fmt.Fprintf(&b, "/i%d t\n", i)
		case "http/json":
			fmt.Fprintf(&b, `{"host":"h","method":"GET","uri":"/i%d","tag":"t"}`+"\n", i)
		}
	}
	path := vkit.WriteMem([]byte(b.String()))
	defer vkit.RemoveMem(path)
	conf := map[string]any{"type": format, "file": path, "limit": total}
	if preload {
		conf["preload"] = true
	}
	p, err := vkit.NewProvider(conf)
	c := map[string]any{"check": "ids under concurrent Acquire", "format": format, "preload": preload, "ammo": total}
	if err != nil {
		res.Violate("C10/ids/provider", fmt.Sprintf("provider rejected: %v", err), c)
		return
	}
	ctx, cancel := context.WithCancel(context.Background())
	defer cancel()
	done := make(chan error, 1)
	go func() { done <- p.Run(ctx, core.ProviderDeps{Log: vkit.NopLog()}) }()
	const workers = 32
	ids := make([][]uint64, workers)
	var wg sync.WaitGroup
	start := make(chan struct{})
	for w := 0; w < workers; w++ {
		wg.Add(1)
		go func(w int) {
			defer wg.Done()
			<-start
			for {
				a, ok := p.Acquire()
				if !ok {
					return
				}
				if ha, ok := a.(interface{ ID() uint64 }); ok {
					ids[w] = append(ids[w], ha.ID())
				}
				p.Release(a)
			}
		}(w)
	}
	close(start)
	wg.Wait()
	cancel()
	<-done
	seen := map[uint64]int{}
	n := 0
	for _, l := range ids {
		for _, id := range l {
			seen[id]++
			n++
		}
	}
	if n != total {
		res.Violate("C10/ids/count", fmt.Sprintf("%d ammo acquired, limit %d", n, total), c)
	}
	dups := 0
	var example uint64
	for id, k := range seen {
		if k > 1 {
			dups++
			example = id
		}
	}
	if dups > 0 {
		res.Violate("C10/ids/duplicate", fmt.Sprintf("%d of %d sample ids were handed out more than once under 32 concurrent consumers (e.g. id %d × %d; %d distinct ids)", dups, n, example, seen[example], len(seen)), c)
	}
	res.Count("ids_checked_under_concurrency", int64(n))
	res.Eval(vkit.JSON(c), true)
}

// ---------- (7) recycled samples ----------

// recycledSamples: the real phout aggregator hands written samples back to a pool from which the
// guns take their next ones. A target that answers 200 for a while and then drops every
// connection without a response: the lines of the dropped requests must carry net ≠ 0 and
// protocol code 0, not a status left over from an earlier exchange.
func recycledSamples(res *vkit.Result, instances, good, total int) {
	c := map[string]any{"check": "recycled samples", "instances": instances, "answered": good, "requests": total}
	var served atomic.Int64
	rt, err := vkit.NewRawTarget(func(conn net.Conn, _ int64) {
		br := bufio.NewReader(conn)
		for {
			_ = conn.SetReadDeadline(time.Now().Add(5 * time.Second))
			req, err := http.ReadRequest(br)
			if err != nil {
				return
			}
			_, _ = io.Copy(io.Discard, req.Body)
			if served.Add(1) > int64(good) {
				return // connection dropped without a response
			}
			_, _ = conn.Write([]byte("HTTP/1.1 200 OK\r\nContent-Length: 2\r\n\r\nok"))
		}
	})
	if err != nil {
		res.Inconclusive(true, "raw target: %v", err)
		return
	}
	defer rt.Close()
	ammo := vkit.WriteMem([]byte("/a t1\n/b t2\n/c t3\n/d t4\n/e t5\n"))
	defer vkit.RemoveMem(ammo)
	out := vkit.WriteMem(nil)
	defer vkit.RemoveMem(out)
	ec, err := vkit.DecodePools(map[string]any{"pools": []any{map[string]any{"id": "p",
		"ammo":   map[string]any{"type": "uri", "file": ammo, "limit": total},
		"result": map[string]any{"type": "phout", "destination": out, "id": true, "flush-time": "20ms"},
		"gun":    map[string]any{"type": "http", "target": rt.Addr, "dial": map[string]any{"timeout": "2s"}},
		"rps":    map[string]any{"type": "const", "ops": 1500, "duration": "60s"}, "startup": map[string]any{"type": "once", "times": instances}}}})
	if err != nil {
		res.Inconclusive(true, "pool rejected: %v", err)
		return
	}
	rr := vkit.RunEngine(ec, nil, 120*time.Second)
	if rr.Err != nil || rr.Hang || rr.WaitHang {
		res.Violate("C10/recycled/run", fmt.Sprintf("run with a target that stops answering: err=%v hang=%v", rr.Err, rr.Hang || rr.WaitHang), c)
		return
	}
	data, _ := afero.ReadFile(vkit.Fs(), out)
	lines := strings.Split(strings.TrimSuffix(string(data), "\n"), "\n")
	failed, stale, okWrong := 0, 0, 0
	example := ""
	for _, l := range lines {
		cols := strings.Split(l, "\t")
		if len(cols) != 12 {
			res.Violate("C10/recycled/line", fmt.Sprintf("not a phout line: %q", l), c)
			return
		}
		netc, _ := strconv.Atoi(cols[10])
		proto, _ := strconv.Atoi(cols[11])
		switch {
		case netc != 0:
			failed++
			if proto != 0 {
				stale++
				example = l
			}
		case proto != 200:
			okWrong++
			example = l
		}
	}
	if len(lines) != total {
		res.Violate("C10/recycled/count", fmt.Sprintf("%d requests, %d lines", total, len(lines)), c)
	}
	if stale > 0 || okWrong > 0 {
		res.Violate("C10/recycled/stale-code", fmt.Sprintf("%d of %d failed exchanges were written with a protocol code other than 0, %d answered ones with another code than 200; e.g. %q", stale, failed, okWrong, example), c)
	}
	res.Count("recycled_lines", int64(len(lines)))
	res.Count("recycled_failed_lines", int64(failed))
	res.Eval(vkit.JSON(c), failed > 0 && failed < len(lines))
}

func main() {
	vkit.Fs()
	res := vkit.NewResult("exhaustive tables: every HTTP status 200…599 through the http (and connect, http over TLS) guns with 1–8 instances; failure kinds (refused, reset, close before response, response-header timeout, short body, garbage status line); tag/auto-tag settings × URI path shapes; every gRPC status 0…16 plus 17 and 99 against the documented mapping; scenario guns (HTTP: scenario.step-name, gRPC: scenario.call-tag) with multiplicities; distinct = distinct sub-checks; all non-trivial")
	httpStatuses(res, "http", false, 8)
	httpStatuses(res, "connect", false, 3)
	httpStatuses(res, "http", true, 4)
	if vkit.Thorough() {
		httpStatuses(res, "http", false, 1)
		httpStatuses(res, "http", false, 16)
	}
	failureKinds(res)
	tags(res)
	tagsFormats(res)
	grpcCodes(res)
	grpcTagsRecycled(res)
	grpcScenarioStepSamples(res)
	httpScenario(res)
	httpScenarioCancelledInPause(res, `["first(1, 2000)", "second"]`)
	httpScenarioCancelledInPause(res, `["first", "sleep(2000)", "second"]`)
	recycledSamples(res, 4, 150, 400)
	recycledSamples(res, 1, 60, 120)
	for rep := 0; rep < vkit.N(3, 30); rep++ {
		idStress(res, "uri", rep%2 == 1, 60000)
		idStress(res, "http/json", rep%2 == 0, 60000)
	}
	res.Set("exhaustive", true)
	if res.Counter("http_status_samples") < 1200 || res.Counter("grpc_status_samples") < 19 || res.Counter("tag_samples") < 50 {
		res.Inconclusive(true, "too few samples judged")
	}
	res.Write()
}
