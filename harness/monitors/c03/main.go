// C03 — Engine shot accounting: fired + discarded = min(tokens, ammo); every ammo item
// released exactly once and never used after release; bounded unfired items; counters.
//
// Real engine + real schedules, mock provider/gun/aggregator with per-item state machines,
// 1..16 instances, shared and per-instance profiles, run under the race detector.
package main

import (
	"context"
	"fmt"
	"math/rand"
	"os"
	"runtime"
	"strings"
	"sync"
	"sync/atomic"
	"time"

	"github.com/yandex/pandora/core"
	"github.com/yandex/pandora/core/coreutil"
	"github.com/yandex/pandora/core/engine"
	"github.com/yandex/pandora/core/schedule"

	pkgerrors "github.com/pkg/errors"

	"verif/harness/vkit"
)

type SchedSpec struct {
	Kind  string      `json:"kind"`
	A     float64     `json:"a,omitempty"`
	B     float64     `json:"b,omitempty"`
	N     int64       `json:"n,omitempty"`
	DurMs int         `json:"dur_ms,omitempty"`
	Parts []SchedSpec `json:"parts,omitempty"`
}

func (s SchedSpec) Build() core.Schedule {
	d := time.Duration(s.DurMs) * time.Millisecond
	switch s.Kind {
	case "once":
		return schedule.NewOnce(s.N)
	case "const":
		return schedule.NewConst(s.A, d)
	case "line":
		return schedule.NewLine(s.A, s.B, d)
	case "step":
		return schedule.NewStep(s.A, s.B, s.N, d)
	case "composite":
		var ps []core.Schedule
		for _, p := range s.Parts {
			ps = append(ps, p.Build())
		}
		return schedule.NewComposite(ps...)
	}
	panic("kind")
}

type Pool struct {
	Instances    int       `json:"instances"`
	StartupConst bool      `json:"startup_const"`
	PerInstance  bool      `json:"rps_per_instance"`
	RPS          SchedSpec `json:"rps"`
	Ammo         int       `json:"ammo"`
	AmmoClass    string    `json:"ammo_class"`
	Discard      bool      `json:"discard_overflow"`
	ShotMaxUs    int       `json:"shot_max_us"`
	PreStartMs   int       `json:"prestart_ms"` // >0: shared profile started this long in the past (forces overdue tokens)
	// Ramp: the startup profile is Instances at once and then 5 more per second for 3 s, so that it
	// is still releasing instances when the (small) ammo supply runs out under a paced profile
	Ramp bool `json:"startup_ramp,omitempty"`
	// Queued: the provider queues its whole supply at once and its Run returns before anything was
	// taken; LateStartup: the startup profile begins with a pause (0 instances for 40 ms), so
	// the provider is through before the first instance exists
	Queued      bool `json:"provider_queues_everything_at_once,omitempty"`
	LateStartup bool `json:"startup_begins_with_a_pause,omitempty"`
	// FromConfig: the rps section is written as config (a list of mappings) and the schedule
	// factory is the one the config decoder builds, as in a real run
	FromConfig bool `json:"rps_from_config,omitempty"`
	// GunTimeout: the creation of the only instance's gun fails with a timeout of its own (an error
	// caused by context.DeadlineExceeded) while the run's context has a far deadline. The pool
	// must not end normally then; if it does, the accounting below applies to it.
	GunTimeout bool  `json:"gun_creation_times_out,omitempty"`
	// ShotPanic: one shot in the middle of the run panics. The pool must not end normally then;
	// if it does all the same, the accounting below applies to it.
	ShotPanic bool  `json:"a_shot_panics,omitempty"`
	Procs      int   `json:"gomaxprocs"`
	Seed       int64 `json:"seed"`
}

func genSched(rng *rand.Rand, depth int) SchedSpec {
	k := rng.Intn(10)
	if depth > 0 {
		k = rng.Intn(8)
	}
	switch {
	case k < 3:
		return SchedSpec{Kind: "once", N: int64(rng.Intn(60))}
	case k < 5:
		return SchedSpec{Kind: "const", A: float64(rng.Intn(2000)), DurMs: 1 + rng.Intn(200)}
	case k < 7:
		return SchedSpec{Kind: "line", A: float64(rng.Intn(1000)), B: float64(rng.Intn(2000)), DurMs: 1 + rng.Intn(200)}
	case k < 8:
		a := float64(rng.Intn(300))
		return SchedSpec{Kind: "step", A: a, B: a + float64(rng.Intn(600)), N: int64(100 + rng.Intn(300)), DurMs: 1 + rng.Intn(60)}
	default:
		n := 2 + rng.Intn(3)
		s := SchedSpec{Kind: "composite"}
		for i := 0; i < n; i++ {
			s.Parts = append(s.Parts, genSched(rng, depth+1))
		}
		return s
	}
}

func toVkit(s SchedSpec) vkit.SchedSpec {
	out := vkit.SchedSpec{Kind: s.Kind, A: s.A, B: s.B, N: s.N, DurMs: s.DurMs}
	for _, p := range s.Parts {
		out.Parts = append(out.Parts, toVkit(p))
	}
	return out
}

// expressible: every leaf can be written as config (once needs times ≥ 1)
func expressible(s SchedSpec) bool {
	for _, l := range toVkit(s).Leaves() {
		if (l.Kind == "once" && l.N < 1) || (l.Kind != "once" && l.DurMs < 1) {
			return false
		}
	}
	return true
}

func genPool(rng *rand.Rand) Pool {
	p := Pool{Instances: 1 + rng.Intn(16), StartupConst: rng.Intn(3) == 0, PerInstance: rng.Intn(2) == 0,
		RPS: genSched(rng, 0), Discard: rng.Intn(2) == 0, Seed: rng.Int63()}
	if rng.Intn(4) == 0 {
		p.Instances = 1 + rng.Intn(3)
	}
	if rng.Intn(2) == 0 {
		p.ShotMaxUs = 1 + rng.Intn(3000)
	}
	if !p.PerInstance && rng.Intn(4) == 0 {
		p.PreStartMs = 1800 + rng.Intn(600)
	}
	T := p.RPS.Build().Left()
	total := T
	if p.PerInstance {
		total = T * p.Instances
	}
	classes := []string{"0", "1", "T-1", "T", "T+1", "T+N", "10T"}
	p.AmmoClass = classes[rng.Intn(len(classes))]
	switch p.AmmoClass {
	case "0":
		p.Ammo = 0
	case "1":
		p.Ammo = 1
	case "T-1":
		p.Ammo = total - 1
	case "T":
		p.Ammo = total
	case "T+1":
		p.Ammo = total + 1
	case "T+N":
		p.Ammo = total + p.Instances
	case "10T":
		p.Ammo = 10*total + 5
	}
	if p.Ammo < 0 {
		p.Ammo = 0
	}
	if p.PreStartMs == 0 && expressible(p.RPS) && rng.Intn(3) == 0 {
		p.FromConfig = true
	}
	if rng.Intn(8) == 1 {
		p.FromConfig = false
		// a shared profile riddled with empty parts (pauses of 0 rps, once 0): many boundaries at
		// which several instances find a part drained and the next one empty at the same time
		p.Ramp, p.StartupConst, p.PreStartMs, p.PerInstance = false, false, 0, false
		p.Instances = 4 + rng.Intn(9)
		p.RPS = SchedSpec{Kind: "composite"}
		for k, n := 0, 40+rng.Intn(80); k < n; k++ {
			p.RPS.Parts = append(p.RPS.Parts, SchedSpec{Kind: "once", N: int64(1 + rng.Intn(12))})
			if rng.Intn(2) == 0 {
				p.RPS.Parts = append(p.RPS.Parts, SchedSpec{Kind: "const", A: 0, DurMs: 1})
			}
			if rng.Intn(2) == 0 {
				p.RPS.Parts = append(p.RPS.Parts, SchedSpec{Kind: "once", N: 0})
			}
		}
		p.RPS.Parts = append(p.RPS.Parts, SchedSpec{Kind: "once", N: 20})
		T := p.RPS.Build().Left()
		p.AmmoClass = []string{"T-1", "T+N", "10T"}[rng.Intn(3)]
		p.Ammo = map[string]int{"T-1": T - 1, "T+N": T + p.Instances, "10T": 10 * T}[p.AmmoClass]
		p.Procs = 16
	}
	if rng.Intn(12) == 0 {
		p.ShotPanic = true
	}
	if p.Ammo > 0 && p.Ammo <= 20000 && rng.Intn(4) == 0 {
		p.Queued = true
		p.LateStartup = rng.Intn(2) == 0
	} else if rng.Intn(10) == 0 {
		p.LateStartup = true
	}
	if rng.Intn(8) == 0 {
		// ammo runs out under a paced profile while instances are still being started
		p.Ramp, p.StartupConst, p.PreStartMs = true, false, 0
		p.Instances = 2 + rng.Intn(4)
		p.RPS = SchedSpec{Kind: "const", A: float64(20 + rng.Intn(40)), DurMs: 1500}
		if rng.Intn(2) == 0 {
			p.RPS = SchedSpec{Kind: "line", A: float64(10 + rng.Intn(20)), B: float64(40 + rng.Intn(40)), DurMs: 1500}
		}
		p.AmmoClass = "ramp"
		p.Ammo = 6 + rng.Intn(14)
	}
	return p
}

func runPool(res *vkit.Result, p Pool) {
	prov := &vkit.MockProvider{Items: p.Ammo, FailAfter: -1}
	if p.Queued {
		prov.Buffer = p.Ammo
	}
	aggr := &vkit.MockAggregator{}
	plan := vkit.NewGunPlan()
	plan.Closer = p.Seed%2 == 0
	if p.ShotMaxUs > 0 {
		seed := p.Seed
		plan.ShotDur = func(inst, shot, ammo int) time.Duration {
			h := uint64(seed) ^ uint64(inst)*0x9E3779B97F4A7C15 ^ uint64(ammo)*0xC2B2AE3D27D4EB4F
			h ^= h >> 29
			h *= 0xBF58476D1CE4E5B9
			h ^= h >> 32
			return time.Duration(h%uint64(p.ShotMaxUs)) * time.Microsecond
		}
	}
	T := p.RPS.Build().Left()
	var recMu sync.Mutex
	var recs []*vkit.RecSchedule
	var decoded func() (core.Schedule, error)
	if p.FromConfig {
		var parts []any
		for _, l := range toVkit(p.RPS).Leaves() {
			parts = append(parts, l.ConfMap())
		}
		pc, err := vkit.DecodedPool(parts, nil, p.PerInstance)
		if err != nil {
			res.Inconclusive(true, "rps config rejected: %v (%s)", err, vkit.JSON(parts))
			return
		}
		decoded = pc.NewRPSSchedule
	}
	newSched := func() (core.Schedule, error) {
		s := p.RPS.Build()
		if decoded != nil {
			var err error
			if s, err = decoded(); err != nil {
				return nil, err
			}
		}
		if p.PreStartMs > 0 {
			s.Start(time.Now().Add(-time.Duration(p.PreStartMs) * time.Millisecond))
		}
		r := &vkit.RecSchedule{Schedule: s}
		recMu.Lock()
		recs = append(recs, r)
		recMu.Unlock()
		return r, nil
	}
	var startup core.Schedule = schedule.NewOnce(int64(p.Instances))
	if p.StartupConst {
		startup = schedule.NewConst(float64(p.Instances)*20, 50*time.Millisecond)
	}
	if p.Ramp {
		startup = schedule.NewComposite(schedule.NewOnce(int64(p.Instances)), schedule.NewConst(5, 3*time.Second))
	}
	if p.LateStartup {
		startup = schedule.NewComposite(schedule.NewConst(0, 40*time.Millisecond), startup)
	}
	if p.ShotPanic {
		plan.PanicAtShot = 3
		plan.PanicVal = "verif: scripted shot panic"
	}
	if p.GunTimeout {
		plan.NewGunErrAt = 1 // call 0 is the engine's warm-up gun
		plan.NewGunErr = pkgerrors.WithMessage(context.DeadlineExceeded, "connect to target")
	}
	m := vkit.NewMetrics()
	eng := engine.New(vkit.NopLog(), m, engine.Config{Pools: []engine.InstancePoolConfig{{
		ID: "p", Provider: prov, Aggregator: aggr, NewGun: plan.NewGun, RPSPerInstance: p.PerInstance,
		NewRPSSchedule: newSched, StartupSchedule: startup, DiscardOverflow: p.Discard,
	}}})
	done := make(chan error, 1)
	runCtx, runCancel := context.WithTimeout(context.Background(), time.Hour)
	defer runCancel()
	go func() { done <- eng.Run(runCtx) }()
	var err error
	select {
	case err = <-done:
	case <-time.After(20 * time.Second):
		res.Inconclusive(false, "pool did not end within the 20s watchdog: %s", vkit.JSON(p))
		return
	}
	wdone := make(chan struct{})
	go func() { eng.Wait(); close(wdone) }()
	select {
	case <-wdone:
	case <-time.After(10 * time.Second):
		res.Inconclusive(false, "Engine.Wait did not return within 10s: %s", vkit.JSON(p))
		return
	}
	class := "shared"
	if p.PerInstance {
		class = "per-instance"
	}
	fail := func(check, format string, a ...any) {
		res.Violate("C03/"+class+"/"+check, fmt.Sprintf(format, a...), p)
	}
	if err != nil && p.GunTimeout {
		// the pool did not end normally: nothing to account for
		res.Count("pools_failed_on_gun_timeout", 1)
		res.Eval(vkit.JSON(p), true)
		return
	}
	if err != nil && p.ShotPanic {
		// the pool failed, as it must; whatever was acquired — the item in the hands of the gun that
		// panicked included — has been handed back exactly once by the time the engine is through
		if acq, rel := prov.Acquired.Load(), prov.Released.Load(); acq != rel {
			fail("release-after-panic", "a shot panicked and the pool failed: %d ammo items were acquired, %d released", acq, rel)
		}
		if prov.Misuse.Load() != 0 {
			fail("ammo-state", "ammo state machine violated: %v", prov.MisuseLog)
		}
		res.Count("pools_failed_on_shot_panic", 1)
		res.Eval(vkit.JSON(p), true)
		return
	}
	if err != nil {
		fail("run-error", "pool without injected faults ended with error: %v", err)
		return
	}
	fired := plan.ShotCount()
	discarded := aggr.Discarded.Load()
	started := m.InstanceStart.Get()
	tokens := int64(T)
	if p.PerInstance {
		tokens = started * int64(T)
	}
	want := tokens
	if int64(p.Ammo) < want {
		want = int64(p.Ammo)
	}
	if fired+discarded != want {
		fail("conservation", "fired %d + discarded %d = %d, want min(tokens %d, ammo %d) = %d (instances started %d)",
			fired, discarded, fired+discarded, tokens, p.Ammo, want, started)
	}
	acq, rel := prov.Acquired.Load(), prov.Released.Load()
	if acq != rel {
		fail("release", "acquired %d items but released %d", acq, rel)
	}
	if prov.Misuse.Load() != 0 {
		fail("ammo-state", "ammo state machine violated: %v", prov.MisuseLog)
	}
	if len(plan.Problems) > 0 {
		fail("gun-usage", "%s", strings.Join(plan.Problems, "; "))
	}
	unfired := acq - fired - discarded
	bound := int64(0)
	if !p.PerInstance {
		bound = started - 1
		if bound < 0 {
			bound = 0
		}
	}
	if unfired < 0 || unfired > bound {
		fail("unfired", "%d acquired items were neither fired nor discarded (bound %d with %d instances)", unfired, bound, started)
	}
	if m.Request.Get() != fired || m.Response.Get() != fired {
		fail("counters", "request counter %d, response counter %d, fired %d", m.Request.Get(), m.Response.Get(), fired)
	}
	if m.InstanceStart.Get() != m.InstanceFinish.Get() {
		fail("instances", "instances started %d, finished %d", m.InstanceStart.Get(), m.InstanceFinish.Get())
	}
	if !p.Discard && discarded != 0 {
		fail("discard-off", "%d discards with discard_overflow off", discarded)
	}
	drawn := 0
	for _, r := range recs {
		drawn += r.OKTokens()
	}
	if int64(drawn) > tokens {
		fail("tokens", "%d tokens drawn from schedules holding %d", drawn, tokens)
	}
	rel3 := "A<T"
	if int64(p.Ammo) == tokens {
		rel3 = "A=T"
	} else if int64(p.Ammo) > tokens {
		rel3 = "A>T"
	}
	res.Count("pools_"+class+"_"+rel3, 1)
	res.Count("fired", fired)
	res.Count("discarded", discarded)
	res.Count("unfired", unfired)
	if discarded > 0 {
		res.Count("pools_with_discards", 1)
	}
	if started >= 2 {
		res.Count("pools_with_2plus_instances", 1)
	}
	res.Eval(vkit.JSON(p), want >= 2 && started >= 1)
	if p.Seed%40 == 0 {
		res.Sample(map[string]any{"pool": p, "tokens": tokens, "fired": fired, "discarded": discarded, "acquired": acq,
			"released": rel, "unfired": unfired, "instances_started": started})
	}
}

var seeds = []Pool{
	{Instances: 4, PerInstance: true, RPS: SchedSpec{Kind: "once", N: 5}, Ammo: 100, AmmoClass: "10T", Seed: 1},
	{Instances: 4, PerInstance: false, RPS: SchedSpec{Kind: "once", N: 5}, Ammo: 100, AmmoClass: "10T", Seed: 2},
	{Instances: 8, PerInstance: false, RPS: SchedSpec{Kind: "const", A: 1000, DurMs: 50}, Ammo: 49, AmmoClass: "T-1", Seed: 3},
	{Instances: 8, PerInstance: true, RPS: SchedSpec{Kind: "const", A: 1000, DurMs: 20}, Ammo: 161, AmmoClass: "T+1", Seed: 4},
	{Instances: 3, PerInstance: false, RPS: SchedSpec{Kind: "once", N: 40}, Ammo: 40, AmmoClass: "T", Discard: true, PreStartMs: 2500, Seed: 5},
	{Instances: 3, PerInstance: false, RPS: SchedSpec{Kind: "once", N: 40}, Ammo: 40, AmmoClass: "T", Discard: false, PreStartMs: 2500, Seed: 6},
	{Instances: 1, PerInstance: true, RPS: SchedSpec{Kind: "const", A: 0, DurMs: 20}, Ammo: 3, AmmoClass: "T+N", Seed: 7},
	{Instances: 5, PerInstance: false, RPS: SchedSpec{Kind: "once", N: 0}, Ammo: 3, AmmoClass: "T+N", Seed: 8},
	{Instances: 4, PerInstance: true, RPS: SchedSpec{Kind: "composite", Parts: []SchedSpec{{Kind: "once", N: 5}}}, Ammo: 100, AmmoClass: "10T", FromConfig: true, Seed: 12},
	{Instances: 3, PerInstance: true, RPS: SchedSpec{Kind: "composite", Parts: []SchedSpec{{Kind: "once", N: 3}, {Kind: "const", A: 0, DurMs: 100}, {Kind: "once", N: 2}}}, Ammo: 100, AmmoClass: "10T", FromConfig: true, Seed: 13},
	{Instances: 1, PerInstance: false, RPS: SchedSpec{Kind: "once", N: 10}, Ammo: 100, AmmoClass: "10T", GunTimeout: true, Seed: 14},
	{Instances: 1, PerInstance: false, RPS: SchedSpec{Kind: "const", A: 100, DurMs: 100}, Ammo: 4, AmmoClass: "T-1", GunTimeout: true, Seed: 15},
	{Instances: 3, PerInstance: false, RPS: SchedSpec{Kind: "const", A: 20, DurMs: 3000}, Ammo: 12, AmmoClass: "ramp", Ramp: true, Seed: 9},
	{Instances: 3, PerInstance: true, RPS: SchedSpec{Kind: "const", A: 20, DurMs: 3000}, Ammo: 12, AmmoClass: "ramp", Ramp: true, Seed: 10},
	{Instances: 5, PerInstance: false, RPS: SchedSpec{Kind: "line", A: 10, B: 60, DurMs: 2000}, Ammo: 9, AmmoClass: "ramp", Ramp: true, ShotMaxUs: 2000, Seed: 11},
	{Instances: 3, PerInstance: true, RPS: SchedSpec{Kind: "once", N: 5}, Ammo: 100, AmmoClass: "10T", ShotPanic: true, ShotMaxUs: 500, Seed: 19},
	{Instances: 4, PerInstance: false, RPS: SchedSpec{Kind: "once", N: 40}, Ammo: 100, AmmoClass: "10T", ShotPanic: true, ShotMaxUs: 500, Seed: 20},
	{Instances: 8, PerInstance: false, RPS: SchedSpec{Kind: "const", A: 1000, DurMs: 60}, Ammo: 1000, AmmoClass: "10T", ShotPanic: true, ShotMaxUs: 300, Seed: 21},
	{Instances: 2, PerInstance: false, RPS: SchedSpec{Kind: "once", N: 5}, Ammo: 5, AmmoClass: "T", Queued: true, LateStartup: true, Seed: 16},
	{Instances: 3, PerInstance: true, RPS: SchedSpec{Kind: "const", A: 200, DurMs: 50}, Ammo: 40, AmmoClass: "T+N", Queued: true, LateStartup: true, Seed: 17},
	{Instances: 4, PerInstance: false, RPS: SchedSpec{Kind: "once", N: 30}, Ammo: 12, AmmoClass: "T-1", Queued: true, StartupConst: true, Seed: 18},
}

// sharedProfileExhaustion: what the instances of a pool do with their shared profile, without the
// rest of the pool around it, so that it can be repeated tens of thousands of times: 16 callers
// released together loop "is the profile finished? — wait for the next request — fire" on one
// fresh finite profile until it is used up, through the same Waiter the engine's instances use.
// The moment of exhaustion (several callers being refused while others still ask whether anything
// is left) is met on every round. Conservation: the requests handed out are exactly the profile's.
func sharedProfileExhaustion(res *vkit.Result, rounds int) {
	kinds := []struct {
		name string
		mk   func() core.Schedule
	}{
		{"once(40)", func() core.Schedule { return schedule.NewOnce(40) }},
		{"const(50)", func() core.Schedule { return schedule.NewConst(1e6, 50*time.Microsecond) }},
		{"step(20+40)", func() core.Schedule { return schedule.NewStep(1e6, 2e6, 1e6, 20*time.Microsecond) }},
		{"composite(once 8, const 30)", func() core.Schedule {
			return schedule.NewComposite(schedule.NewOnce(8), schedule.NewConst(1e6, 30*time.Microsecond))
		}},
	}
	const callers = 16
	for _, k := range kinds {
		c := map[string]any{"profile": k.name, "callers": callers, "rounds": rounds}
		bad := ""
		fired := int64(0)
		for r := 0; r < rounds && bad == ""; r++ {
			s := k.mk()
			tokens := int64(s.Left())
			var got atomic.Int64
			var wg sync.WaitGroup
			begin := make(chan struct{})
			ctx := context.Background()
			for g := 0; g < callers; g++ {
				wg.Add(1)
				go func() {
					defer wg.Done()
					w := coreutil.NewWaiter(s)
					<-begin
					for !w.IsFinished(ctx) {
						if !w.Wait(ctx) {
							break
						}
						got.Add(1)
					}
				}()
			}
			close(begin)
			wg.Wait()
			if n := got.Load(); n != tokens {
				bad = fmt.Sprintf("round %d: the shared profile holds %d requests, its %d callers were handed %d", r, tokens, callers, n)
			}
			if l := s.Left(); l != 0 && bad == "" {
				bad = fmt.Sprintf("round %d: every caller has been refused, yet the profile says %d requests are left", r, l)
			}
			fired += got.Load()
		}
		if bad != "" {
			res.Violate("C03/shared-profile-exhaustion/conservation", bad, c)
		}
		res.Count("exhaustion_rounds", int64(rounds))
		res.Count("exhaustion_requests", fired)
		res.Eval(vkit.JSON(c), true)
	}
}

func main() {
	res := vkit.NewResult("random mock pools: 1–16 instances, once/const startup (or a ramp still running when a small ammo supply runs out under a paced profile), shared or per-instance finite RPS profile (once/const/line/step/composite ≤ ~0.6 s), ammo ∈ {0,1,T−1,T,T+1,T+N,10T}, discard_overflow on/off, shot duration 0–3 ms, GOMAXPROCS ∈ {1,2,4,16}; shared profiles are pre-started ≈2 s in the past in a quarter of the pools so that overdue tokens (discards) occur; distinct = distinct pool descriptions; non-trivial = expected fired+discarded ≥ 2 and at least one instance started")
	rng := vkit.Rand("c03")
	n := vkit.N(300, 8000)
	var pools []Pool
	pools = append(pools, seeds...)
	for i := 0; i < n; i++ {
		pools = append(pools, genPool(rng))
	}
	procsList := []int{1, 2, 4, 16}
	per := (len(pools) + len(procsList) - 1) / len(procsList)
	for gi, procs := range procsList {
		lo, hi := gi*per, (gi+1)*per
		if hi > len(pools) {
			hi = len(pools)
		}
		if lo >= hi {
			continue
		}
		runtime.GOMAXPROCS(procs)
		workers := 8
		var wg sync.WaitGroup
		ch := make(chan Pool)
		for w := 0; w < workers; w++ {
			wg.Add(1)
			go func() {
				defer wg.Done()
				for p := range ch {
					p.Procs = procs
					runPool(res, p)
				}
			}()
		}
		for _, p := range pools[lo:hi] {
			ch <- p
		}
		close(ch)
		wg.Wait()
	}
	runtime.GOMAXPROCS(runtime.NumCPU())
	sharedProfileExhaustion(res, vkit.N(6000, 60000))
	vkit.CheckRaceLog(res, "C03")
	if res.Counter("pools_with_discards") == 0 || res.Counter("pools_with_2plus_instances") < 10 {
		res.Inconclusive(true, "no pool produced discards or too few multi-instance pools")
	}
	res.Write()
	_ = os.Stdout
}
