// C15 — Scenario execution: order, multiplicity, variable flow, stop on failure.
//
// Generated scenario descriptions are run by the real http/scenario provider and gun through
// the real engine against an in-process recording target that (a) hands every request a unique
// token in its JSON body and in a header and (b) fails selected (shot, position) pairs in a
// scripted way. Every request carries its scenario, data row and step name, so the requests of
// one shot can be regrouped and compared with a reference interpreter of the description:
// order and multiplicities, values captured from that shot's earlier responses, stop at the
// first failing step, pauses as lower bounds, scenario counts per weight, consecutive rows.
package main

import (
	"context"
	"fmt"
	httpscenario "github.com/yandex/pandora/components/guns/http_scenario"
	"github.com/yandex/pandora/core"
	"math/rand"
	"net/http"
	"sort"
	"strconv"
	"strings"
	"sync"
	"sync/atomic"
	"time"

	"verif/harness/vkit"
)

// ---------------------------------------------------------------- description

type Item struct {
	Req     string `json:"req"`   // request short name; "" for sleep()
	Count   int    `json:"count"` // multiplicity (0 = written without parentheses)
	SleepMs int    `json:"sleep_ms"`
}

type Scn struct {
	Name    string `json:"name"`
	Weight  int    `json:"weight"` // 0 = not written
	MinWait int    `json:"min_waiting_time"`
	Items   []Item `json:"items"`
	Reqs    int    `json:"requests"`          // r1…rReqs
	Broken  string `json:"template_error_in"` // request whose URI template always fails ("" none)
}

type Fail struct {
	Pos  int    `json:"pos"`
	Kind string `json:"kind"` // status500 drop badjson nobody
}

type Case struct {
	Scns      []Scn                   `json:"scenarios"`
	Instances int                     `json:"instances"`
	Cycles    int                     `json:"cycles"`
	Rows      int                     `json:"rows"`
	Fails     map[string]map[int]Fail `json:"fails"` // scenario → row → failure
	Seed      int64                   `json:"seed"`
}

type step struct {
	Name  string
	Sleep time.Duration
}

// expand is the reference interpretation of a request list.
func expand(s Scn) []step {
	out := []step{{Name: s.Name + "_init"}}
	for _, it := range s.Items {
		if it.Req == "" {
			out[len(out)-1].Sleep += time.Duration(it.SleepMs) * time.Millisecond
			continue
		}
		n := it.Count
		if n == 0 {
			n = 1
		}
		for i := 0; i < n; i++ {
			out = append(out, step{Name: s.Name + "_" + it.Req, Sleep: time.Duration(it.SleepMs) * time.Millisecond})
		}
	}
	return out
}

func gcd(a, b int) int {
	for b != 0 {
		a, b = b, a%b
	}
	return a
}

// perCycle returns how many times each scenario is delivered per ring cycle.
func perCycle(scns []Scn) []int {
	if len(scns) == 1 {
		return []int{1}
	}
	g := 0
	ws := make([]int, len(scns))
	for i, s := range scns {
		ws[i] = s.Weight
		if ws[i] == 0 {
			ws[i] = 1
		}
		g = gcd(g, ws[i])
	}
	for i := range ws {
		ws[i] /= g
	}
	return ws
}

// smallDelimiter: the second data source is separated by a tab, a blank, a semicolon or a comma
func (c Case) smallDelimiter() string {
	return []string{"\t", " ", ";", ","}[int(uint64(c.Seed)%4)]
}

func (c Case) YAML(csvPath, smallPath string) string {
	var b strings.Builder
	fmt.Fprintf(&b, `variable_sources:
  - type: "file/csv"
    name: "rows"
    file: %q
    fields: ["id", "val"]
  - type: "file/csv"
    name: "small"
    file: %q
    fields: ["s", "t"]
    delimiter: %q
  - type: "variables"
    name: "vars"
    variables: {"a": "static-a"}
requests:
`, csvPath, smallPath, c.smallDelimiter())
	postHead := `    postprocessors:
      - type: "var/jsonpath"
        mapping: {"tok": "$.tok", "n": "$.n", "deep": "$.d.e", "flag": "$.ok"}
      - type: "var/header"
        mapping: {"h": "X-Tok|upper", "opt": "X-Opt", "cut": "X-Tok|substr(0,-4)", "mid": "X-Tok|substr(1,-2)"}
      - type: "assert/response"
        status_code: 200
`
	// five ways to assert on a well-behaved response (body is about 25 bytes and contains "tok")
	asserts := []string{
		"        body: [\"tok\"]\n",
		"        size: {val: 5, op: \">\"}\n",
		"        body: [\"tok\", \"n\"]\n        headers: {\"X-Tok\": \"t\", \"Content-Type\": \"json\"}\n        size: {val: 100000, op: \"<\"}\n",
		// header names are case-insensitive
		"        headers: {\"x-tok\": \"t\", \"content-type\": \"application/json\"}\n",
		"        body: [\"tok\"]\n        headers: {\"X-TOK\": \"t\", \"CONTENT-TYPE\": \"json\"}\n",
	}
	ai := int(c.Seed % 5)
	if ai < 0 {
		ai = -ai
	}
	nextPost := func() string {
		ai++
		return postHead + asserts[ai%len(asserts)]
	}
	for _, s := range c.Scns {
		init := s.Name + "_init"
		row := "{{.request." + init + ".preprocessor.rowobj.id}}"
		fmt.Fprintf(&b, `  - name: %q
    method: "POST"
    uri: "/%s/init"
    headers: {"X-Scn": %q, "X-Step": %q, "X-Row": "%s", "X-Small": "{{.request.%s.preprocessor.sm.s}}", "X-Var": "{{.source.vars.a}}"}
    body: "init of row %s"
    preprocessor:
      mapping: {"rowobj": "source.rows[next]", "sm": "source.small[next]"}
%s`, init, s.Name, s.Name, init, row, init, row, nextPost())
		// which request a step's captured values come from: the request of the previous list item
		prevOf := map[string]string{}
		prev := init
		for _, it := range s.Items {
			if it.Req == "" {
				continue
			}
			full := s.Name + "_" + it.Req
			if _, ok := prevOf[full]; !ok && prev != full {
				prevOf[full] = prev
			}
			prev = full
		}
		for j := 1; j <= s.Reqs; j++ {
			name := fmt.Sprintf("%s_r%d", s.Name, j)
			p, ok := prevOf[name]
			if !ok {
				p = init
			}
			uri := fmt.Sprintf("/%s/r%d?prev={{.request.%s.postprocessor.tok}}&h={{.request.%s.postprocessor.h}}&cut={{.request.%s.postprocessor.cut}}&mid={{.request.%s.postprocessor.mid}}", s.Name, j, p, p, p, p)
			if s.Broken == fmt.Sprintf("r%d", j) {
				uri += `&x={{slice "abc" 5 6}}`
			}
			fmt.Fprintf(&b, `  - name: %q
    method: "POST"
    uri: %q
    headers: {"X-Scn": %q, "X-Step": %q, "X-Row": "%s", "X-Val": "{{.request.%s.preprocessor.rowobj.val}}", "X-From": %q}
    body: "row=%s prev={{.request.%s.postprocessor.tok}}"
    preprocessor:
      mapping: {"p1": "request.%s.postprocessor.tok", "p2": "source.vars.a", "p3": "request.%s.postprocessor.opt", "p4": "request.%s.preprocessor.rowobj.id", "p5": "source.vars.a"}
%s`, name, uri, s.Name, name, row, init, p, row, p, init, init, init, nextPost())
		}
	}
	b.WriteString("scenarios:\n")
	for _, s := range c.Scns {
		fmt.Fprintf(&b, "  - name: %q\n", s.Name)
		if s.Weight != 0 {
			fmt.Fprintf(&b, "    weight: %d\n", s.Weight)
		}
		fmt.Fprintf(&b, "    min_waiting_time: %d\n", s.MinWait)
		items := []string{strconv.Quote(s.Name + "_init")}
		for _, it := range s.Items {
			switch {
			case it.Req == "":
				items = append(items, fmt.Sprintf("%q", fmt.Sprintf("sleep(%d)", it.SleepMs)))
			case it.Count == 0:
				items = append(items, fmt.Sprintf("%q", s.Name+"_"+it.Req))
			case it.SleepMs == 0:
				items = append(items, fmt.Sprintf("%q", fmt.Sprintf("%s_%s(%d)", s.Name, it.Req, it.Count)))
			default:
				items = append(items, fmt.Sprintf("%q", fmt.Sprintf("%s_%s(%d, %d)", s.Name, it.Req, it.Count, it.SleepMs)))
			}
		}
		fmt.Fprintf(&b, "    requests: [%s]\n", strings.Join(items, ", "))
	}
	return b.String()
}

func genCase(rng *rand.Rand, instances int) Case {
	c := Case{Instances: instances, Cycles: 1 + rng.Intn(3), Seed: rng.Int63(), Fails: map[string]map[int]Fail{}}
	nScn := 1 + rng.Intn(3)
	// weights: unset (0) or 1…9, in every combination incl. common divisors shared by only some of them
	ws := make([]int, nScn)
	for i := range ws {
		ws[i] = []int{0, 1, 2, 2, 3, 4, 4, 6, 8, 9}[rng.Intn(10)]
	}
	for i := 0; i < nScn; i++ {
		s := Scn{Name: fmt.Sprintf("s%c", 'A'+i), Weight: ws[i], Reqs: 1 + rng.Intn(3)}
		if instances == 1 && rng.Intn(3) == 0 {
			s.MinWait = 20 + rng.Intn(40)
		}
		for k, n := 0, 1+rng.Intn(4); k < n; k++ {
			it := Item{Req: fmt.Sprintf("r%d", 1+rng.Intn(s.Reqs))}
			switch rng.Intn(5) {
			case 0:
				it.Count = 1 + rng.Intn(3)
			case 1:
				it.Count = 1 + rng.Intn(3)
				it.SleepMs = 5 + rng.Intn(25)
			case 2:
				it = Item{SleepMs: 5 + rng.Intn(30)}
			}
			s.Items = append(s.Items, it)
		}
		if rng.Intn(8) == 0 {
			s.Broken = fmt.Sprintf("r%d", 1+rng.Intn(s.Reqs))
		}
		c.Scns = append(c.Scns, s)
	}
	pc := perCycle(c.Scns)
	maxShots := 0
	for i, s := range c.Scns {
		shots := pc[i] * c.Cycles
		if shots > maxShots {
			maxShots = shots
		}
		exp := expand(s)
		fm := map[int]Fail{}
		for r := 0; r < shots; r++ {
			if rng.Intn(3) == 0 {
				fm[r] = Fail{Pos: rng.Intn(len(exp)), Kind: []string{"status500", "drop", "badjson", "nobody", "nofield", "noopt"}[rng.Intn(6)]}
				if fm[r].Kind == "noopt" {
					// the first step's response lacks a header that the later steps' preprocessors read
					fm[r] = Fail{Pos: 0, Kind: "noopt"}
				}
			}
		}
		c.Fails[s.Name] = fm
	}
	c.Rows = maxShots + rng.Intn(3)
	return c
}

// ---------------------------------------------------------------- recording target

type rec struct {
	Seq   int
	Scn   string
	Row   int
	Step  string
	From  string
	Prev  string
	H     string
	Cut   string // the previous token without its last four characters (substr(0,-4)): tokens are 3–6 long
	Mid   string // substr(1,-2) of it
	Val   string
	Small string
	Var   string
	Body  string
	Tok   string
	At    time.Time
	Fail  string
}

type world struct {
	mu    sync.Mutex
	c     Case
	recs  []*rec
	count map[string]int // scn/row → requests seen
	stray []string
}

func (w *world) respond(rq *vkit.ReqRec, rw http.ResponseWriter, r *http.Request) {
	row, err := strconv.Atoi(r.Header.Get("X-Row"))
	w.mu.Lock()
	if err != nil || r.Header.Get("X-Scn") == "" {
		w.stray = append(w.stray, fmt.Sprintf("%s %s X-Row=%q X-Scn=%q", r.Method, r.RequestURI, r.Header.Get("X-Row"), r.Header.Get("X-Scn")))
		w.mu.Unlock()
		rw.WriteHeader(400)
		return
	}
	x := &rec{Seq: len(w.recs), Scn: r.Header.Get("X-Scn"), Row: row, Step: r.Header.Get("X-Step"), From: r.Header.Get("X-From"),
		Prev: r.URL.Query().Get("prev"), H: r.URL.Query().Get("h"), Cut: r.URL.Query().Get("cut"), Mid: r.URL.Query().Get("mid"), Val: r.Header.Get("X-Val"), Small: r.Header.Get("X-Small"), Var: r.Header.Get("X-Var"),
		Body: string(rq.Body), At: rq.At}
	x.Tok = fmt.Sprintf("t%dz", x.Seq)
	key := fmt.Sprintf("%s/%d", x.Scn, x.Row)
	pos := w.count[key]
	w.count[key]++
	kind := ""
	if f, ok := w.c.Fails[x.Scn][x.Row]; ok && f.Pos == pos {
		kind = f.Kind
	}
	x.Fail = kind
	w.recs = append(w.recs, x)
	w.mu.Unlock()
	rw.Header().Set("X-Tok", x.Tok)
	rw.Header().Set("Content-Type", "application/json")
	if kind != "noopt" {
		rw.Header().Set("X-Opt", "o")
	}
	switch kind {
	case "status500":
		rw.WriteHeader(500)
		fmt.Fprintf(rw, `{"tok":%q}`, x.Tok)
	case "drop":
		if hj, ok := rw.(http.Hijacker); ok {
			if c, _, err := hj.Hijack(); err == nil {
				c.Close()
				return
			}
		}
		rw.WriteHeader(500)
	case "badjson":
		rw.WriteHeader(200)
		fmt.Fprintf(rw, `{"tok": %s`, x.Tok)
	case "nobody":
		rw.WriteHeader(200)
	case "nofield":
		// well-formed, status 200, every assertion satisfied — but one of the four captured fields is not there
		rw.WriteHeader(200)
		fmt.Fprintf(rw, `{"n":%d,"d":{"e":1},"ok":true,"note":"the tok field is missing"}`, x.Seq)
	default:
		rw.WriteHeader(200)
		fmt.Fprintf(rw, `{"tok":%q,"n":%d,"d":{"e":1},"ok":true}`, x.Tok, x.Seq)
	}
}

// pySlice: s[a:b] with negative bounds counted from the end and both kept inside the value.
func pySlice(s string, a, b int) string {
	l := len(s)
	if a < 0 {
		a += l
	}
	if b < 0 {
		b += l
	}
	a, b = min(max(a, 0), l), min(max(b, 0), l)
	if a > b {
		return ""
	}
	return s[a:b]
}

// ---------------------------------------------------------------- run + judge

var caseSeq int

func runCase(res *vkit.Result, c Case, idx int) {
	caseSeq++
	// every seventh generated description is shot by the http2/scenario gun (HTTP/2 over TLS)
	h2 := idx < 100 && idx%7 == 3
	tgt, err := vkit.NewHTTPTarget(h2)
	if err != nil {
		res.Inconclusive(true, "target: %v", err)
		return
	}
	defer tgt.Close()
	w := &world{c: c, count: map[string]int{}}
	tgt.Respond = w.respond
	base := fmt.Sprintf("/c15/case-%d", caseSeq)
	var rows strings.Builder
	for r := 0; r < c.Rows; r++ {
		fmt.Fprintf(&rows, "%d,val-%d\n", r, r*7)
	}
	_ = vkit.WriteMemAt(base+".csv", []byte(rows.String()))
	sd := c.smallDelimiter()
	_ = vkit.WriteMemAt(base+".small.csv", []byte("alpha"+sd+"x1\nbeta"+sd+"x2\ngamma"+sd+"x3\n"))
	yaml := c.YAML(base+".csv", base+".small.csv")
	_ = vkit.WriteMemAt(base+".yaml", []byte(yaml))
	defer func() {
		for _, e := range []string{".csv", ".small.csv", ".yaml"} {
			vkit.RemoveMem(base + e)
		}
	}()
	pc := perCycle(c.Scns)
	ring := 0
	for _, n := range pc {
		ring += n
	}
	limit := ring * c.Cycles
	pool := map[string]any{"id": "p", "ammo": map[string]any{"type": "http/scenario", "file": base + ".yaml", "limit": limit},
		"result": map[string]any{"type": "discard"}, "gun": map[string]any{"type": "http/scenario", "target": tgt.Addr},
		"rps": map[string]any{"type": "const", "ops": 5000, "duration": "300s"}, "startup": map[string]any{"type": "once", "times": c.Instances}}
	if h2 {
		pool["gun"] = map[string]any{"type": "http2/scenario", "target": tgt.Addr}
		res.Count("cases_with_http2_scenario_gun", 1)
	}
	ec, err := vkit.DecodePools(map[string]any{"pools": []any{pool}})
	cs := map[string]any{"case": c, "yaml": yaml, "http2": h2}
	if err != nil {
		res.Violate("C15/valid-description-rejected", fmt.Sprintf("generated description rejected: %v", err), cs)
		return
	}
	aggr := &vkit.MockAggregator{}
	ec.Pools[0].Aggregator = aggr
	rr := vkit.RunEngine(ec, nil, 120*time.Second)
	if rr.Hang || rr.Err != nil {
		res.Violate("C15/run", fmt.Sprintf("run failed: %v hang=%v", rr.Err, rr.Hang), cs)
		return
	}
	samples := aggr.Snapshot()
	w.mu.Lock()
	recs := append([]*rec(nil), w.recs...)
	stray := append([]string(nil), w.stray...)
	w.mu.Unlock()
	key := fmt.Sprintf("C15/instances=%d", c.Instances)
	if len(stray) > 0 {
		res.Violate(key+"/stray-request", fmt.Sprintf("%d requests without a renderable scenario/row, e.g. %s", len(stray), stray[0]), cs)
	}
	// group by shot
	shots := map[string][]*rec{}
	for _, x := range recs {
		k := fmt.Sprintf("%s/%d", x.Scn, x.Row)
		shots[k] = append(shots[k], x)
	}
	rowVal := func(r int) string { return fmt.Sprintf("val-%d", r*7) }
	wantOK, wantFail := map[string]int{}, map[string]int{}
	judgedShots := 0
	for i, s := range c.Scns {
		exp := expand(s)
		nShots := pc[i] * c.Cycles
		// rows handed out consecutively, each exactly once
		for k := range shots {
			if strings.HasPrefix(k, s.Name+"/") {
				r, _ := strconv.Atoi(strings.TrimPrefix(k, s.Name+"/"))
				if r >= nShots {
					res.Violate(key+"/rows", fmt.Sprintf("scenario %s was delivered %d times but used data row %d (rows must be 0…%d, consecutively)", s.Name, nShots, r, nShots-1), cs)
				}
			}
		}
		for r := 0; r < nShots; r++ {
			got := shots[fmt.Sprintf("%s/%d", s.Name, r)]
			// reference: the shot stops at the first failing step. Two sources of failure:
			// the scripted one (position = number of requests of this shot the target had
			// seen) and the request whose template cannot be rendered (nothing is sent).
			f, brokenAt := -1, -1
			failKind := ""
			if fl, ok := c.Fails[s.Name][r]; ok {
				f, failKind = fl.Pos, fl.Kind
			}
			if s.Broken != "" {
				for p, st := range exp {
					if st.Name == s.Name+"_"+s.Broken {
						brokenAt = p
						break
					}
				}
			}
			// "noopt": the first step succeeds, but its response lacks the header that one of the five
			// entries of every later step's preprocessor mapping reads: the second step of the shot
			// fails before anything is sent
			notSentKind := "template"
			if failKind == "noopt" {
				f = -1
				if len(exp) > 1 && (brokenAt < 0 || 1 <= brokenAt) {
					brokenAt, notSentKind = 1, "preprocessor"
				}
			}
			arrived, failedStep := len(exp), -1
			switch {
			case brokenAt >= 0 && (f < 0 || brokenAt <= f):
				arrived, failedStep, failKind = brokenAt, brokenAt, notSentKind
			case f >= 0 && f < len(exp):
				arrived, failedStep = f+1, f
			default:
				failKind = ""
			}
			want := exp[:arrived]
			var gotNames, wantNames []string
			for _, x := range got {
				gotNames = append(gotNames, strings.TrimPrefix(x.Step, s.Name+"_"))
			}
			for _, st := range want {
				wantNames = append(wantNames, strings.TrimPrefix(st.Name, s.Name+"_"))
			}
			if strings.Join(gotNames, ",") != strings.Join(wantNames, ",") {
				sub := "/order-or-multiplicity"
				if failKind != "" {
					if len(gotNames) > len(wantNames) {
						sub = "/continued-after-failure"
					}
				}
				if len(got) == 0 {
					sub = "/shot-missing"
				}
				res.Violate(key+sub, fmt.Sprintf("scenario %s row %d: the target received steps [%s], the description means [%s] (failure: %q at position %d; template error in %q)", s.Name, r, strings.Join(gotNames, " "), strings.Join(wantNames, " "), failKind, failedStep, s.Broken), cs)
				continue
			}
			judgedShots++
			// expected samples: one per executed step, the failing one reported as failed
			for p, st := range exp {
				switch {
				case failedStep >= 0 && p == failedStep:
					wantFail[s.Name+"."+st.Name]++
				case failedStep < 0 || p < failedStep:
					wantOK[s.Name+"."+st.Name]++
				}
			}
			// variable flow, data row values, pauses
			last := map[string]*rec{}
			for p, x := range got {
				if x.Var != "static-a" && x.Step == s.Name+"_init" {
					res.Violate(key+"/variables-source", fmt.Sprintf("scenario %s row %d init: X-Var = %q, want the value of source.vars.a", s.Name, r, x.Var), cs)
				}
				if x.Step != s.Name+"_init" {
					if x.Val != rowVal(r) {
						res.Violate(key+"/data-row", fmt.Sprintf("scenario %s row %d step %s: X-Val = %q, the row's value is %q", s.Name, r, x.Step, x.Val, rowVal(r)), cs)
					}
					src := last[x.From]
					if src == nil {
						res.Violate(key+"/variable-flow", fmt.Sprintf("scenario %s row %d step %s takes its values from %s which did not run before it in this shot", s.Name, r, x.Step, x.From), cs)
					} else {
						if wc, wm := pySlice(src.Tok, 0, -4), pySlice(src.Tok, 1, -2); x.Cut != wc || x.Mid != wm {
							res.Violate(key+"/captured-substr", fmt.Sprintf("scenario %s row %d step %s: the header value %q captured with substr(0,-4) and substr(1,-2) arrived as %q and %q, want %q and %q", s.Name, r, x.Step, src.Tok, x.Cut, x.Mid, wc, wm), cs)
						}
						if x.Prev != src.Tok || x.H != strings.ToUpper(src.Tok) {
							res.Violate(key+"/variable-flow", fmt.Sprintf("scenario %s row %d step %s (position %d): carries prev=%q h=%q, the last response to %s in this shot had token %q", s.Name, r, x.Step, p, x.Prev, x.H, x.From, src.Tok), cs)
						}
						if want := fmt.Sprintf("row=%d prev=%s", r, src.Tok); x.Body != want {
							res.Violate(key+"/body-template", fmt.Sprintf("scenario %s row %d step %s: body %q, want %q", s.Name, r, x.Step, x.Body, want), cs)
						}
					}
				} else if want := fmt.Sprintf("init of row %d", r); x.Body != want {
					res.Violate(key+"/body-template", fmt.Sprintf("scenario %s row %d init: body %q, want %q", s.Name, r, x.Body, want), cs)
				}
				if p > 0 {
					if gap := x.At.Sub(got[p-1].At); gap < want[p-1].Sleep {
						res.Violate(key+"/pause", fmt.Sprintf("scenario %s row %d: step %d arrived %v after step %d, the description asks for a pause of %v after it", s.Name, r, p, gap, p-1, want[p-1].Sleep), cs)
					}
					if want[p-1].Sleep > 0 {
						res.Count("pauses_judged", 1)
					}
				}
				last[x.Step] = x
			}
		}
	}
	// small source: values round-robin; with one instance in lockstep with the rows
	if c.Instances == 1 {
		var inits []*rec
		for _, x := range recs {
			if strings.HasSuffix(x.Step, "_init") {
				inits = append(inits, x)
			}
		}
		perScn := map[string]int{}
		for _, x := range inits {
			k := perScn[x.Scn]
			perScn[x.Scn]++
			if want := []string{"alpha", "beta", "gamma"}[k%3]; x.Small != want {
				res.Violate(key+"/next-wraparound", fmt.Sprintf("scenario %s: shot number %d got source.small[next] = %q, want %q (3 rows, round-robin)", x.Scn, k, x.Small, want), cs)
			}
			if x.Row != k {
				res.Violate(key+"/rows", fmt.Sprintf("scenario %s: shot number %d used data row %d", x.Scn, k, x.Row), cs)
			}
		}
		// min_waiting_time of shot k: shot k began after the last request of shot k−1 had
		// arrived, so shot k+1 cannot begin earlier than that instant + min_waiting_time
		// (a sound lower bound whatever the machine load).
		lastOf := map[string]time.Time{}
		for _, x := range recs {
			lastOf[fmt.Sprintf("%s/%d", x.Scn, x.Row)] = x.At
		}
		for i := 1; i+1 < len(inits); i++ {
			k := inits[i]
			var ks Scn
			for _, s := range c.Scns {
				if s.Name == k.Scn {
					ks = s
				}
			}
			_, failed := c.Fails[k.Scn][k.Row]
			if ks.MinWait > 0 && !failed && ks.Broken == "" {
				before := lastOf[fmt.Sprintf("%s/%d", inits[i-1].Scn, inits[i-1].Row)]
				if gap := inits[i+1].At.Sub(before); gap < time.Duration(ks.MinWait)*time.Millisecond {
					res.Violate(key+"/min-waiting-time", fmt.Sprintf("scenario %s has min_waiting_time %d ms; the shot after it started only %v after the shot before it had sent its last request", k.Scn, ks.MinWait, gap), cs)
				}
				res.Count("min_waiting_time_judged", 1)
			}
		}
	}
	// samples: one per executed step, the failing step reported as failed
	gotOK, gotFail := map[string]int{}, map[string]int{}
	for _, s := range samples {
		parts := strings.Split(s.Tags, "|")
		if s.Net == 0 && s.Proto == 200 && len(parts) == 1 {
			gotOK[parts[0]]++
		} else {
			gotFail[parts[0]]++
		}
	}
	if d := diffCounts(wantOK, gotOK); d != "" {
		res.Violate(key+"/samples-ok", "successful samples per step (want vs got): "+d, cs)
	}
	if d := diffCounts(wantFail, gotFail); d != "" {
		res.Violate(key+"/samples-failed", "failed samples per step (want vs got): "+d, cs)
	}
	res.Count("shots_judged", int64(judgedShots))
	res.Count("requests_judged", int64(len(recs)))
	res.Count("samples_judged", int64(len(samples)))
	nf := 0
	for _, m := range c.Fails {
		nf += len(m)
	}
	res.Count("scripted_failures", int64(nf))
	res.Eval(yaml+fmt.Sprint(c.Fails, c.Instances, c.Cycles), judgedShots > 0)
	if idx < 3 {
		res.Sample(map[string]any{"case": c, "requests_received": len(recs), "samples": len(samples)})
	}
}

func diffCounts(want, got map[string]int) string {
	keys := map[string]bool{}
	for k := range want {
		keys[k] = true
	}
	for k := range got {
		keys[k] = true
	}
	var ks []string
	for k := range keys {
		ks = append(ks, k)
	}
	sort.Strings(ks)
	var d []string
	for _, k := range ks {
		if want[k] != got[k] {
			d = append(d, fmt.Sprintf("%s: %d vs %d", k, want[k], got[k]))
		}
	}
	return strings.Join(d, "; ")
}

// nextFirstAccess: all instances shooting a scenario share its [next] counters, and at the start
// of a run they all resolve the same path for the first time at the same moment. Over many
// fresh scenarios, 8 concurrent first resolutions must still hand out rows 0…7, each once.
// nextNestedPaths: [next] keeps one counter per path. Two paths that differ only in an explicit
// index of a parent list (shops[0].items[next], shops[1].items[next]) are different paths: each
// hands out its own rows 0,1,2,… in turn, shot after shot.
func nextNestedPaths(res *vkit.Result) {
	_ = vkit.WriteMemAt("/c15/nested.json", []byte(`{"shops":[{"items":["n0","n1","n2","n3"]},{"items":["s0","s1","s2","s3"]}],"plain":["p0","p1","p2","p3"]}`))
	yaml := `variable_sources:
  - type: "file/json"
    name: "catalog"
    file: "/c15/nested.json"
requests:
  - name: "r"
    method: "GET"
    uri: "/"
    headers: {}
    preprocessor:
      mapping: {"a": "source.catalog.shops[0].items[next]", "b": "source.catalog.shops[1].items[next]", "c": "source.catalog.plain[next]"}
scenarios:
  - name: "s"
    requests: ["r"]
`
	_ = vkit.WriteMemAt("/c15/nested.yaml", []byte(yaml))
	defer vkit.RemoveMem("/c15/nested.yaml")
	defer vkit.RemoveMem("/c15/nested.json")
	c := map[string]any{"probe": "shops[0].items[next], shops[1].items[next] and plain[next] resolved by one instance, 8 shots"}
	p, err := vkit.NewProvider(map[string]any{"type": "http/scenario", "file": "/c15/nested.yaml", "limit": 1})
	if err != nil {
		res.Inconclusive(true, "nested next probe: provider rejected: %v", err)
		return
	}
	ctx, cancel := context.WithCancel(context.Background())
	done := make(chan error, 1)
	go func() { done <- p.Run(ctx, core.ProviderDeps{Log: vkit.NopLog()}) }()
	a, ok := p.Acquire()
	cancel()
	<-done
	sc, isSc := a.(*httpscenario.Scenario)
	if !ok || !isSc || len(sc.Requests) == 0 || sc.Requests[0].Preprocessor == nil {
		res.Inconclusive(true, "nested next probe: no scenario ammo with a preprocessor (%T)", a)
		return
	}
	pre := sc.Requests[0].Preprocessor
	vars := sc.VariableStorage.Variables()
	var got, want []string
	for k := 0; k < 8; k++ {
		out, err := pre.Process(map[string]any{"source": vars})
		if err != nil {
			res.Violate("C15/next/nested-paths", fmt.Sprintf("shot %d: %v", k, err), c)
			return
		}
		got = append(got, fmt.Sprintf("%v/%v/%v", out["a"], out["b"], out["c"]))
		want = append(want, fmt.Sprintf("n%d/s%d/p%d", k%4, k%4, k%4))
	}
	if fmt.Sprint(got) != fmt.Sprint(want) {
		res.Violate("C15/next/nested-paths", fmt.Sprintf("rows handed out shot by shot: %v, want %v", got, want), c)
	}
	res.Eval("next-nested-paths", true)
}

// nextSharedBySteps: two different steps of one scenario each take source.rows[next] (and the
// second also a [next] element of a list that the first step's response handed back). Rows are
// handed out consecutively: 2·shots accesses use rows 0…2·shots−1, each exactly once, whatever
// the number of instances; on one instance shot k's steps get rows 2k and 2k+1.
func nextSharedBySteps(res *vkit.Result, instances, shots int) {
	tgt, err := vkit.NewHTTPTarget(false)
	if err != nil {
		res.Inconclusive(true, "target: %v", err)
		return
	}
	defer tgt.Close()
	type hit struct{ step, row string }
	var mu sync.Mutex
	var hits []hit
	tgt.Respond = func(rq *vkit.ReqRec, rw http.ResponseWriter, r *http.Request) {
		mu.Lock()
		hits = append(hits, hit{r.Header.Get("X-Step"), r.Header.Get("X-Row")})
		mu.Unlock()
		_, _ = rw.Write([]byte("ok"))
	}
	base := fmt.Sprintf("/c15/nextshared-%d-%d", instances, shots)
	var rows strings.Builder
	for r := 0; r < 2*shots+3; r++ {
		fmt.Fprintf(&rows, "%d\n", r)
	}
	_ = vkit.WriteMemAt(base+".csv", []byte(rows.String()))
	yaml := fmt.Sprintf(`variable_sources:
  - type: "file/csv"
    name: "rows"
    file: %q
    fields: ["id"]
requests:
  - name: "login"
    method: "POST"
    uri: "/login"
    headers: {"X-Step": "login", "X-Row": "{{.request.login.preprocessor.u.id}}"}
    preprocessor:
      mapping: {"u": "source.rows[next]"}
  - name: "invite"
    method: "POST"
    uri: "/invite"
    headers: {"X-Step": "invite", "X-Row": "{{.request.invite.preprocessor.u.id}}"}
    preprocessor:
      mapping: {"u": "source.rows[next]"}
scenarios:
  - name: "two"
    weight: 1
    min_waiting_time: 0
    requests: ["login", "invite"]
`, base+".csv")
	_ = vkit.WriteMemAt(base+".yaml", []byte(yaml))
	defer vkit.RemoveMem(base + ".csv")
	defer vkit.RemoveMem(base + ".yaml")
	pool := map[string]any{"id": "p", "ammo": map[string]any{"type": "http/scenario", "file": base + ".yaml", "limit": shots},
		"result": map[string]any{"type": "discard"}, "gun": map[string]any{"type": "http/scenario", "target": tgt.Addr},
		"rps": map[string]any{"type": "const", "ops": 5000, "duration": "300s"}, "startup": map[string]any{"type": "once", "times": instances}}
	cs := map[string]any{"layer": "two steps of one scenario take source.rows[next]", "instances": instances, "shots": shots}
	ec, err := vkit.DecodePools(map[string]any{"pools": []any{pool}})
	if err != nil {
		res.Violate("C15/next-shared/valid-description-rejected", fmt.Sprintf("description rejected: %v", err), cs)
		return
	}
	ec.Pools[0].Aggregator = &vkit.MockAggregator{}
	rr := vkit.RunEngine(ec, nil, 120*time.Second)
	if rr.Hang || rr.Err != nil {
		res.Violate("C15/next-shared/run", fmt.Sprintf("run failed: %v hang=%v", rr.Err, rr.Hang), cs)
		return
	}
	mu.Lock()
	defer mu.Unlock()
	used := map[string]int{}
	for _, h := range hits {
		used[h.row]++
	}
	var bad []string
	for r := 0; r < 2*shots; r++ {
		if n := used[fmt.Sprint(r)]; n != 1 {
			bad = append(bad, fmt.Sprintf("row %d used %d times", r, n))
		}
	}
	if len(hits) != 2*shots || len(bad) > 0 {
		if len(bad) > 6 {
			bad = append(bad[:6], "…")
		}
		res.Violate("C15/next-shared/rows", fmt.Sprintf("%d shots of [login, invite], both steps taking source.rows[next]: %d requests arrived; consecutive rows 0…%d must each be used once: %s", shots, len(hits), 2*shots-1, strings.Join(bad, ", ")), cs)
	} else if instances == 1 {
		for k := 0; k+1 < len(hits); k += 2 {
			if hits[k].step != "login" || hits[k+1].step != "invite" || hits[k].row != fmt.Sprint(k) || hits[k+1].row != fmt.Sprint(k+1) {
				res.Violate("C15/next-shared/rows", fmt.Sprintf("one instance: shot %d sent %s with row %s and %s with row %s, want login with row %d and invite with row %d", k/2, hits[k].step, hits[k].row, hits[k+1].step, hits[k+1].row, k, k+1), cs)
				break
			}
		}
	}
	res.Count("next_shared_requests_judged", int64(len(hits)))
	res.Eval(fmt.Sprint("next-shared", instances, shots), true)
}

// staleAcrossShots: what a step may use is what earlier steps of the same shot captured. Two
// scenarios take turns on one instance: "full" logs in and then uses the token; "early" begins
// with a step whose preprocessor asks for the login step's token although no login has happened
// in that shot — it must fail before anything is sent, every time, however many tokens earlier
// shots of the same instance have seen.
func staleAcrossShots(res *vkit.Result, shots int) {
	tgt, err := vkit.NewHTTPTarget(false)
	if err != nil {
		res.Inconclusive(true, "target: %v", err)
		return
	}
	defer tgt.Close()
	var mu sync.Mutex
	var early []string
	logins := 0
	tgt.Respond = func(rq *vkit.ReqRec, rw http.ResponseWriter, r *http.Request) {
		mu.Lock()
		switch {
		case strings.HasPrefix(r.URL.Path, "/login"):
			logins++
		case strings.HasPrefix(r.URL.Path, "/early"):
			early = append(early, r.Header.Get("X-Tok"))
		}
		n := logins
		mu.Unlock()
		rw.Header().Set("Content-Type", "application/json")
		fmt.Fprintf(rw, `{"tok":"tok-%d"}`, n)
	}
	base := fmt.Sprintf("/c15/stale-%d", shots)
	yaml := `requests:
  - name: "login"
    method: "POST"
    uri: "/login"
    headers: {}
    postprocessors:
      - type: "var/jsonpath"
        mapping: {"tok": "$.tok"}
  - name: "use"
    method: "POST"
    uri: "/use"
    headers: {"X-Tok": "{{.request.login.postprocessor.tok}}"}
  - name: "early"
    method: "POST"
    uri: "/early"
    headers: {"X-Tok": "{{.request.early.preprocessor.t}}"}
    preprocessor:
      mapping: {"t": "request.login.postprocessor.tok"}
scenarios:
  - name: "full"
    weight: 1
    min_waiting_time: 0
    requests: ["login", "use"]
  - name: "early"
    weight: 1
    min_waiting_time: 0
    requests: ["early", "login"]
`
	_ = vkit.WriteMemAt(base+".yaml", []byte(yaml))
	defer vkit.RemoveMem(base + ".yaml")
	pool := map[string]any{"id": "p", "ammo": map[string]any{"type": "http/scenario", "file": base + ".yaml", "limit": shots},
		"result": map[string]any{"type": "discard"}, "gun": map[string]any{"type": "http/scenario", "target": tgt.Addr},
		"rps": map[string]any{"type": "const", "ops": 5000, "duration": "300s"}, "startup": map[string]any{"type": "once", "times": 1}}
	cs := map[string]any{"layer": "a step asks for a value that only a later step of its shot captures", "instances": 1, "shots": shots}
	ec, err := vkit.DecodePools(map[string]any{"pools": []any{pool}})
	if err != nil {
		res.Violate("C15/stale/valid-description-rejected", fmt.Sprintf("description rejected: %v", err), cs)
		return
	}
	ec.Pools[0].Aggregator = &vkit.MockAggregator{}
	rr := vkit.RunEngine(ec, nil, 120*time.Second)
	if rr.Hang || rr.Err != nil {
		res.Violate("C15/stale/run", fmt.Sprintf("run failed: %v hang=%v", rr.Err, rr.Hang), cs)
		return
	}
	mu.Lock()
	defer mu.Unlock()
	if len(early) > 0 {
		res.Violate("C15/stale/value-of-an-earlier-shot", fmt.Sprintf("the step \"early\" was sent %d times (with X-Tok %q …) although the login step it takes its token from had not run in those shots: the token is one an earlier shot of the same instance captured", len(early), early[0]), cs)
	}
	if logins < shots/2 {
		res.Inconclusive(false, "stale-values probe: only %d logins in %d shots", logins, shots)
	}
	res.Count("stale_probe_shots", int64(shots))
	res.Eval(fmt.Sprint("stale", shots), true)
}

func nextFirstAccess(res *vkit.Result, rounds int) {
	_ = vkit.WriteMemAt("/c15/next.csv", []byte("0,a\n1,b\n2,c\n3,d\n4,e\n5,f\n6,g\n7,h\n8,i\n9,j\n"))
	yaml := `variable_sources:
  - type: "file/csv"
    name: "rows"
    file: "/c15/next.csv"
    fields: ["id", "val"]
requests:
  - name: "r"
    method: "GET"
    uri: "/"
    headers: {}
    preprocessor:
      mapping: {"rowobj": "source.rows[next]"}
scenarios:
  - name: "s"
    requests: ["r"]
`
	_ = vkit.WriteMemAt("/c15/next.yaml", []byte(yaml))
	defer vkit.RemoveMem("/c15/next.yaml")
	defer vkit.RemoveMem("/c15/next.csv")
	c := map[string]any{"probe": "8 concurrent first resolutions of source.rows[next] on a fresh scenario", "rounds": rounds}
	const workers = 8
	for r := 0; r < rounds; r++ {
		p, err := vkit.NewProvider(map[string]any{"type": "http/scenario", "file": "/c15/next.yaml", "limit": 1})
		if err != nil {
			res.Inconclusive(true, "next probe: provider rejected: %v", err)
			return
		}
		ctx, cancel := context.WithCancel(context.Background())
		done := make(chan error, 1)
		go func() { done <- p.Run(ctx, core.ProviderDeps{Log: vkit.NopLog()}) }()
		a, ok := p.Acquire()
		cancel()
		<-done
		sc, isSc := a.(*httpscenario.Scenario)
		if !ok || !isSc || len(sc.Requests) == 0 || sc.Requests[0].Preprocessor == nil {
			res.Inconclusive(true, "next probe: no scenario ammo with a preprocessor (%T)", a)
			return
		}
		pre := sc.Requests[0].Preprocessor
		vars := sc.VariableStorage.Variables()
		rows := make([]string, workers)
		var wg sync.WaitGroup
		var ready atomic.Int32
		for w := 0; w < workers; w++ {
			wg.Add(1)
			go func(w int) {
				defer wg.Done()
				ready.Add(1)
				for ready.Load() < workers {
				}
				out, err := pre.Process(map[string]any{"source": vars})
				if err != nil {
					rows[w] = "error: " + err.Error()
					return
				}
				if m, ok := out["rowobj"].(map[string]any); ok {
					rows[w] = fmt.Sprint(m["id"])
				} else {
					rows[w] = fmt.Sprintf("%v", out["rowobj"])
				}
			}(w)
		}
		wg.Wait()
		seen := map[string]int{}
		for _, x := range rows {
			seen[x]++
		}
		okAll := len(seen) == workers
		for i := 0; i < workers && okAll; i++ {
			okAll = seen[strconv.Itoa(i)] == 1
		}
		if !okAll {
			res.Violate("C15/next/first-access", fmt.Sprintf("round %d: 8 instances resolving source.rows[next] for the first time got rows %v, want 0…7 each once", r, rows), c)
			break
		}
		res.Count("next_first_access_rounds", 1)
	}
	res.Eval("next-first-access", true)
}

// ---------------------------------------------------------------- steps without processors

// plainSteps: a scenario of three requests that have no preprocessor (but the first), no
// postprocessors and no assertion — the step only sends its request and reads the answer. The
// answer to the middle step is scripted per shot: complete; complete with status 500 (nothing
// asserts on it: the step has not failed); headers announcing 1000 bytes followed by a few bytes
// and a close; a chunked body cut inside a chunk; connection closed before any answer. The last
// three are transport errors: the step must be reported as failed and the third step not be sent.
func plainSteps(res *vkit.Result, instances, shots int) {
	tgt, err := vkit.NewHTTPTarget(false)
	if err != nil {
		res.Inconclusive(true, "target: %v", err)
		return
	}
	defer tgt.Close()
	kinds := []string{"complete", "status500", "body-cut-short", "chunk-cut-short", "closed-before-answer"}
	var mu sync.Mutex
	seen := map[int][]string{} // row → steps that arrived
	tgt.Respond = func(rq *vkit.ReqRec, rw http.ResponseWriter, r *http.Request) {
		row, _ := strconv.Atoi(r.Header.Get("X-Row"))
		step := r.Header.Get("X-Step")
		mu.Lock()
		seen[row] = append(seen[row], step)
		mu.Unlock()
		kind := "complete"
		if step == "b" {
			kind = kinds[row%len(kinds)]
		}
		raw := func(text string) {
			if hj, ok := rw.(http.Hijacker); ok {
				if c, _, err := hj.Hijack(); err == nil {
					_, _ = c.Write([]byte(text))
					c.Close()
				}
			}
		}
		switch kind {
		case "status500":
			rw.WriteHeader(500)
			_, _ = rw.Write([]byte("scripted failure status"))
		case "body-cut-short":
			raw("HTTP/1.1 200 OK\r\nContent-Type: text/plain\r\nContent-Length: 1000\r\n\r\nonly these bytes")
		case "chunk-cut-short":
			raw("HTTP/1.1 200 OK\r\nContent-Type: text/plain\r\nTransfer-Encoding: chunked\r\n\r\n64\r\nten bytes.")
		case "closed-before-answer":
			raw("")
		default:
			_, _ = rw.Write([]byte("a complete answer"))
		}
	}
	base := fmt.Sprintf("/c15/plain-%d-%d", instances, shots)
	var rows strings.Builder
	for r := 0; r < shots; r++ {
		fmt.Fprintf(&rows, "%d\n", r)
	}
	_ = vkit.WriteMemAt(base+".csv", []byte(rows.String()))
	yaml := fmt.Sprintf(`variable_sources:
  - type: "file/csv"
    name: "rows"
    file: %q
    fields: ["id"]
requests:
  - name: "a"
    method: "POST"
    uri: "/plain/a"
    headers: {"X-Step": "a", "X-Row": "{{.request.a.preprocessor.row.id}}"}
    body: "a"
    preprocessor:
      mapping: {"row": "source.rows[next]"}
  - name: "b"
    method: "POST"
    uri: "/plain/b"
    headers: {"X-Step": "b", "X-Row": "{{.request.a.preprocessor.row.id}}"}
    body: "b"
  - name: "c"
    method: "POST"
    uri: "/plain/c"
    headers: {"X-Step": "c", "X-Row": "{{.request.a.preprocessor.row.id}}"}
    body: "c"
scenarios:
  - name: "plain"
    weight: 1
    min_waiting_time: 0
    requests: ["a", "b", "c"]
`, base+".csv")
	_ = vkit.WriteMemAt(base+".yaml", []byte(yaml))
	defer vkit.RemoveMem(base + ".csv")
	defer vkit.RemoveMem(base + ".yaml")
	pool := map[string]any{"id": "p", "ammo": map[string]any{"type": "http/scenario", "file": base + ".yaml", "limit": shots},
		"result": map[string]any{"type": "discard"}, "gun": map[string]any{"type": "http/scenario", "target": tgt.Addr},
		"rps": map[string]any{"type": "const", "ops": 5000, "duration": "300s"}, "startup": map[string]any{"type": "once", "times": instances}}
	cs := map[string]any{"layer": "steps without processors", "instances": instances, "shots": shots, "answers_to_middle_step": kinds}
	ec, err := vkit.DecodePools(map[string]any{"pools": []any{pool}})
	if err != nil {
		res.Violate("C15/plain/valid-description-rejected", fmt.Sprintf("description rejected: %v", err), cs)
		return
	}
	aggr := &vkit.MockAggregator{}
	ec.Pools[0].Aggregator = aggr
	rr := vkit.RunEngine(ec, nil, 120*time.Second)
	if rr.Hang || rr.Err != nil {
		res.Violate("C15/plain/run", fmt.Sprintf("run failed: %v hang=%v", rr.Err, rr.Hang), cs)
		return
	}
	wantOK, wantFail := map[string]int{}, map[string]int{}
	mu.Lock()
	defer mu.Unlock()
	for r := 0; r < shots; r++ {
		kind := kinds[r%len(kinds)]
		broken := kind != "complete" && kind != "status500"
		want := "a,b,c"
		if broken {
			want = "a,b"
		}
		if got := strings.Join(seen[r], ","); got != want {
			sub := "order-or-multiplicity"
			if broken && got == "a,b,c" {
				sub = "continued-after-failure"
			}
			res.Violate("C15/plain/"+sub, fmt.Sprintf("shot %d: the answer to step b was %q; the target received steps [%s], want [%s]", r, kind, got, want), cs)
		}
		wantOK["plain.a"]++
		if broken {
			wantFail["plain.b"]++
		} else {
			wantOK["plain.c"]++
			if kind == "complete" {
				wantOK["plain.b"]++
			}
		}
		res.Count("plain_shots_judged", 1)
	}
	gotOK, gotFail, got500 := map[string]int{}, map[string]int{}, 0
	for _, sm := range aggr.Snapshot() {
		parts := strings.Split(sm.Tags, "|")
		switch {
		case sm.Net == 0 && sm.Proto == 200 && len(parts) == 1:
			gotOK[parts[0]]++
		case sm.Net == 0 && sm.Proto == 500 && parts[0] == "plain.b":
			got500++ // reported with the status it received
		default:
			gotFail[parts[0]]++
		}
	}
	if d := diffCounts(wantOK, gotOK); d != "" {
		res.Violate("C15/plain/samples-ok", "successful samples per step (want vs got): "+d, cs)
	}
	if d := diffCounts(wantFail, gotFail); d != "" {
		res.Violate("C15/plain/samples-failed", "failed samples per step (want vs got): "+d, cs)
	}
	if want500 := (shots + len(kinds) - 2) / len(kinds); got500 != want500 {
		res.Violate("C15/plain/samples-status", fmt.Sprintf("%d answers with status 500 to step b, %d samples of step b carrying 500", want500, got500), cs)
	}
	res.Eval(fmt.Sprint("plain", instances, shots), true)
}

func main() {
	vkit.Fs()
	res := vkit.NewResult("generated HTTP scenario descriptions (1–3 weighted scenarios, request lists with name, name(n), name(n, ms), sleep(ms), min_waiting_time, csv and variables sources, [next] row mapping, values captured with var/jsonpath and var/header flowing into URI, headers and body of later steps, assert/response on every step, optional always-failing template) × scripted target failures per (shot, position) ∈ {status contradicting the assertion, dropped connection, unparsable JSON, empty body} × 1 or 4 instances; distinct = distinct (description, failure plan); non-trivial = at least one shot fully judged")
	rng := vkit.Rand("c15")
	// regression seeds: the minimal shapes
	runCase(res, Case{Scns: []Scn{{Name: "sA", Reqs: 2, Items: []Item{{Req: "r1"}, {Req: "r2", Count: 2}}}}, Instances: 1, Cycles: 2, Rows: 3,
		Fails: map[string]map[int]Fail{"sA": {1: {Pos: 1, Kind: "status500"}}}}, 100)
	runCase(res, Case{Scns: []Scn{{Name: "sA", Weight: 2, Reqs: 1, Items: []Item{{Req: "r1", Count: 2, SleepMs: 10}, {SleepMs: 15}}}, {Name: "sB", Weight: 4, Reqs: 1, Items: []Item{{Req: "r1"}}}},
		Instances: 4, Cycles: 3, Rows: 8, Fails: map[string]map[int]Fail{"sA": {}, "sB": {2: {Pos: 0, Kind: "drop"}}}}, 101)
	runCase(res, Case{Scns: []Scn{{Name: "sA", Weight: 2, Reqs: 1, Items: []Item{{Req: "r1"}}}, {Name: "sB", Weight: 4, Reqs: 1, Items: []Item{{Req: "r1"}}}, {Name: "sC", Weight: 3, Reqs: 1, Items: []Item{{Req: "r1"}}}},
		Instances: 2, Cycles: 2, Rows: 9, Fails: map[string]map[int]Fail{"sA": {}, "sB": {}, "sC": {}}}, 102)
	runCase(res, Case{Scns: []Scn{{Name: "sA", Weight: 2, Reqs: 1, Items: []Item{{Req: "r1"}}}, {Name: "sB", Weight: 2, Reqs: 1, Items: []Item{{Req: "r1"}}}, {Name: "sC", Weight: 1, Reqs: 1, Items: []Item{{Req: "r1"}}}},
		Instances: 1, Cycles: 1, Rows: 3, Fails: map[string]map[int]Fail{"sA": {}, "sB": {}, "sC": {}}}, 103)
	n := vkit.N(90, 2500)
	for i := 0; i < n; i++ {
		inst := 1
		if i%2 == 1 {
			inst = 4
		}
		runCase(res, genCase(rng, inst), i)
	}
	nextSharedBySteps(res, 1, 12)
	nextSharedBySteps(res, 4, vkit.N(40, 400))
	staleAcrossShots(res, 12)
	plainSteps(res, 1, 20)
	plainSteps(res, 4, vkit.N(40, 400))
	nextFirstAccess(res, vkit.N(2500, 40000))
	nextNestedPaths(res)
	vkit.CheckRaceLog(res, "C15")
	if res.Counter("shots_judged") < 100 || res.Counter("scripted_failures") < 20 || res.Counter("pauses_judged") < 10 {
		res.Inconclusive(true, "too little observed: %d shots, %d scripted failures, %d pauses", res.Counter("shots_judged"), res.Counter("scripted_failures"), res.Counter("pauses_judged"))
	}
	res.Write()
}
