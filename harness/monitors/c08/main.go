// C08 — limit/passes semantics and clean end-of-ammo on every provider.
//
// The complete matrix provider kind × preload × entries × limit × passes × consumers is
// enumerated. Provider level: Run + consumers calling Acquire; expected = min over the
// non-zero bounds of (limit, passes·entries); afterwards every consumer gets ok=false and Run
// returns nil within the watchdog. Engine level: a full engine run with a counting gun.
package main

import (
	"context"
	"encoding/json"
	"errors"
	"fmt"
	"strings"
	"sync/atomic"
	"time"

	"github.com/yandex/pandora/core"
	"github.com/yandex/pandora/core/engine"
	"github.com/yandex/pandora/core/schedule"

	"verif/harness/vkit"
)

type Cell struct {
	Kind      string `json:"kind"`
	Preload   bool   `json:"preload,omitempty"`
	Entries   int    `json:"entries"`
	Limit     int    `json:"limit"`
	Passes    int    `json:"passes"`
	Consumers int    `json:"consumers"`
	Engine    bool   `json:"engine_level,omitempty"`
	SlowLoad  bool   `json:"cancel_while_reading_input,omitempty"`
	// EndWhileSkipping: a real engine run whose profile (3 requests) is over while the provider is
	// still reading — slowly — through a long stretch of blank lines behind the third entry
	EndWhileSkipping bool `json:"profile_ends_while_provider_reads_blank_lines,omitempty"`
	PreCancel bool   `json:"cancelled_before_run,omitempty"`
	OsFs      bool   `json:"files_on_real_filesystem,omitempty"`
}

func httpFile(kind string, e int) (string, []byte) {
	var b strings.Builder
	switch kind {
	case "uri":
		for i := 0; i < e; i++ {
			fmt.Fprintf(&b, "/p%d?vid=%d tag%d\n", i, i, i)
		}
		return "uri", []byte(b.String())
	case "uripost":
		for i := 0; i < e; i++ {
			fmt.Fprintf(&b, "3 /p%d?vid=%d tag%d\nabc\n", i, i, i)
		}
		return "uripost", []byte(b.String())
	case "uripost-nobody-nonl":
		// entries without a body, and no newline behind the last one
		for i := 0; i < e; i++ {
			fmt.Fprintf(&b, "0 /p%d?vid=%d tag%d\n", i, i, i)
		}
		return "uripost", []byte(strings.TrimSuffix(b.String(), "\n"))
	case "uri-nonl":
		for i := 0; i < e; i++ {
			fmt.Fprintf(&b, "/p%d?vid=%d tag%d\n", i, i, i)
		}
		return "uri", []byte(strings.TrimSuffix(b.String(), "\n"))
	case "raw":
		for i := 0; i < e; i++ {
			blk := fmt.Sprintf("GET /p%d?vid=%d HTTP/1.1\r\nHost: h.example.org\r\n\r\n", i, i)
			fmt.Fprintf(&b, "%d tag%d\n%s\n", len(blk), i, blk)
		}
		return "raw", []byte(b.String())
	case "raw-bigbody", "uripost-bigbody":
		// every second entry carries a body of 6000 bytes (larger than the 4 KiB read buffers)
		for i := 0; i < e; i++ {
			body := ""
			if i%2 == 0 {
				body = strings.Repeat("0123456789", 600)
			}
			if kind == "uripost-bigbody" {
				fmt.Fprintf(&b, "%d /p%d?vid=%d tag%d\n%s\n", len(body), i, i, i, body)
				continue
			}
			blk := fmt.Sprintf("POST /p%d?vid=%d HTTP/1.1\r\nHost: h.example.org\r\nContent-Length: %d\r\n\r\n%s", i, i, len(body), body)
			fmt.Fprintf(&b, "%d tag%d\n%s\n", len(blk), i, blk)
		}
		return strings.TrimSuffix(kind, "-bigbody"), []byte(b.String())
	case "jsonline-bigline":
		// every second line is 70 KB long (maxammosize is raised in the provider config)
		for i := 0; i < e; i++ {
			pad := ""
			if i%2 == 0 {
				pad = strings.Repeat("0123456789", 7000)
			}
			fmt.Fprintf(&b, `{"method":"POST","uri":"/p%d?vid=%d","host":"h.example.org","tag":"tag%d","body":"%s"}`+"\n", i, i, i, pad)
		}
		return "http/json", []byte(b.String())
	case "jsonline-lines":
		for i := 0; i < e; i++ {
			fmt.Fprintf(&b, `{"method":"GET","uri":"/p%d?vid=%d","host":"h.example.org","tag":"tag%d"}`+"\n", i, i, i)
		}
		return "http/json", []byte(b.String())
	case "jsonline-array":
		b.WriteString("[")
		for i := 0; i < e; i++ {
			if i > 0 {
				b.WriteString(",\n")
			}
			fmt.Fprintf(&b, `{"method":"GET","uri":"/p%d?vid=%d","host":"h.example.org","tag":"tag%d"}`, i, i, i)
		}
		b.WriteString("]\n")
		return "http/json", []byte(b.String())
	}
	panic(kind)
}

// weightsFor returns scenario weights whose reduced ring has exactly e slots.
func weightsFor(e int) []int {
	switch e {
	case 1:
		return []int{1}
	case 2:
		return []int{3, 3} // gcd 3 → 1,1
	case 3:
		return []int{4, 2} // gcd 2 → 2,1
	case 5:
		return []int{3, 2}
	}
	return []int{e - 1, 1}
}

func scenarioYAML(grpc bool, e int) []byte {
	var b strings.Builder
	if grpc {
		b.WriteString("calls:\n  - name: \"hello\"\n    tag: \"hello\"\n    call: \"target.TargetService.Hello\"\n    payload: '{\"hello\": \"x\"}'\n")
	} else {
		b.WriteString("requests:\n  - name: \"r1\"\n    method: \"GET\"\n    uri: \"/r1\"\n    headers: {}\n")
	}
	b.WriteString("scenarios:\n")
	for i, w := range weightsFor(e) {
		fmt.Fprintf(&b, "  - name: \"sc%d\"\n    weight: %d\n    min_waiting_time: 0\n    requests: [\"%s\"]\n", i, w, map[bool]string{true: "hello", false: "r1"}[grpc])
	}
	return []byte(b.String())
}

func buildProvider(c Cell) (core.Provider, string, error) {
	var conf map[string]any
	var path string
	switch c.Kind {
	case "uri", "uripost", "raw", "jsonline-lines", "jsonline-array", "raw-bigbody", "uripost-bigbody", "jsonline-bigline", "uripost-nobody-nonl", "uri-nonl",
		"uri+chosen-empty", "uripost+chosen-empty", "raw+chosen-all", "jsonline-lines+chosen-all", "jsonline-array+chosen-empty":
		typ, data := httpFile(strings.Split(c.Kind, "+")[0], c.Entries)
		path = vkit.WriteMem(data)
		conf = map[string]any{"type": typ, "file": path}
		// a chosencases option that filters nothing out — written as an empty list, or naming
		// every tag of the file — leaves limit and passes as they are
		if strings.HasSuffix(c.Kind, "+chosen-empty") {
			conf["chosencases"] = []any{}
		} else if strings.HasSuffix(c.Kind, "+chosen-all") {
			var all []any
			for i := 0; i < c.Entries; i++ {
				all = append(all, fmt.Sprintf("tag%d", i))
			}
			conf["chosencases"] = all
		}
		if c.Kind == "jsonline-bigline" {
			conf["maxammosize"] = 200000
		}
		if c.Preload {
			conf["preload"] = true
		}
	case "grpc/json", "grpc/json-bigline":
		var b strings.Builder
		for i := 0; i < c.Entries; i++ {
			v := fmt.Sprintf("v%d", i)
			if c.Kind == "grpc/json-bigline" && i%2 == 0 {
				// a line of 70 KB: longer than a line scanner's default limit, allowed by maxammosize
				v += strings.Repeat("0123456789", 7000)
			}
			fmt.Fprintf(&b, `{"tag":"t%d","call":"target.TargetService.Hello","payload":{"hello":"%s"}}`+"\n", i, v)
		}
		path = vkit.WriteMem([]byte(b.String()))
		conf = map[string]any{"type": "grpc/json", "file": path}
		if c.Kind == "grpc/json-bigline" {
			conf["maxammosize"] = 200000
		}
	case "http/scenario", "grpc/scenario":
		path = vkit.WriteMem(scenarioYAML(c.Kind == "grpc/scenario", c.Entries)) + ".yaml"
		_ = vkit.Fs().Rename(strings.TrimSuffix(path, ".yaml"), path)
		conf = map[string]any{"type": c.Kind, "file": path}
	case "json", "json-queue2":
		var b strings.Builder
		for i := 0; i < c.Entries; i++ {
			fmt.Fprintf(&b, `{"k": %d}`+"\n", i)
		}
		path = vkit.WriteMem([]byte(b.String()))
		conf = map[string]any{"type": "json", "source": map[string]any{"type": "file", "path": path}}
		if c.Kind == "json-queue2" {
			// a queue of two: the provider finds its queue full most of the time, whatever the limit
			conf["ammo-queue-size"] = 2
		}
	case "json-padded":
		// a file of exactly 2×4096+1 bytes read through a 4 KiB buffer: the last chunk the decoder
		// sees before each end of file is the final newline alone
		var b strings.Builder
		for i := 1; i < c.Entries; i++ {
			fmt.Fprintf(&b, `{"k": %d}`+"\n", i)
		}
		first := `{"k": 0, "pad": "%s"}` + "\n"
		pad := 2*4096 + 1 - b.Len() - len(fmt.Sprintf(first, ""))
		path = vkit.WriteMem([]byte(fmt.Sprintf(first, strings.Repeat("x", pad)) + b.String()))
		conf = map[string]any{"type": "json", "source": map[string]any{"type": "file", "path": path}, "buffer-size": "4KB"}
	case "json-inline":
		// the same provider fed from the config itself (source: {type: inline, data: …})
		var b strings.Builder
		for i := 0; i < c.Entries; i++ {
			fmt.Fprintf(&b, `{"k": %d}`+"\n", i)
		}
		conf = map[string]any{"type": "json", "source": map[string]any{"type": "inline", "data": b.String()}}
	}
	conf["limit"] = c.Limit
	conf["passes"] = c.Passes
	p, err := vkit.NewProvider(conf)
	return p, path, err
}

func expected(c Cell) int {
	exp := -1
	if c.Limit > 0 {
		exp = c.Limit
	}
	if c.Passes > 0 && (exp < 0 || c.Passes*c.Entries < exp) {
		exp = c.Passes * c.Entries
	}
	return exp
}

func cls(n int) string {
	if n == 0 {
		return "=0"
	}
	return ">0"
}

func key(c Cell, check string) string {
	k := c.Kind
	if c.Preload {
		k += "+preload"
	}
	if c.OsFs {
		k += "+osfs"
	}
	lvl := ""
	if c.Engine {
		lvl = "engine/"
	}
	return fmt.Sprintf("C08/%s/limit%s,passes%s/%s%s", k, cls(c.Limit), cls(c.Passes), lvl, check)
}

type countGun struct {
	n    *atomic.Int64
	aggr core.Aggregator
}

func (g *countGun) Bind(a core.Aggregator, _ core.GunDeps) error { g.aggr = a; return nil }
func (g *countGun) Shoot(core.Ammo)                              { g.n.Add(1) }

var slowSeq atomic.Int64

// cancelWhileLoading: the provider reads a large input through the slow filesystem (4 KiB and
// 2 ms per Read); it is cancelled once it has made 20 reads. Judged logically: after the cancel
// it may complete what it has in its buffers, but it must not go on reading the rest of the
// input (hundreds of further reads), Run must return and consumers must unblock.
func cancelWhileLoading(res *vkit.Result, c Cell) {
	var typ string
	var one []byte
	var conf map[string]any
	if c.Kind == "grpc/json" {
		var b strings.Builder
		for i := 0; i < 40; i++ {
			fmt.Fprintf(&b, `{"tag":"t%d","call":"target.TargetService.Hello","payload":{"hello":"v%d"}}`+"\n", i, i)
		}
		typ, one = "grpc/json", []byte(b.String())
	} else {
		typ, one = httpFile(c.Kind, 40)
	}
	data := []byte(strings.Repeat(string(one), 1+(1500<<10)/len(one)))
	path := fmt.Sprintf("/slow/c08-%d", slowSeq.Add(1))
	_ = vkit.WriteMemAt(path, data)
	defer vkit.RemoveMem(path)
	conf = map[string]any{"type": typ, "file": path}
	if c.Preload {
		conf["preload"] = true
	}
	p, err := vkit.NewProvider(conf)
	if err != nil {
		res.Violate(key(c, "rejected"), fmt.Sprintf("valid provider config rejected: %v", err), c)
		return
	}
	ctx, cancel := context.WithCancel(context.Background())
	defer cancel()
	start := vkit.SlowReads.Load()
	done := make(chan error, 1)
	go func() { done <- p.Run(ctx, core.ProviderDeps{Log: vkit.NopLog()}) }()
	consumed := make(chan int, 1)
	go func() {
		n := 0
		for {
			a, ok := p.Acquire()
			if !ok {
				break
			}
			p.Release(a)
			n++
		}
		consumed <- n
	}()
	deadline := time.Now().Add(30 * time.Second)
	for vkit.SlowReads.Load()-start < 20 && time.Now().Before(deadline) {
		time.Sleep(time.Millisecond)
	}
	atCancel := vkit.SlowReads.Load() - start
	cancel()
	totalReads := int64(len(data)/4096 + 1)
	select {
	case <-done:
	case <-time.After(20 * time.Second):
		res.Violate(key(c, "cancel-while-loading/hang"), fmt.Sprintf("Run did not return within 20 s after the cancel (%d input reads done at the cancel)", atCancel), c)
		return
	}
	after := vkit.SlowReads.Load() - start - atCancel
	select {
	case <-consumed:
	case <-time.After(20 * time.Second):
		res.Violate(key(c, "cancel-while-loading/consumer-blocked"), "the consumer is still blocked in Acquire 20 s after the cancelled provider returned", c)
	}
	if after > 40 {
		res.Violate(key(c, "cancel-while-loading/keeps-reading"), fmt.Sprintf("cancelled after %d input reads, the provider went on for %d more reads (whole input = %d reads) before Run returned", atCancel, after, totalReads), c)
	}
	res.Count("cancel_while_loading_cells", 1)
	res.Max("max_reads_after_cancel", after)
}

// runCell returns "hang" when the watchdog fired.
// cancelledBeforeRun: the run is cancelled before the provider's Run begins (a pool stopped while it
// is starting), with consumers already waiting. Run must return and every consumer must be told
// that there is no more ammo — "once it is cancelled a provider never keeps consumers blocked".
func cancelledBeforeRun(res *vkit.Result, c Cell) {
	p, path, err := buildProvider(c)
	defer vkit.RemoveMem(path)
	if err != nil {
		res.Violate(key(c, "rejected"), fmt.Sprintf("valid provider config rejected: %v", err), c)
		return
	}
	ctx, cancel := context.WithCancel(context.Background())
	cancel()
	released := make(chan int, c.Consumers)
	for i := 0; i < c.Consumers; i++ {
		go func() {
			n := 0
			for {
				a, ok := p.Acquire()
				if !ok {
					released <- n
					return
				}
				n++
				p.Release(a)
			}
		}()
	}
	time.Sleep(2 * time.Millisecond) // let the consumers block in Acquire first
	done := make(chan error, 1)
	go func() { done <- p.Run(ctx, core.ProviderDeps{Log: vkit.NopLog(), PoolID: "verif"}) }()
	select {
	case <-done:
	case <-time.After(10 * time.Second):
		res.Violate(key(c, "pre-cancel/run-hang"), "Run with an already cancelled context did not return within 10 s", c)
		return
	}
	for i := 0; i < c.Consumers; i++ {
		select {
		case <-released:
		case <-time.After(5 * time.Second):
			res.Violate(key(c, "pre-cancel/consumer-blocked"), fmt.Sprintf("Run has returned (context cancelled before it began) but %d of %d consumers are still blocked in Acquire 5 s later", c.Consumers-i, c.Consumers), c)
			return
		}
	}
	res.Count("cells_cancelled_before_run", 1)
}

func runCell(res *vkit.Result, c Cell, watchdog time.Duration, final bool) string {
	if c.EndWhileSkipping {
		endWhileSkipping(res, c)
		return ""
	}
	if c.SlowLoad {
		cancelWhileLoading(res, c)
		return ""
	}
	if c.PreCancel {
		cancelledBeforeRun(res, c)
		return ""
	}
	p, path, err := buildProvider(c)
	defer vkit.RemoveMem(path)
	if err != nil {
		res.Violate(key(c, "rejected"), fmt.Sprintf("valid provider config rejected: %v", err), c)
		return ""
	}
	exp := expected(c)
	if c.Engine {
		return runEngine(res, c, p, exp, watchdog, final)
	}
	max := exp + c.Entries + 5
	if exp < 0 {
		max = 3*c.Entries + 2
	}
	dr := vkit.Drain(p, c.Consumers, max, watchdog)
	if dr.Hang != "" {
		if final {
			res.Violate(key(c, "hang"), fmt.Sprintf("after %d delivered items (expected %d): %s within %v", len(dr.Items), exp, dr.Hang, watchdog), c)
		}
		return "hang"
	}
	n := len(dr.Items)
	if exp >= 0 {
		if n != exp {
			res.Violate(key(c, "count"), fmt.Sprintf("%d items delivered, want min over non-zero bounds of (limit %d, passes %d × %d entries) = %d", n, c.Limit, c.Passes, c.Entries, exp), c)
		}
		if dr.RunErr != nil {
			res.Violate(key(c, "end-error"), fmt.Sprintf("provider reached its bounds (%d items) but Run returned %q instead of nil", n, dr.RunErr), c)
		}
		res.Count("end_bounded", 1)
	} else {
		if !dr.Cancelled {
			res.Violate(key(c, "count"), fmt.Sprintf("unbounded provider stopped by itself after %d items (Run: %v)", n, dr.RunErr), c)
		} else if dr.RunErr != nil && !errors.Is(dr.RunErr, context.Canceled) {
			res.Violate(key(c, "end-error"), fmt.Sprintf("cancelled provider returned %q (want nil or the context error)", dr.RunErr), c)
		}
		res.Count("end_cancelled", 1)
	}
	return ""
}

// endWhileSkipping: three entries, then 1.5 MiB of blank lines, then one more entry, read through
// the slow filesystem (4 KiB and 2 ms per Read). The profile holds three requests: they are fired
// at once and the run is over while the provider is still working its way through the blank
// lines. That is a normal end: Engine.Run must return nil and three requests be fired.
func endWhileSkipping(res *vkit.Result, c Cell) {
	typ, head := httpFile(c.Kind, 3)
	_, tail := httpFile(c.Kind, 1)
	blank := "\n"
	if c.Kind == "jsonline-lines" {
		blank = " \n"
	}
	data := append(append(append([]byte(nil), head...), []byte(strings.Repeat(blank, (1500<<10)/len(blank)))...), tail...)
	path := fmt.Sprintf("/slow/c08-skip-%d", slowSeq.Add(1))
	_ = vkit.WriteMemAt(path, data)
	defer vkit.RemoveMem(path)
	p, err := vkit.NewProvider(map[string]any{"type": typ, "file": path})
	if err != nil {
		res.Violate(key(c, "rejected"), fmt.Sprintf("valid provider config rejected: %v", err), c)
		return
	}
	var fired atomic.Int64
	eng := engine.New(vkit.NopLog(), vkit.NewMetrics(), engine.Config{Pools: []engine.InstancePoolConfig{{
		ID: "p", Provider: p, Aggregator: &vkit.MockAggregator{}, NewGun: func() (core.Gun, error) { return &countGun{n: &fired}, nil },
		NewRPSSchedule:  func() (core.Schedule, error) { return schedule.NewOnce(3), nil },
		StartupSchedule: schedule.NewOnce(1), DiscardOverflow: false,
	}}})
	done := make(chan error, 1)
	ctx, cancel := context.WithCancel(context.Background())
	defer cancel()
	start := vkit.SlowReads.Load()
	go func() { done <- eng.Run(ctx) }()
	select {
	case err = <-done:
	case <-time.After(30 * time.Second):
		res.Violate(key(c, "hang"), fmt.Sprintf("engine run did not end within 30 s (fired %d of 3)", fired.Load()), c)
		return
	}
	reads := vkit.SlowReads.Load() - start
	wd := make(chan struct{})
	go func() { eng.Wait(); close(wd) }()
	select {
	case <-wd:
	case <-time.After(30 * time.Second):
		res.Violate(key(c, "hang"), "Engine.Wait did not return within 30 s", c)
		return
	}
	if err != nil {
		res.Violate(key(c, "run-failed"), fmt.Sprintf("the profile's 3 requests were fired and the run was over while the provider was still reading its input (%d reads made): the run ended with error %q", reads, err), c)
	}
	if fired.Load() != 3 {
		res.Violate(key(c, "fired"), fmt.Sprintf("%d shots fired, want 3", fired.Load()), c)
	}
	res.Count("engine_runs_ending_while_provider_reads", 1)
}

func runEngine(res *vkit.Result, c Cell, p core.Provider, exp int, watchdog time.Duration, final bool) string {
	var fired atomic.Int64
	aggr := &vkit.MockAggregator{}
	tokens := int64(exp + 50)
	if exp < 0 {
		tokens = int64(3*c.Entries + 2)
	}
	eng := engine.New(vkit.NopLog(), vkit.NewMetrics(), engine.Config{Pools: []engine.InstancePoolConfig{{
		ID: "p", Provider: p, Aggregator: aggr, NewGun: func() (core.Gun, error) { return &countGun{n: &fired}, nil },
		NewRPSSchedule:  func() (core.Schedule, error) { return schedule.NewOnce(tokens), nil },
		StartupSchedule: schedule.NewOnce(int64(c.Consumers)), DiscardOverflow: false,
	}}})
	done := make(chan error, 1)
	ctx, cancel := context.WithCancel(context.Background())
	defer cancel()
	go func() { done <- eng.Run(ctx) }()
	var err error
	select {
	case err = <-done:
	case <-time.After(watchdog):
		if final {
			res.Violate(key(c, "hang"), fmt.Sprintf("engine run did not end within %v (fired %d, expected %d)", watchdog, fired.Load(), exp), c)
		}
		cancel()
		return "hang"
	}
	wd := make(chan struct{})
	go func() { eng.Wait(); close(wd) }()
	select {
	case <-wd:
	case <-time.After(watchdog):
	}
	if err != nil {
		res.Violate(key(c, "run-failed"), fmt.Sprintf("provider ran out of ammo after %d shots but the run ended with error %q", fired.Load(), err), c)
	}
	want := int64(exp)
	if exp < 0 {
		want = tokens
	}
	if fired.Load() != want {
		res.Violate(key(c, "fired"), fmt.Sprintf("%d shots fired, want %d", fired.Load(), want), c)
	}
	res.Count("engine_runs", 1)
	return ""
}

var kinds = []string{"uri", "uripost", "raw", "jsonline-lines", "jsonline-array", "grpc/json", "http/scenario", "grpc/scenario", "json", "json-inline", "json-padded", "json-queue2", "raw-bigbody", "uripost-bigbody", "grpc/json-bigline", "jsonline-bigline", "uripost-nobody-nonl", "uri-nonl",
	"uri+chosen-empty", "uripost+chosen-empty", "raw+chosen-all", "jsonline-lines+chosen-all", "jsonline-array+chosen-empty"}

func cells(kind string) []Cell {
	var out []Cell
	preloads := []bool{false}
	if kind == "uri" || kind == "uripost" || kind == "raw" || strings.HasPrefix(kind, "jsonline") || strings.HasSuffix(kind, "-bigbody") || strings.HasSuffix(kind, "-nonl") || strings.Contains(kind, "+chosen-") {
		preloads = []bool{false, true}
	}
	consumers := []int{1, 3}
	if kind == "uri" || kind == "uripost" || kind == "raw" || kind == "jsonline-lines" || kind == "grpc/json" {
		for _, pre := range preloads {
			out = append(out, Cell{Kind: kind, Preload: pre, SlowLoad: true, Consumers: 1})
		}
		if kind != "grpc/json" {
			out = append(out, Cell{Kind: kind, EndWhileSkipping: true, Engine: true, Consumers: 1})
		}
	}
	for _, pre := range preloads {
		for _, cn := range consumers {
			out = append(out, Cell{Kind: kind, Preload: pre, Entries: 3, Limit: 0, Passes: 2, Consumers: cn, PreCancel: true})
		}
	}
	for _, pre := range preloads {
		for _, e := range []int{1, 2, 3, 5} {
			seen := map[int]bool{}
			for _, l := range []int{0, 1, 2, e - 1, e, e + 1, 2*e + 1} {
				if l < 0 || seen[l] {
					continue
				}
				seen[l] = true
				for _, ps := range []int{0, 1, 2, 3} {
					for _, cn := range consumers {
						out = append(out, Cell{Kind: kind, Preload: pre, Entries: e, Limit: l, Passes: ps, Consumers: cn})
						// engine level: everything in thorough, a diagonal in quick
						if vkit.Thorough() || (l+ps+e+cn)%4 == 0 {
							out = append(out, Cell{Kind: kind, Preload: pre, Entries: e, Limit: l, Passes: ps, Consumers: cn, Engine: true})
						}
					}
				}
			}
		}
	}
	return out
}

func child() {
	vkit.Fs()
	res := vkit.NewResult("")
	hangs := 0
	for i, raw := range vkit.ChildCases() {
		var c Cell
		_ = json.Unmarshal(raw, &c)
		vkit.LogCase(i)
		if hangs >= 3 {
			res.Count("cells_skipped_after_3_hangs", 1)
			continue
		}
		if runCell(res, c, 3*time.Second, false) == "hang" {
			// re-run once in isolation with a longer watchdog; only a second hang counts
			if runCell(res, c, 10*time.Second, true) == "hang" {
				hangs++
			} else {
				res.Inconclusive(false, "cell hung once under a 3s watchdog but not when re-run: %s", vkit.JSON(c))
			}
		}
		bounded := expected(c) >= 0
		res.Eval(vkit.JSON(c), bounded)
		res.Count("cells/"+c.Kind, 1)
		if i%97 == 0 {
			res.Sample(map[string]any{"cell": c, "expected_items": expected(c)})
		}
	}
	res.ChildDone()
}

func main() {
	if vkit.IsChild() {
		child()
		return
	}
	res := vkit.NewResult("complete matrix: provider kind {uri, uripost, raw, http/json lines, http/json array} × preload {off,on}, grpc/json, http/scenario, grpc/scenario (ring size from weights incl. a common divisor), generic json from a file and from an inline source × entries {1,2,3,5} × limit {0,1,2,E−1,E,E+1,2E+1} × passes {0,1,2,3} × consumers {1,3}, at provider level (Run + Acquire loops) and at engine level (real engine, counting gun); plus, per file-reading kind, a cancel while the provider is still reading a 1.5 MiB input through a slow filesystem (reads after the cancel are counted); distinct = distinct cells; non-trivial = at least one bound is set")
	var batches [][]json.RawMessage
	total := 0
	for _, k := range kinds {
		cs := cells(k)
		total += len(cs)
		batches = append(batches, vkit.Batches(cs, len(cs))...)
	}
	vkit.RunChildren(res, vkit.ChildSpec{Kind: "cells", Batches: batches, Parallel: 9, Timeout: 25 * time.Minute,
		OnCrash: func(c vkit.Crash) {
			var cell Cell
			_ = json.Unmarshal(c.Case, &cell)
			res.Violate(key(cell, "process-died"), "process died or hung while running this cell:\n"+c.Output, cell)
		}})
	// the same matrix, thinned out, with the ammo files on the real filesystem (os files: a second
	// Close fails, …) instead of the in-memory one
	var osBatches [][]json.RawMessage
	osTotal := 0
	for _, k := range kinds {
		var cs []Cell
		for i, c := range cells(k) {
			if !c.SlowLoad && !c.EndWhileSkipping && (vkit.Thorough() || i%6 == 0) {
				c.OsFs = true
				cs = append(cs, c)
			}
		}
		osTotal += len(cs)
		osBatches = append(osBatches, vkit.Batches(cs, len(cs)+1)...)
	}
	vkit.RunChildren(res, vkit.ChildSpec{Kind: "cells-osfs", Batches: osBatches, Parallel: 9, Timeout: 25 * time.Minute, Env: []string{"VERIF_FS=os"},
		OnCrash: func(c vkit.Crash) {
			var cell Cell
			_ = json.Unmarshal(c.Case, &cell)
			res.Violate(key(cell, "process-died"), "process died or hung while running this cell:\n"+c.Output, cell)
		}})
	res.Set("cells_on_real_filesystem", osTotal)
	res.Set("cells_total", total)
	res.Set("exhaustive", true)
	res.Write()
}
