// C11 — Instance isolation and data-race freedom of all built-in components.
//
// Every supported kind of pool is run with 8–16 concurrent instances under the Go race
// detector, each kind in its own child process. Oracles: (1) no race report with a pandora
// frame and no runtime fatal error; (2) one gun object per instance and never two shots in
// flight on one gun (mock pool); (3) the shared definitions held by the provider (ammo list,
// scenario steps, templates, header/metadata maps, variable storage) hash to the same value
// before and after the run; (4) on the wire every request is internally coherent: URI,
// headers/metadata and body/payload that were rendered from one ammo entry or one data row
// carry the same marker.
package main

import (
	"encoding/json"
	"fmt"
	"net/http"
	"os"
	"path/filepath"
	"reflect"
	"regexp"
	"strings"
	"sync"
	"sync/atomic"
	"time"

	"github.com/yandex/pandora/core"
	"github.com/yandex/pandora/core/engine"
	"github.com/yandex/pandora/core/schedule"
	server "github.com/yandex/pandora/examples/grpc/server"
	"google.golang.org/grpc/codes"

	"verif/harness/vkit"
)

type Kind struct {
	Name      string `json:"kind"`
	Instances int    `json:"instances"`
	Ms        int    `json:"run_ms"`
	Rep       int    `json:"rep"`
}

var kinds = []string{"http/uri", "http/uri+noconfheaders", "http/uri+preload", "http/uripost", "http/raw", "http/jsonline", "http/jsonline+array", "http/jsonline+preload+shared-client", "http2/uri", "http2/uripost+shared-client", "http/uripost+trace+shared-client", "http/uri+trace", "connect/uri",
	"http/scenario", "http/scenario+xpath", "http/scenario+rand", "http/scenario+failing-steps+phout", "grpc/json", "grpc/json+shared-client", "grpc/scenario", "grpc/scenario+failing-steps+phout", "grpc/json+answlog+two-pools", "grpc/scenario+answlog+two-pools", "grpc/json+discard-overflow", "mock/ownership", "http/uri+phout+composite", "schedule/first-use", "http/uri+datemw", "http/uri+dnscache"}

func skipType(t reflect.Type) bool {
	switch t.Name() {
	case "NextIterator", "Logger", "ProviderBase":
		return true
	}
	return false
}

// definitionsHash hashes what the provider shares between instances.
func definitionsHash(p core.Provider) (string, bool) {
	f, ok := vkit.FindField(p, "ammos")
	if !ok {
		return "", false
	}
	return vkit.DeepHash2(f, skipType), true
}

var vidRe = regexp.MustCompile(`vid=([0-9]+)`)

func marker(s string) string {
	m := vidRe.FindStringSubmatch(s)
	if m == nil {
		return ""
	}
	return m[1]
}

func runFor(ec engine.Config, d time.Duration) vkit.RunResult {
	return vkit.RunEngine(ec, nil, d+60*time.Second)
}

func poolMap(ammo, gun, result map[string]any, instances, ms int) map[string]any {
	return map[string]any{"id": "p", "ammo": ammo, "result": result, "gun": gun,
		"rps":     map[string]any{"type": "unlimited", "duration": fmt.Sprintf("%dms", ms)},
		"startup": map[string]any{"type": "once", "times": instances}}
}

// httpKind: kinds whose shared state is only written while a pool starts up (the clients of a
// shared client pool settling their protocol on the first answers) are run as a row of short
// fresh pools instead of one long one, so that the start-up moment is met many times.
func httpKind(res *vkit.Result, k Kind) {
	if strings.HasPrefix(k.Name, "http2/") && strings.Contains(k.Name, "shared-client") {
		short := k
		short.Ms = max(k.Ms/12, 60)
		for i := 0; i < 12; i++ {
			httpKindOnce(res, short)
		}
		return
	}
	httpKindOnce(res, k)
}

func httpKindOnce(res *vkit.Result, k Kind) {
	// dnscache: the target is named, not numbered, and is still down when the config is decoded (the
	// gun's pre-resolve fails, so the process-wide DNS cache of the dialers stays in use); it
	// comes up before the shooting starts and all instances make their first connect at once
	late := strings.Contains(k.Name, "dnscache")
	addr := "127.0.0.1:0"
	if late {
		addr = fmt.Sprintf("127.0.0.1:%d", vkit.FreePort())
	}
	var tgt *vkit.HTTPTarget
	var err error
	if late {
		tgt = &vkit.HTTPTarget{Addr: strings.Replace(addr, "127.0.0.1", "localhost", 1)}
	} else if tgt, err = vkit.NewHTTPTargetAt(addr, strings.HasPrefix(k.Name, "http2/")); err != nil {
		res.Inconclusive(true, "target: %v", err)
		return
	}
	defer func() { tgt.Close() }()
	// light recording: check coherence on the fly, keep counters only
	var reqs, incoherent atomic.Int64
	var firstBad atomic.Value
	tgt.Respond = func(rec *vkit.ReqRec, w http.ResponseWriter, r *http.Request) {
		reqs.Add(1)
		u, h, b := marker(rec.URI), rec.Header.Get("X-Vid"), marker(string(rec.Body))
		want := u
		bad := (h != "" && h != want) || (b != "" && b != want) || want == ""
		if strings.Contains(k.Name, "datemw") {
			// the provider's one header/date middleware object stamps the requests of all instances
			if _, err := http.ParseTime(rec.Header.Get("Date")); err != nil {
				bad = true
			}
		}
		if bad {
			incoherent.Add(1)
			firstBad.CompareAndSwap(nil, fmt.Sprintf("%s %s  X-Vid=%q Date=%q body=%q", rec.Method, rec.URI, h, rec.Header.Get("Date"), rec.Body))
		}
		w.Header().Set("X-Tok", "tok-"+want)
		_, _ = w.Write([]byte(`{"tok":"t` + want + `","list":[1,2,3]}`))
	}
	format := strings.Split(strings.SplitN(k.Name, "/", 2)[1], "+")[0]
	var file strings.Builder
	const entries = 40
	for i := 0; i < entries; i++ {
		switch format {
		case "uri":
			if i%10 == 0 {
				fmt.Fprintf(&file, "[X-Common: c%d]\n", i)
			}
			if strings.Contains(k.Name, "noconfheaders") {
				// a header line before every entry: the request must carry its own entry's value
				fmt.Fprintf(&file, "[X-Vid: %d]\n", i)
			}
			fmt.Fprintf(&file, "/u?vid=%d tag%d\n", i, i%3)
		case "uripost":
			body := fmt.Sprintf("payload vid=%d %s", i, strings.Repeat("x", i))
			fmt.Fprintf(&file, "%d /p?vid=%d tag%d\n%s\n", len(body), i, i%3, body)
		case "raw":
			body := fmt.Sprintf("payload vid=%d", i)
			req := fmt.Sprintf("POST /r?vid=%d HTTP/1.1\r\nHost: h.example\r\nX-Vid: %d\r\nContent-Length: %d\r\n\r\n%s", i, i, len(body), body)
			fmt.Fprintf(&file, "%d tag%d\n%s\n", len(req), i%3, req)
		case "jsonline":
			// "+array": the file is one JSON array — its decoded entries are kept by the decoder and
			// handed out again on every pass, to whichever instance asks
			if strings.Contains(k.Name, "array") {
				file.WriteString(map[bool]string{true: "[\n", false: ",\n"}[i == 0])
			}
			fmt.Fprintf(&file, `{"host": "h.example", "method": "POST", "uri": "/j?vid=%d", "tag": "tag%d", "headers": {"X-Vid": "%d", "Content-Type": "text/plain"}, "body": "payload vid=%d"}`+"\n", i, i%3, i, i)
			if strings.Contains(k.Name, "array") && i == entries-1 {
				file.WriteString("]\n")
			}
		}
	}
	path := vkit.WriteMem([]byte(file.String()))
	defer vkit.RemoveMem(path)
	ammoType := map[string]string{"uri": "uri", "uripost": "uripost", "raw": "raw", "jsonline": "http/json"}[format]
	ammo := map[string]any{"type": ammoType, "file": path, "headers": []any{"[X-Conf: conf]", "[User-Agent: verif]"}}
	if strings.Contains(k.Name, "noconfheaders") {
		delete(ammo, "headers")
	}
	if strings.Contains(k.Name, "preload") {
		ammo["preload"] = true
	}
	if strings.Contains(k.Name, "datemw") {
		ammo["middlewares"] = []any{map[string]any{"type": "header/date"}}
	}
	gunType := strings.SplitN(k.Name, "/", 2)[0]
	gun := map[string]any{"type": gunType, "target": tgt.Addr}
	if strings.Contains(k.Name, "shared-client") {
		gun["shared-client"] = map[string]any{"enabled": true, "client-number": 3}
		if gunType == "http2" {
			gun["shared-client"] = map[string]any{"enabled": true, "client-number": 1}
		}
	}
	if strings.Contains(k.Name, "+trace") {
		// every shot is traced (connect, send, receive times): with a shared client the hooks of one
		// shot are called from the client's dial goroutines as well
		gun["httptrace"] = map[string]any{"trace": true, "dump": true}
	}
	result := map[string]any{"type": "discard"}
	phoutPath := ""
	if strings.Contains(k.Name, "phout") {
		phoutPath = fmt.Sprintf("/c11/out-%d.phout", time.Now().UnixNano())
		result = map[string]any{"type": "phout", "destination": phoutPath, "id": true}
	}
	pool := poolMap(ammo, gun, result, k.Instances, k.Ms)
	if strings.Contains(k.Name, "composite") {
		pool["rps"] = []any{map[string]any{"type": "once", "times": 50}, map[string]any{"type": "line", "from": 500, "to": 3000, "duration": fmt.Sprintf("%dms", k.Ms/2)},
			map[string]any{"type": "const", "ops": 3000, "duration": fmt.Sprintf("%dms", k.Ms/2)}}
	}
	ec, err := vkit.DecodePools(map[string]any{"pools": []any{pool}})
	if err != nil {
		res.Inconclusive(true, "%s: config rejected: %v", k.Name, err)
		return
	}
	// a preloading provider fills its shared ammo list when it starts: the reference hash is
	// taken when the first request reaches the target (the list is complete by then)
	preload := strings.Contains(k.Name, "preload")
	var h0 atomic.Value
	var hashOnce sync.Once
	if preload {
		inner := tgt.Respond
		prov := ec.Pools[0].Provider
		tgt.Respond = func(rec *vkit.ReqRec, w http.ResponseWriter, r *http.Request) {
			hashOnce.Do(func() {
				if h, ok := definitionsHash(prov); ok {
					h0.Store(h)
				}
			})
			inner(rec, w, r)
		}
	}
	if late {
		real, err := vkit.NewHTTPTargetAt(addr, false)
		if err != nil {
			res.Inconclusive(true, "late target: %v", err)
			return
		}
		real.Respond = tgt.Respond
		tgt = real
	}
	rr := runFor(ec, time.Duration(k.Ms)*time.Millisecond)
	judgeRun(res, k, rr)
	if preload {
		f, ok := vkit.FindField(ec.Pools[0].Provider, "ammos")
		if h0.Load() == nil || !ok || f.Len() == 0 {
			res.Inconclusive(true, "%s: no preloaded ammo list found to hash", k.Name)
		} else if h1, _ := definitionsHash(ec.Pools[0].Provider); h1 != h0.Load().(string) {
			res.Violate("C11/"+k.Name+"/definitions-altered", "the provider's preloaded ammo list hashes differently after the run than when the first request was fired", k)
		} else {
			res.Count("definitions_hashed", 1)
		}
	}
	if n := incoherent.Load(); n > 0 {
		res.Violate("C11/"+k.Name+"/incoherent-request", fmt.Sprintf("%d of %d requests mix parts of different ammo entries, e.g. %v", n, reqs.Load(), firstBad.Load()), k)
	}
	if phoutPath != "" {
		vkit.RemoveMem(phoutPath)
	}
	res.Count("requests_on_the_wire", reqs.Load())
	res.Eval(vkit.JSON(k), reqs.Load() > int64(k.Instances))
}

func judgeRun(res *vkit.Result, k Kind, rr vkit.RunResult) {
	if rr.Hang || rr.WaitHang {
		res.Violate("C11/"+k.Name+"/hang", "run did not end:\n"+rr.Stacks, k)
	} else if rr.Err != nil {
		res.Violate("C11/"+k.Name+"/run-failed", fmt.Sprintf("Engine.Run returned %v", rr.Err), k)
	}
}

const httpScenarioYAML = `variable_sources:
  - type: "file/csv"
    name: "rows"
    file: "@CSV@"
    fields: ["id", "val"]
  - type: "file/json"
    name: "js"
    file: "@JSON@"
  - type: "variables"
    name: "vars"
    variables: {"a": "static", "ri": "randInt(1,9)", "rs": "randString(4, abc)"}
requests:
  - name: "first"
    method: "POST"
    uri: "/first?vid={{.request.first.preprocessor.row.id}}"
    headers: {"X-Vid": "{{.request.first.preprocessor.row.id}}", "X-A": "{{.source.vars.a}}", "X-U": "{{uuid}}", "X-R": "{{randInt 1 5}}{{randString 3}}"}
    body: "payload vid={{.request.first.preprocessor.row.id}} {{.request.first.preprocessor.row.val}}"
    preprocessor:
      mapping: {"row": "source.rows[next]"@RANDMAP@}
    postprocessors:
      - type: "var/jsonpath"
        mapping: {"tok": "$.tok", "item": "$.list[1]"}
      - type: "var/header"
        mapping: {"h": "X-Tok|upper|substr(0,3)"}
      - type: "var/xpath"
        mapping: {"t": "//title"}
      - type: "assert/response"
        status_code: 200
        body: ["tok"]
  - name: "second"
    method: "POST"
    uri: "/second?vid={{.request.first.preprocessor.row.id}}&tok={{.request.first.postprocessor.tok}}"
    headers: {"X-Vid": "{{.request.first.preprocessor.row.id}}", "X-H": "{{.request.first.postprocessor.h}}"}
    body: "payload vid={{.request.first.preprocessor.row.id}} item={{.request.first.postprocessor.item}}"
    templater:
      type: "html"
scenarios:
  - name: "one"
    weight: 2
    min_waiting_time: 0
    requests: ["first", "second(2)"]
  - name: "two"
    weight: 1
    min_waiting_time: 0
    requests: ["first", "second"]
`

func httpScenarioKind(res *vkit.Result, k Kind) {
	tgt, err := vkit.NewHTTPTarget(false)
	if err != nil {
		res.Inconclusive(true, "target: %v", err)
		return
	}
	defer tgt.Close()
	var reqs, incoherent, tokMismatch atomic.Int64
	var firstBad atomic.Value
	failing := strings.Contains(k.Name, "failing-steps")
	tgt.Respond = func(rec *vkit.ReqRec, w http.ResponseWriter, r *http.Request) {
		reqs.Add(1)
		u, h, b := marker(rec.URI), rec.Header.Get("X-Vid"), marker(string(rec.Body))
		if u == "" || h != u || b != u {
			incoherent.Add(1)
			firstBad.CompareAndSwap(nil, fmt.Sprintf("%s %s  X-Vid=%q Date=%q body=%q", rec.Method, rec.URI, h, rec.Header.Get("Date"), rec.Body))
		}
		if strings.HasPrefix(rec.URI, "/second") {
			// the token captured from this shot's own first response belongs to the same row
			if tok := r.URL.Query().Get("tok"); tok != "t"+u {
				tokMismatch.Add(1)
				firstBad.CompareAndSwap(nil, fmt.Sprintf("%s carries tok=%q, this shot's first step got t%s", rec.URI, tok, u))
			}
		}
		w.Header().Set("X-Tok", "tok-"+u)
		if failing && reqs.Load()%3 == 0 {
			// every third response fails the step's assertion / extraction
			w.WriteHeader(500)
			_, _ = w.Write([]byte(`not json`))
			return
		}
		if strings.Contains(k.Name, "xpath") {
			// an HTML answer: the values the next step needs are taken out of it with var/xpath
			w.Header().Set("Content-Type", "text/html")
			_, _ = w.Write([]byte(`<html><head><title>T` + u + `</title></head><body><form id="main"><input name="csrf" value="t` + u + `"/><input name="csrf" value="other"/></form><ul><li>a</li><li>i` + u + `</li></ul></body></html>`))
			return
		}
		_, _ = w.Write([]byte(`{"tok":"t` + u + `","list":[1,2,3]}`))
	}
	base := vkit.WriteMem(nil)
	vkit.RemoveMem(base)
	var rows strings.Builder
	for i := 0; i < 500; i++ {
		fmt.Fprintf(&rows, "%d,v%d\n", i, i)
	}
	_ = vkit.WriteMemAt(base+".csv", []byte(rows.String()))
	_ = vkit.WriteMemAt(base+".json", []byte(`[{"k": "a"}, {"k": "b"}, {"k": "c"}]`))
	y := strings.ReplaceAll(httpScenarioYAML, "@CSV@", base+".csv")
	y = strings.ReplaceAll(y, "@JSON@", base+".json")
	randMap := ""
	if strings.Contains(k.Name, "rand") {
		randMap = `, "rnd": "source.js[rand].k", "ri": "randInt(1,100)", "rs": "randString(5)", "u": "uuid()", "last": "source.js[last].k"`
	}
	y = strings.ReplaceAll(y, "@RANDMAP@", randMap)
	if strings.Contains(k.Name, "xpath") {
		// every value the second step uses comes from var/xpath (a grouped expression, a plain
		// path, a predicate) — one postprocessor object evaluates the answers of all instances
		y = strings.Replace(y, `      - type: "var/jsonpath"
        mapping: {"tok": "$.tok", "item": "$.list[1]"}
`, `      - type: "var/xpath"
        mapping: {"tok": "(//input[@name='csrf'])[1]/@value", "item": "//li[2]", "ttl": "//form[@id='main']/input[@name='csrf']/@value"}
`, 1)
		y = strings.Replace(y, `        body: ["tok"]`, `        body: ["csrf"]`, 1)
	}
	_ = vkit.WriteMemAt(base+".yaml", []byte(y))
	defer func() {
		for _, e := range []string{".csv", ".json", ".yaml"} {
			vkit.RemoveMem(base + e)
		}
	}()
	result := map[string]any{"type": "discard"}
	if strings.Contains(k.Name, "phout") {
		pp := fmt.Sprintf("/c11/out-%d.phout", time.Now().UnixNano())
		defer vkit.RemoveMem(pp)
		result = map[string]any{"type": "phout", "destination": pp, "id": true}
	}
	pool := poolMap(map[string]any{"type": "http/scenario", "file": base + ".yaml"}, map[string]any{"type": "http/scenario", "target": tgt.Addr},
		result, k.Instances, k.Ms)
	ec, err := vkit.DecodePools(map[string]any{"pools": []any{pool}})
	if err != nil {
		res.Inconclusive(true, "%s: config rejected: %v", k.Name, err)
		return
	}
	h0, hashed := definitionsHash(ec.Pools[0].Provider)
	rr := runFor(ec, time.Duration(k.Ms)*time.Millisecond)
	judgeRun(res, k, rr)
	if !hashed {
		res.Inconclusive(true, "%s: provider has no shared definitions to hash", k.Name)
	} else if h1, _ := definitionsHash(ec.Pools[0].Provider); h1 != h0 {
		res.Violate("C11/"+k.Name+"/definitions-altered", "the scenario definitions shared by all instances (steps, header maps, templates, variable storage) hash differently after the run", k)
	} else {
		res.Count("definitions_hashed", 1)
	}
	if n := incoherent.Load() + tokMismatch.Load(); n > 0 {
		res.Violate("C11/"+k.Name+"/incoherent-request", fmt.Sprintf("%d of %d requests mix data of different shots, e.g. %v", n, reqs.Load(), firstBad.Load()), k)
	}
	res.Count("requests_on_the_wire", reqs.Load())
	res.Eval(vkit.JSON(k), reqs.Load() > int64(k.Instances))
}

func grpcKind(res *vkit.Result, k Kind) {
	tgt, err := vkit.NewGRPCTarget()
	if err != nil {
		res.Inconclusive(true, "grpc target: %v", err)
		return
	}
	defer tgt.Close()
	var ammo map[string]any
	var cleanup []string
	defer func() {
		for _, f := range cleanup {
			vkit.RemoveMem(f)
		}
	}()
	scn := strings.HasPrefix(k.Name, "grpc/scenario")
	if !scn {
		var sb strings.Builder
		for i := 0; i < 40; i++ {
			call := "target.TargetService.Hello"
			switch i % 10 {
			case 4:
				call = "target.TargetService/Hello" // the other common way of writing a method
			case 9:
				call = "/target.TargetService/Hello"
			}
			fmt.Fprintf(&sb, `{"tag":"t%d","call":"%s","metadata":{"vid":"%d","x-common":"c"},"payload":{"name":"vid=%d"}}`+"\n", i%3, call, i, i)
		}
		p := vkit.WriteMem([]byte(sb.String()))
		cleanup = append(cleanup, p)
		ammo = map[string]any{"type": "grpc/json", "file": p}
	} else {
		base := vkit.WriteMem(nil)
		vkit.RemoveMem(base)
		var rows strings.Builder
		for i := 0; i < 500; i++ {
			fmt.Fprintf(&rows, "%d,login%d\n", i, i)
		}
		_ = vkit.WriteMemAt(base+".csv", []byte(rows.String()))
		y := `variable_sources:
  - type: "file/csv"
    name: "rows"
    file: "` + base + `.csv"
    fields: ["id", "login"]
  - type: "variables"
    name: "vars"
    variables: {"a": "static", "ri": "randInt(1,9)"}
calls:
  - name: "auth"
    tag: "auth"
    call: "target.TargetService.Auth"
    metadata: {"vid": "{{.request.auth.preprocessor.row.id}}", "x-static": "{{.source.vars.a}}", "x-rand": "{{randString 4}}"}
    preprocessors:
      - type: "prepare"
        mapping: {"row": "source.rows[next]", "rs": "randString(3)", "ri": "randInt(0,5)"}
    payload: '{"login": "vid={{.request.auth.preprocessor.row.id}}", "pass": "{{.request.auth.preprocessor.row.login}}"}'
    postprocessors:
      - type: "assert/response"
        payload: ["token"]
        status_code: 200
  - name: "list"
    tag: "list"
    call: "target.TargetService.List"
    metadata: {"vid": "{{.request.auth.preprocessor.row.id}}", "tok": "{{.request.auth.postprocessor.token}}"}
    payload: '{"user_id": {{.request.auth.preprocessor.row.id}}, "token": "{{.request.auth.postprocessor.token}}"}'
scenarios:
  - name: "s"
    weight: 1
    min_waiting_time: 0
    requests: ["auth", "list(2)"]
`
		if strings.Contains(k.Name, "failing-steps") {
			// steps that fail before anything is sent: a method the target does not have, a template
			// that fails while it is rendered, a preprocessor that cannot resolve its source
			y = strings.Replace(y, "scenarios:\n", `  - name: "nomethod"
    tag: "nomethod"
    call: "target.TargetService.Goodbye"
    payload: '{"name": "x"}'
  - name: "badtmpl"
    tag: "badtmpl"
    call: "target.TargetService.Hello"
    payload: '{"name": "p-{{index .source.vars.a 99}}"}'
  - name: "badpre"
    tag: "badpre"
    call: "target.TargetService.Hello"
    payload: '{"name": "x"}'
    preprocessors:
      - type: "prepare"
        mapping: {"v": "source.nosuch[next].id"}
scenarios:
  - name: "s-nomethod"
    weight: 1
    min_waiting_time: 0
    requests: ["nomethod"]
  - name: "s-badtmpl"
    weight: 1
    min_waiting_time: 0
    requests: ["badtmpl"]
  - name: "s-badpre"
    weight: 1
    min_waiting_time: 0
    requests: ["badpre"]
`, 1)
			y = strings.Replace(y, `  - name: "s"
    weight: 1`, `  - name: "s"
    weight: 3`, 1)
		}
		_ = vkit.WriteMemAt(base+".yaml", []byte(y))
		cleanup = append(cleanup, base+".csv", base+".yaml")
		ammo = map[string]any{"type": "grpc/scenario", "file": base + ".yaml"}
	}
	gunType := "grpc"
	if scn {
		gunType = "grpc/scenario"
	}
	if strings.Contains(k.Name, "failing-steps") {
		var n atomic.Int64
		tgt.Status = func(rec *vkit.CallRec) (codes.Code, string) {
			if n.Add(1)%3 == 0 {
				return codes.Internal, "scripted failure"
			}
			return codes.OK, ""
		}
	}
	gun := map[string]any{"type": gunType, "target": tgt.Addr, "timeout": "5s"}
	if strings.Contains(k.Name, "shared-client") {
		gun["shared-client"] = map[string]any{"enabled": true, "client-number": 2}
	}
	gresult := map[string]any{"type": "discard"}
	if strings.Contains(k.Name, "phout") {
		pp := fmt.Sprintf("/c11/gout-%d.phout", time.Now().UnixNano())
		defer vkit.RemoveMem(pp)
		gresult = map[string]any{"type": "phout", "destination": pp, "id": true}
	}
	pool := poolMap(ammo, gun, gresult, k.Instances, k.Ms)
	if strings.Contains(k.Name, "discard-overflow") {
		// the first call of every instance stalls for 2.3 s, so the whole pool falls more than 2 s
		// behind a 400 rps profile: with discard_overflow the overdue requests are discarded (their
		// ammo goes back to the provider unfired) in between requests that are fired
		var n atomic.Int64
		inst := int64(k.Instances)
		tgt.Delay = func(*vkit.CallRec) time.Duration {
			if n.Add(1) <= inst {
				return 2300 * time.Millisecond
			}
			return 0
		}
		pool["rps"] = map[string]any{"type": "const", "ops": 400, "duration": fmt.Sprintf("%dms", k.Ms)}
		pool["discard_overflow"] = true
	}
	pools := []any{pool}
	if strings.Contains(k.Name, "answlog+two-pools") {
		// two independent pools of guns that each keep an answer log of their own: the guns of one
		// pool are created (warm-up gun, then one per instance) while those of the other are too
		for i, id := range []string{"p", "q"} {
			lp := filepath.Join(vkit.TmpDir(), fmt.Sprintf("c11-answ-%d-%s.log", time.Now().UnixNano(), id))
			defer os.Remove(lp)
			g := map[string]any{}
			for kk, vv := range gun {
				g[kk] = vv
			}
			g["answlog"] = map[string]any{"enabled": true, "path": lp, "filter": "all"}
			pm := poolMap(ammo, g, gresult, k.Instances, k.Ms)
			pm["id"] = id
			if i == 0 {
				pools = []any{pm}
			} else {
				pools = append(pools, pm)
			}
		}
	}
	ec, err := vkit.DecodePools(map[string]any{"pools": pools})
	if err != nil {
		res.Inconclusive(true, "%s: config rejected: %v", k.Name, err)
		return
	}
	h0, hashed := definitionsHash(ec.Pools[0].Provider)
	rr := runFor(ec, time.Duration(k.Ms)*time.Millisecond)
	judgeRun(res, k, rr)
	if hashed {
		if h1, _ := definitionsHash(ec.Pools[0].Provider); h1 != h0 {
			res.Violate("C11/"+k.Name+"/definitions-altered", "the call definitions shared by all instances (calls, metadata maps, payload templates, variable storage) hash differently after the run", k)
		}
		res.Count("definitions_hashed", 1)
	} else if scn {
		res.Inconclusive(true, "%s: provider has no shared definitions to hash", k.Name)
	}
	calls := tgt.Calls()
	bad := 0
	first := ""
	for _, c := range calls {
		mv := ""
		if v := c.MD.Get("vid"); len(v) > 0 {
			mv = v[0]
		}
		pv := ""
		switch r := c.Req.(type) {
		case *server.HelloRequest:
			pv = marker(r.Name)
		case *server.AuthRequest:
			pv = marker(r.Login)
		case *server.ListRequest:
			pv = fmt.Sprint(r.UserId)
			if tk := c.MD.Get("tok"); len(tk) == 0 || tk[0] != r.Token || r.Token != "tok-vid="+mv {
				bad++
				if first == "" {
					first = fmt.Sprintf("List call: metadata tok=%v payload token=%q metadata vid=%q", tk, r.Token, mv)
				}
				continue
			}
		}
		if mv == "" || mv != pv {
			bad++
			if first == "" {
				first = fmt.Sprintf("%s: metadata vid=%q, payload marker %q", c.Method, mv, pv)
			}
		}
	}
	if bad > 0 {
		res.Violate("C11/"+k.Name+"/incoherent-request", fmt.Sprintf("%d of %d calls carry metadata of another entry/shot than their payload, e.g. %s", bad, len(calls), first), k)
	}
	res.Count("requests_on_the_wire", int64(len(calls)))
	res.Eval(vkit.JSON(k), len(calls) > k.Instances)
}

func mockKind(res *vkit.Result, k Kind) {
	plan := vkit.NewGunPlan()
	plan.Closer = true
	plan.ShotDur = func(inst, shot, ammo int) time.Duration { return time.Duration((inst+shot)%3) * 50 * time.Microsecond }
	prov := &vkit.MockProvider{Items: -1, FailAfter: -1}
	aggr := &vkit.MockAggregator{FailAfter: -1}
	pool := engine.InstancePoolConfig{ID: "p", Provider: prov, Aggregator: aggr, NewGun: plan.NewGun,
		NewRPSSchedule: func() (core.Schedule, error) {
			return schedule.NewUnlimited(time.Duration(k.Ms) * time.Millisecond), nil
		},
		StartupSchedule: schedule.NewOnce(int64(k.Instances)), RPSPerInstance: k.Rep%2 == 1}
	rr := vkit.RunEngine(engine.Config{Pools: []engine.InstancePoolConfig{pool}}, nil, 60*time.Second)
	judgeRun(res, k, rr)
	for _, p := range plan.Problems {
		res.Violate("C11/mock/ownership", p, k)
	}
	for _, p := range prov.MisuseLog {
		res.Violate("C11/mock/ammo-misuse", p, k)
	}
	ids := map[int]int{}
	bound := 0
	for _, g := range plan.Guns {
		if g.Bound.Load() == 1 {
			bound++
			ids[g.InstanceID]++
		}
	}
	for id, n := range ids {
		if n != 1 {
			res.Violate("C11/mock/ownership", fmt.Sprintf("%d gun objects were bound for instance %d", n, id), k)
		}
	}
	if bound != k.Instances {
		res.Violate("C11/mock/ownership", fmt.Sprintf("%d instances, %d guns bound", k.Instances, bound), k)
	}
	// every shot of a gun ran in the goroutine of its instance
	byGun := map[int]map[int64]bool{}
	for _, s := range plan.Shots {
		if byGun[s.InstanceID] == nil {
			byGun[s.InstanceID] = map[int64]bool{}
		}
		byGun[s.InstanceID][s.Goid] = true
	}
	for id, gs := range byGun {
		if len(gs) != 1 {
			res.Violate("C11/mock/ownership", fmt.Sprintf("the gun of instance %d was fired from %d different goroutines", id, len(gs)), k)
		}
	}
	res.Count("mock_shots", plan.ShotCount())
	res.Eval(vkit.JSON(k), plan.ShotCount() > int64(k.Instances))
}

// firstUseKind: a pool's RPS schedule is shared by its instances and is never started
// explicitly — the first Next of whichever instance comes first starts it, and with instances
// released together those first calls overlap. Over many fresh schedules of every kind, 8
// goroutines make their first calls at once: nobody may panic, no token may be dated before
// the schedule existed, and the race detector watches the start-up state.
func firstUseKind(res *vkit.Result, k Kind) {
	specs := []vkit.SchedSpec{
		{Kind: "const", A: 1000, DurMs: 50}, {Kind: "line", A: 100, B: 2000, DurMs: 50}, {Kind: "once", N: 40},
		{Kind: "step", A: 100, B: 400, N: 100, DurMs: 10}, {Kind: "unlimited", DurMs: 20}, {Kind: "instance_step", A: 1, B: 5, N: 1, DurMs: 5},
		{Kind: "composite", Parts: []vkit.SchedSpec{{Kind: "once", N: 3}, {Kind: "const", A: 2000, DurMs: 20}, {Kind: "unlimited", DurMs: 5}}},
	}
	rounds := vkit.N(1500, 6000)
	const callers = 8
	type bad struct {
		spec vkit.SchedSpec
		msg  string
	}
	var mu sync.Mutex
	var bads []bad
	tokens := int64(0)
	for r := 0; r < rounds; r++ {
		spec := specs[r%len(specs)]
		t0 := time.Now()
		sch := spec.Build()
		start := make(chan struct{})
		var wg sync.WaitGroup
		for g := 0; g < callers; g++ {
			wg.Add(1)
			go func() {
				defer wg.Done()
				defer func() {
					if p := recover(); p != nil {
						mu.Lock()
						bads = append(bads, bad{spec, fmt.Sprintf("panic in the first calls: %v", p)})
						mu.Unlock()
					}
				}()
				<-start
				for i := 0; i < 3; i++ {
					_ = sch.Left()
					tx, ok := sch.Next()
					if tx.Before(t0) {
						mu.Lock()
						bads = append(bads, bad{spec, fmt.Sprintf("Next returned %v (ok=%v), before the schedule was created at %v", tx, ok, t0)})
						mu.Unlock()
					}
					if ok {
						atomic.AddInt64(&tokens, 1)
					}
				}
			}()
		}
		close(start)
		done := make(chan struct{})
		go func() { wg.Wait(); close(done) }()
		select {
		case <-done:
		case <-time.After(30 * time.Second):
			// callers of a schedule wait for nothing but each other: after a panic of one of them
			// (recorded above) a lock may stay held; without one the watchdog decides nothing
			mu.Lock()
			n := len(bads)
			mu.Unlock()
			if n == 0 {
				res.Inconclusive(false, "first-use callers of a %s schedule still blocked after 30 s", spec.Kind)
			}
			r = rounds
		}
	}
	mu.Lock()
	defer mu.Unlock()
	seen := map[string]bool{}
	for _, b := range bads {
		key := "C11/schedule/first-use/" + b.spec.Kind
		if !seen[key] {
			seen[key] = true
			res.Violate(key, b.msg, map[string]any{"kind": k, "schedule": b.spec, "callers": callers})
		}
	}
	res.Count("first_use_rounds", int64(rounds))
	res.Count("first_use_tokens", tokens)
	res.Eval(vkit.JSON(k), tokens > int64(rounds))
}

func child() {
	vkit.Fs()
	res := vkit.NewResult("")
	for i, raw := range vkit.ChildCases() {
		var k Kind
		_ = json.Unmarshal(raw, &k)
		vkit.LogCase(i)
		func() {
			defer func() {
				if r := recover(); r != nil {
					res.Violate("C11/"+k.Name+"/panic", fmt.Sprintf("panic escaped: %v", r), k)
				}
			}()
			switch {
			case k.Name == "schedule/first-use":
				firstUseKind(res, k)
			case k.Name == "mock/ownership":
				mockKind(res, k)
			case strings.HasPrefix(k.Name, "http/scenario"):
				httpScenarioKind(res, k)
			case strings.HasPrefix(k.Name, "grpc"):
				grpcKind(res, k)
			default:
				httpKind(res, k)
			}
		}()
	}
	res.ChildDone()
}

func main() {
	if vkit.IsChild() {
		child()
		return
	}
	res := vkit.NewResult("every supported pool kind {http × uri/uripost/raw/jsonline × preload × shared-client, connect, http/scenario (csv/json/variables sources, [next]/[rand]/[last], randInt/randString/uuid in variables, preprocessors and templates, all four postprocessors, text and html templaters), grpc/json (± shared client), grpc/scenario with templated metadata and preprocessors, phout aggregator with a composite shared schedule, mock pool for gun ownership} run with 8–16 concurrent instances under the race detector, one child process per kind and repetition; distinct = (kind, instances, repetition); non-trivial = more requests than instances reached the target")
	var cases []Kind
	reps := vkit.N(1, 3)
	ms := vkit.N(900, 3000)
	for rep := 0; rep < reps; rep++ {
		for i, kn := range kinds {
			inst := []int{8, 16, 12}[(i+rep)%3]
			kms := ms
			if strings.Contains(kn, "discard-overflow") && kms < 3500 {
				kms = 3500
			}
			cases = append(cases, Kind{Name: kn, Instances: inst, Ms: kms, Rep: rep})
		}
	}
	vkit.RunChildren(res, vkit.ChildSpec{Kind: "c11", Batches: vkit.Batches(cases, 1), Parallel: 4, Timeout: 10 * time.Minute, MemKB: 0,
		OnCrash: func(cr vkit.Crash) {
			var k Kind
			_ = json.Unmarshal(cr.Case, &k)
			key := "C11/" + k.Name + "/process-died"
			if strings.Contains(cr.Output, "fatal error: concurrent map") {
				key = "C11/" + k.Name + "/fatal-concurrent-map-access"
			}
			res.Violate(key, "the process died or hung while running this pool kind:\n"+cr.Output, k)
		}})
	vkit.CheckRaceLog(res, "C11")
	res.Set("pool_kinds", kinds)
	res.Sample(map[string]any{"case": cases[0]})
	res.Sample(map[string]any{"case": cases[7]})
	if res.Counter("requests_on_the_wire") < 2000 || res.Counter("definitions_hashed") < 4 {
		res.Inconclusive(true, "too little observed: %d requests on the wire, %d definition sets hashed", res.Counter("requests_on_the_wire"), res.Counter("definitions_hashed"))
	}
	res.Write()
}
