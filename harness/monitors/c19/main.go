// C19 — No response from the target can abort or crash the run.
//
// Fault enumeration over peer behaviours: a scripted raw-TCP HTTP peer (every behaviour is
// selected by the request path, so each request identifies the fault it got) and a recording
// gRPC server behind a chaos TCP proxy. Every gun kind is run through the real engine against
// every behaviour, bad requests interleaved with well-behaved ones. Oracle: Engine.Run = nil,
// one sample per request / executed step, bad exchanges carry the received status or a
// non-zero net code, the well-behaved requests that follow still succeed, nothing panics,
// hangs or kills the process (cases run in child processes).
package main

import (
	"bufio"
	"crypto/tls"
	"encoding/json"
	"fmt"
	"io"
	"log"
	"net"
	"net/http"
	"sort"
	"strconv"
	"strings"
	"sync"
	"sync/atomic"
	"time"

	server "github.com/yandex/pandora/examples/grpc/server"
	"google.golang.org/grpc/codes"

	"verif/harness/vkit"
)

// ---------------------------------------------------------------- scripted HTTP peer

const (
	expStatus = iota // a complete, valid header block with Status was sent: proto must be Status
	expFail          // the exchange cannot succeed: net code must be non-zero
	expEither        // transport-defined: proto = Status or a non-zero net code
)

type behaviour struct {
	Name   string
	Status int
	Exp    int
	// act writes the reply; it returns true when the connection can be kept alive
	act func(c net.Conn, variant string) bool
}

const goodJSON = `{"tok":"abc","n":5,"a":{"b":[1,2]},"ok":"ok ok"}`
const goodHTML = `<html><head><title>Tit ok</title></head><body><a href="/x">ok link</a><div class="data">d</div></body></html>`

func goodBody(variant string) string {
	if variant == "xpath" {
		return goodHTML
	}
	return goodJSON
}

func resp(status string, headers []string, body string) string {
	var b strings.Builder
	b.WriteString("HTTP/1.1 " + status + "\r\n")
	for _, h := range headers {
		b.WriteString(h + "\r\n")
	}
	b.WriteString("\r\n")
	b.WriteString(body)
	return b.String()
}

func full(status string, body string, extra ...string) string {
	h := append([]string{"Content-Length: " + strconv.Itoa(len(body)), "X-Tok: abcdef", "Content-Type: text/plain"}, extra...)
	hasN := false
	for _, e := range extra {
		hasN = hasN || strings.HasPrefix(e, "X-N:")
	}
	if !hasN {
		h = append(h, "X-N: 5", "X-M: 9")
	}
	return resp(status, h, body)
}

func w(c net.Conn, s string) { _, _ = io.WriteString(c, s) }

func rst(c net.Conn) {
	if tc, ok := c.(*net.TCPConn); ok {
		_ = tc.SetLinger(0)
	}
}

func statusB(code int, reason, body string) behaviour {
	return behaviour{Name: fmt.Sprintf("status-%d", code), Status: code, Exp: expStatus, act: func(c net.Conn, v string) bool {
		b := body
		if code == 204 || code == 304 {
			w(c, resp(fmt.Sprintf("%d %s", code, reason), []string{"X-Tok: abcdef"}, ""))
			return true
		}
		w(c, full(fmt.Sprintf("%d %s", code, reason), b))
		return true
	}}
}

var (
	big        = strings.Repeat("0123456789abcdef", 640*1024) // 10 MiB
	hugeHeader = "HTTP/1.1 200 OK\r\nX-Tok: " + strings.Repeat("h", 12<<20) + "\r\nContent-Length: 2\r\n\r\nok"
	manyOnce   sync.Once
	manyHdrs   map[string]string
)

func manyHeaders(v string) string {
	manyOnce.Do(func() {
		manyHdrs = map[string]string{}
		for _, vv := range []string{"plain", "header", "jsonpath", "xpath", "assert", "all", ""} {
			hs := []string{"Content-Length: " + strconv.Itoa(len(goodBody(vv))), "X-Tok: abcdef"}
			for i := 0; i < 5000; i++ {
				hs = append(hs, fmt.Sprintf("X-H-%d: v%d", i, i))
			}
			manyHdrs[vv] = resp("200 OK", hs, goodBody(vv))
		}
	})
	if s, ok := manyHdrs[v]; ok {
		return s
	}
	return manyHdrs[""]
}

func behaviours() []behaviour {
	bs := []behaviour{
		{Name: "good", Status: 200, Exp: expStatus, act: func(c net.Conn, v string) bool { w(c, full("200 OK", goodBody(v))); return true }},
		statusB(200, "OK", ""), statusB(201, "Created", "x"), statusB(204, "No Content", ""), statusB(301, "Moved", "moved"),
		statusB(304, "Not Modified", ""), statusB(400, "Bad Request", "bad"), statusB(404, "Not Found", "nf"), statusB(418, "Teapot", "t"),
		statusB(429, "Too Many", "slow down"), statusB(500, "Internal", "boom"), statusB(503, "Unavailable", "u"), statusB(599, "Weird", "w"),
		statusB(999, "Very Weird", "vw"),
		{Name: "redirect-loop", Status: 302, Exp: expStatus, act: func(c net.Conn, v string) bool {
			w(c, resp("302 Found", []string{"Location: /loop", "Content-Length: 0"}, ""))
			return true
		}},
		{Name: "no-reason-phrase", Status: 200, Exp: expEither, act: func(c net.Conn, v string) bool {
			w(c, "HTTP/1.1 200\r\nContent-Length: 2\r\n\r\nok")
			return false
		}},
		{Name: "unsolicited-100-continue", Status: 200, Exp: expStatus, act: func(c net.Conn, v string) bool {
			w(c, "HTTP/1.1 100 Continue\r\n\r\n"+full("200 OK", goodBody(v)))
			return true
		}},
		{Name: "switching-protocols-101", Status: 101, Exp: expEither, act: func(c net.Conn, v string) bool {
			w(c, "HTTP/1.1 101 Switching Protocols\r\nUpgrade: foo\r\nConnection: Upgrade\r\n\r\nraw bytes follow")
			return false
		}},
		{Name: "huge-body-10MiB", Status: 200, Exp: expStatus, act: func(c net.Conn, v string) bool {
			w(c, resp("200 OK", []string{"Content-Length: " + strconv.Itoa(len(big)), "X-Tok: abcdef"}, ""))
			w(c, big)
			return true
		}},
		{Name: "no-content-length-close", Status: 200, Exp: expStatus, act: func(c net.Conn, v string) bool {
			w(c, resp("200 OK", []string{"X-Tok: abcdef"}, goodBody(v)))
			return false
		}},
		{Name: "chunked-ok", Status: 200, Exp: expStatus, act: func(c net.Conn, v string) bool {
			w(c, resp("200 OK", []string{"Transfer-Encoding: chunked", "X-Tok: abcdef"}, "5\r\nhello\r\n0\r\n\r\n"))
			return true
		}},
		{Name: "chunked-with-trailer", Status: 200, Exp: expStatus, act: func(c net.Conn, v string) bool {
			w(c, resp("200 OK", []string{"Transfer-Encoding: chunked", "Trailer: X-T", "X-Tok: abcdef"}, "5\r\nhello\r\n0\r\nX-T: v\r\n\r\n"))
			return true
		}},
		{Name: "chunked-bad-size", Status: 200, Exp: expEither, act: func(c net.Conn, v string) bool {
			w(c, resp("200 OK", []string{"Transfer-Encoding: chunked", "X-Tok: abcdef"}, "ZZZ\r\nhello\r\n0\r\n\r\n"))
			return false
		}},
		{Name: "chunked-truncated", Status: 200, Exp: expEither, act: func(c net.Conn, v string) bool {
			w(c, resp("200 OK", []string{"Transfer-Encoding: chunked", "X-Tok: abcdef"}, "64\r\nonly ten b"))
			return false
		}},
		{Name: "short-body", Status: 200, Exp: expEither, act: func(c net.Conn, v string) bool {
			w(c, resp("200 OK", []string{"Content-Length: 100", "X-Tok: abcdef"}, "only ten b"))
			return false
		}},
		{Name: "content-length-2^62-then-close", Status: 200, Exp: expEither, act: func(c net.Conn, v string) bool {
			w(c, resp("200 OK", []string{"Content-Length: 4611686018427387904", "X-Tok: abcdef"}, "only ten b"))
			return false
		}},
		{Name: "content-length-maxint64-then-close", Status: 200, Exp: expEither, act: func(c net.Conn, v string) bool {
			w(c, resp("200 OK", []string{"Content-Length: 9223372036854775807", "X-Tok: abcdef"}, goodBody(v)))
			return false
		}},
		{Name: "content-length-1TiB-then-close", Status: 200, Exp: expEither, act: func(c net.Conn, v string) bool {
			w(c, resp("200 OK", []string{"Content-Length: 1099511627776", "X-Tok: abcdef"}, goodBody(v)))
			return false
		}},
		{Name: "content-length-overflows-int64", Exp: expFail, act: func(c net.Conn, v string) bool {
			w(c, resp("200 OK", []string{"Content-Length: 99999999999999999999999"}, "hello"))
			return false
		}},
		{Name: "content-length-negative", Exp: expFail, act: func(c net.Conn, v string) bool {
			w(c, resp("200 OK", []string{"Content-Length: -5"}, "hello"))
			return false
		}},
		{Name: "content-length-conflict", Exp: expFail, act: func(c net.Conn, v string) bool {
			w(c, resp("200 OK", []string{"Content-Length: 5", "Content-Length: 7"}, "hello12"))
			return false
		}},
		{Name: "content-length-garbage", Exp: expFail, act: func(c net.Conn, v string) bool {
			w(c, resp("200 OK", []string{"Content-Length: abc"}, "hello"))
			return false
		}},
		{Name: "bad-status-line", Exp: expFail, act: func(c net.Conn, v string) bool { w(c, "HTTP/1.1 abc nope\r\n\r\n"); return false }},
		{Name: "not-http-at-all", Exp: expFail, act: func(c net.Conn, v string) bool {
			w(c, "SSH-2.0-OpenSSH_8.9\r\n\x00\x01\x02garbage\r\n\r\n")
			return false
		}},
		{Name: "binary-garbage", Exp: expFail, act: func(c net.Conn, v string) bool {
			w(c, string([]byte{0, 1, 2, 3, 255, 254, 253, '\r', '\n', '\r', '\n', 0, 0, 0}))
			return false
		}},
		{Name: "http-9.9", Status: 200, Exp: expEither, act: func(c net.Conn, v string) bool {
			w(c, "HTTP/9.9 200 OK\r\nContent-Length: 2\r\n\r\nok")
			return false
		}},
		{Name: "close-without-reply", Exp: expFail, act: func(c net.Conn, v string) bool { return false }},
		{Name: "close-inside-status-line", Exp: expFail, act: func(c net.Conn, v string) bool { w(c, "HTTP/1."); return false }},
		{Name: "close-inside-headers", Exp: expFail, act: func(c net.Conn, v string) bool { w(c, "HTTP/1.1 200 OK\r\nContent-Le"); return false }},
		{Name: "rst-after-request", Exp: expFail, act: func(c net.Conn, v string) bool { rst(c); return false }},
		{Name: "rst-inside-body", Status: 200, Exp: expEither, act: func(c net.Conn, v string) bool {
			w(c, resp("200 OK", []string{"Content-Length: 100000", "X-Tok: abcdef"}, strings.Repeat("x", 1000)))
			time.Sleep(20 * time.Millisecond)
			rst(c)
			return false
		}},
		{Name: "header-without-colon", Exp: expFail, act: func(c net.Conn, v string) bool {
			w(c, "HTTP/1.1 200 OK\r\nThisIsNotAHeader\r\nContent-Length: 2\r\n\r\nok")
			return false
		}},
		{Name: "header-with-nul", Status: 200, Exp: expEither, act: func(c net.Conn, v string) bool {
			w(c, "HTTP/1.1 200 OK\r\nX-Tok: a\x00b\r\nContent-Length: 2\r\n\r\nok")
			return false
		}},
		{Name: "header-12MiB", Exp: expFail, act: func(c net.Conn, v string) bool {
			w(c, hugeHeader)
			return false
		}},
		{Name: "five-thousand-headers", Status: 200, Exp: expStatus, act: func(c net.Conn, v string) bool {
			w(c, manyHeaders(v))
			return true
		}},
		{Name: "stall-before-headers", Exp: expFail, act: func(c net.Conn, v string) bool { time.Sleep(2500 * time.Millisecond); return false }},
		{Name: "stall-inside-body", Status: 200, Exp: expEither, act: func(c net.Conn, v string) bool {
			w(c, resp("200 OK", []string{"Content-Length: 50", "X-Tok: abcdef"}, "first half "))
			time.Sleep(400 * time.Millisecond)
			return false
		}},
		{Name: "trickle-body", Status: 200, Exp: expStatus, act: func(c net.Conn, v string) bool {
			w(c, resp("200 OK", []string{"Content-Length: 8", "X-Tok: abcdef"}, ""))
			for i := 0; i < 8; i++ {
				w(c, "x")
				time.Sleep(15 * time.Millisecond)
			}
			return true
		}},
		{Name: "gzip-header-garbage-body", Status: 200, Exp: expEither, act: func(c net.Conn, v string) bool {
			w(c, full("200 OK", "this is not gzip at all", "Content-Encoding: gzip"))
			return false
		}},
		{Name: "two-responses-for-one-request", Status: 200, Exp: expStatus, act: func(c net.Conn, v string) bool {
			w(c, full("200 OK", goodBody(v))+full("500 Extra", "unsolicited"))
			return false
		}},
		{Name: "json-truncated", Status: 200, Exp: expStatus, act: func(c net.Conn, v string) bool { w(c, full("200 OK", `{"tok": "ab`)); return true }},
		{Name: "json-wrong-shape-array", Status: 200, Exp: expStatus, act: func(c net.Conn, v string) bool { w(c, full("200 OK", `[1,2,3]`)); return true }},
		{Name: "json-null", Status: 200, Exp: expStatus, act: func(c net.Conn, v string) bool { w(c, full("200 OK", `null`)); return true }},
		{Name: "json-nested-types", Status: 200, Exp: expStatus, act: func(c net.Conn, v string) bool {
			w(c, full("200 OK", `{"tok":{"deep":[1,{"x":null}]},"n":"str","a":{"b":"notarray"}}`))
			return true
		}},
		{Name: "json-deep-nesting", Status: 200, Exp: expStatus, act: func(c net.Conn, v string) bool {
			w(c, full("200 OK", strings.Repeat("[", 20000)+strings.Repeat("]", 20000)))
			return true
		}},
		{Name: "html-garbage", Status: 200, Exp: expStatus, act: func(c net.Conn, v string) bool {
			w(c, full("200 OK", "<<<a href=>>></b></i><title><a><html>&&&;\x00\xff"))
			return true
		}},
		{Name: "html-deep-nesting", Status: 200, Exp: expStatus, act: func(c net.Conn, v string) bool {
			w(c, full("200 OK", strings.Repeat("<div>", 5000)))
			return true
		}},
		{Name: "body-empty", Status: 200, Exp: expStatus, act: func(c net.Conn, v string) bool { w(c, full("200 OK", "")); return true }},
		{Name: "body-invalid-utf8", Status: 200, Exp: expStatus, act: func(c net.Conn, v string) bool {
			w(c, full("200 OK", "\xff\xfe\x00\x00\xc3\x28 ok"))
			return true
		}},
		{Name: "header-value-short", Status: 200, Exp: expStatus, act: func(c net.Conn, v string) bool {
			w(c, resp("200 OK", []string{"Content-Length: " + strconv.Itoa(len(goodBody(v))), "X-Tok: a"}, goodBody(v)))
			return true
		}},
		{Name: "header-value-empty", Status: 200, Exp: expStatus, act: func(c net.Conn, v string) bool {
			w(c, resp("200 OK", []string{"Content-Length: " + strconv.Itoa(len(goodBody(v))), "X-Tok:"}, goodBody(v)))
			return true
		}},
		{Name: "header-missing", Status: 200, Exp: expStatus, act: func(c net.Conn, v string) bool {
			w(c, resp("200 OK", []string{"Content-Length: " + strconv.Itoa(len(goodBody(v)))}, goodBody(v)))
			return true
		}},
		{Name: "header-value-multibyte", Status: 200, Exp: expStatus, act: func(c net.Conn, v string) bool {
			w(c, resp("200 OK", []string{"Content-Length: " + strconv.Itoa(len(goodBody(v))), "X-Tok: \xd0\xb6\xd0"}, goodBody(v)))
			return true
		}},
		{Name: "header-repeated", Status: 200, Exp: expStatus, act: func(c net.Conn, v string) bool {
			w(c, resp("200 OK", []string{"Content-Length: " + strconv.Itoa(len(goodBody(v))), "X-Tok: a", "X-Tok: bcdefgh", "X-Tok: "}, goodBody(v)))
			return true
		}},
	}
	// a number in a header that a later step hands to randString / randInt
	var nn []string
	for name := range hostileNumbers {
		nn = append(nn, name)
	}
	sort.Strings(nn)
	for _, name := range nn {
		name := name
		v := hostileNumbers[name]
		bs = append(bs, behaviour{Name: "n-" + name, Status: 200, Exp: expStatus, act: func(c net.Conn, variant string) bool {
			// X-M: the other bound a later step's preprocessor hands to randInt together with X-N —
			// the same value (an empty range), or the far end of the int64 range (a span that does not fit)
			m := v
			switch name {
			case "maxint", "neg", "zero", "big":
				m = "-9223372036854775808"
			case "minint", "mega":
				m = "9223372036854775807"
			}
			w(c, full("200 OK", goodBody(variant), "X-N: "+v, "X-M: "+m))
			return true
		}})
	}
	return bs
}

var hostileNumbers = map[string]string{"zero": "0", "neg": "-1", "word": "abc", "empty": "", "float": "1e9", "over": "99999999999999999999",
	"maxint": "9223372036854775807", "minint": "-9223372036854775808", "big": "3000000000", "mega": "1000000", "spaces": " 7 "}

type peer struct {
	rt    *vkit.RawTarget
	byKey map[string]behaviour
	mu    sync.Mutex
	seen  map[string]int // path → count
}

func newPeer() (*peer, error) {
	p := &peer{byKey: map[string]behaviour{}, seen: map[string]int{}}
	for _, b := range behaviours() {
		p.byKey[b.Name] = b
	}
	rt, err := vkit.NewRawTarget(p.serve)
	if err != nil {
		return nil, err
	}
	p.rt = rt
	return p, nil
}

// serve handles one connection: request by request, the behaviour is chosen by the path
// /k/<behaviour>/<variant>/<n>.
func (p *peer) serve(c net.Conn, _ int64) {
	br := bufio.NewReader(c)
	for {
		_ = c.SetReadDeadline(time.Now().Add(30 * time.Second))
		req, err := http.ReadRequest(br)
		if err != nil {
			return
		}
		_, _ = io.Copy(io.Discard, req.Body)
		if req.Method == http.MethodConnect {
			w(c, "HTTP/1.1 200 OK\r\n\r\n")
			continue
		}
		p.mu.Lock()
		p.seen[req.URL.Path]++
		p.mu.Unlock()
		parts := strings.Split(strings.Trim(req.URL.Path, "/"), "/")
		name, variant := "good", ""
		if len(parts) >= 3 && parts[0] == "k" {
			name, variant = parts[1], parts[2]
		}
		if body, isList := listShapes[strings.TrimPrefix(name, "list-")]; isList && strings.HasPrefix(name, "list-") {
			w(c, full("200 OK", body))
			continue
		}
		b, ok := p.byKey[name]
		if !ok {
			b = p.byKey["good"]
		}
		if !b.act(c, variant) {
			return
		}
	}
}

// ---------------------------------------------------------------- cases

type Case struct {
	Gun       string `json:"gun"`     // http connect http/scenario grpc grpc/scenario
	Variant   string `json:"variant"` // scenario: postprocessor set
	Behaviour string `json:"behaviour"`
	Instances int    `json:"instances"`
	Rounds    int    `json:"rounds"` // bad/good pairs
	NoKeep    bool   `json:"disable_keep_alives"`
	Trace     bool   `json:"httptrace_dump_and_trace,omitempty"`
}

// headerTimeout: the client-side timer is the only wall-clock deadline in a case. It is
// generous (30 s) so that machine load cannot flip a verdict, except for the one behaviour
// whose point is the timeout itself; there the well-behaved followers are not judged.
func headerTimeout(c Case) string {
	if timingCase(c) {
		return "300ms"
	}
	return "30s"
}

func timingCase(c Case) bool { return c.Behaviour == "stall-before-headers" }

func key(c Case, what string) string {
	k := "C19/" + c.Gun
	if c.Variant != "" {
		k += "/" + c.Variant
	}
	return k + "/" + c.Behaviour + "/" + what
}

func runPool(pool map[string]any, watchdog time.Duration) ([]vkit.SampleRec, vkit.RunResult, error) {
	ec, err := vkit.DecodePools(map[string]any{"pools": []any{pool}})
	if err != nil {
		return nil, vkit.RunResult{}, err
	}
	aggr := &vkit.MockAggregator{}
	ec.Pools[0].Aggregator = aggr
	rr := vkit.RunEngine(ec, nil, watchdog)
	return aggr.Snapshot(), rr, nil
}

func poolConf(ammo, gun map[string]any, instances int) map[string]any {
	return map[string]any{"id": "p", "ammo": ammo, "result": map[string]any{"type": "discard"}, "gun": gun,
		"rps": map[string]any{"type": "const", "ops": 500, "duration": "120s"}, "startup": map[string]any{"type": "once", "times": instances}}
}

func judgeBad(res *vkit.Result, c Case, b behaviour, s vkit.SampleRec) {
	switch b.Exp {
	case expStatus:
		if s.Proto != b.Status {
			res.Violate(key(c, "status-not-reported"), fmt.Sprintf("the peer sent a complete response with status %d, the sample has proto %d net %d (%s)", b.Status, s.Proto, s.Net, s.Err), c)
		}
	case expFail:
		if s.Net == 0 {
			res.Violate(key(c, "failure-not-reported"), fmt.Sprintf("the exchange could not succeed, the sample has net code 0 (proto %d)", s.Proto), c)
		}
	case expEither:
		if s.Net == 0 && s.Proto != b.Status {
			res.Violate(key(c, "neither-status-nor-failure"), fmt.Sprintf("sample has proto %d net 0; want status %d or a failure", s.Proto, b.Status), c)
		}
	}
}

func httpCase(res *vkit.Result, p *peer, c Case) {
	b := p.byKey[c.Behaviour]
	var sb strings.Builder
	n := 0
	for r := 0; r < c.Rounds; r++ {
		fmt.Fprintf(&sb, "/k/%s/plain/%d bad\n", c.Behaviour, n)
		n++
		fmt.Fprintf(&sb, "/k/good/plain/%d good\n", n)
		n++
	}
	path := vkit.WriteMem([]byte(sb.String()))
	defer vkit.RemoveMem(path)
	gun := map[string]any{"type": c.Gun, "target": p.rt.Addr, "response-header-timeout": headerTimeout(c),
		"dial": map[string]any{"timeout": "10s"}, "disable-keep-alives": c.NoKeep}
	if c.Trace {
		gun["httptrace"] = map[string]any{"dump": true, "trace": true}
	}
	samples, rr, err := runPool(poolConf(map[string]any{"type": "uri", "file": path, "passes": 1}, gun, c.Instances), 240*time.Second)
	if err != nil {
		res.Inconclusive(true, "pool config rejected: %v", err)
		return
	}
	if rr.Hang || rr.WaitHang {
		res.Violate(key(c, "hang"), "the run did not end within 240 s:\n"+rr.Stacks, c)
		return
	}
	if rr.Err != nil {
		res.Violate(key(c, "run-aborted"), fmt.Sprintf("Engine.Run returned %v", rr.Err), c)
		return
	}
	if len(samples) != n {
		res.Violate(key(c, "sample-count"), fmt.Sprintf("%d requests in the ammo file, %d samples reported", n, len(samples)), c)
	}
	good := 0
	for _, s := range samples {
		switch s.Tags {
		case "good":
			good++
			if (s.Proto != 200 || s.Net != 0) && !timingCase(c) {
				res.Violate(key(c, "next-request-affected"), fmt.Sprintf("a well-behaved request fired after the bad exchange failed: proto %d net %d (%s)", s.Proto, s.Net, s.Err), c)
			}
		case "bad":
			judgeBad(res, c, b, s)
		default:
			res.Violate(key(c, "tag"), fmt.Sprintf("unexpected sample tag %q", s.Tags), c)
		}
	}
	res.Count("http_samples", int64(len(samples)))
	res.Count("good_followers_ok", int64(good))
	res.Eval(vkit.JSON(c), c.Behaviour != "good")
}

var variants = map[string]string{
	"header": `      - type: "var/header"
        mapping: {"h1": "X-Tok", "h2": "X-Tok|substr(1,3)", "h3": "X-Tok|upper|substr(4)", "h4": "X-Missing|lower|replace(a,b)", "h5": "X-Tok|substr(2,100)", "h6": "X-Tok|substr(-10,-8)", "h7": "X-Tok|substr(-2)", "h8": "X-Tok|substr(3,-100)"}
`,
	"jsonpath": `      - type: "var/jsonpath"
        mapping: {"tok": "$.tok", "n": "$.n", "deep": "$.a.b[1]"}
`,
	"xpath": `      - type: "var/xpath"
        mapping: {"href": "//a/@href", "t": "//title", "d": "//div[@class='data']"}
`,
	"assert": `      - type: "assert/response"
        headers: {"X-Tok": "abc"}
        body: ["ok"]
        status_code: 200
        size: {val: 5, op: ">"}
`,
	"funcs": `      - type: "var/header"
        mapping: {"n": "X-N", "m": "X-M"}
`,
	"all": `      - type: "var/header"
        mapping: {"h2": "X-Tok|substr(1,3)"}
      - type: "var/jsonpath"
        mapping: {"tok": "$.tok"}
      - type: "assert/response"
        body: ["ok"]
        status_code: 200
`,
}

var usePost = map[string]string{"header": "{{.request.probe.postprocessor.h2}}", "jsonpath": "{{.request.probe.postprocessor.tok}}",
	"funcs": `{{randString .request.probe.postprocessor.n \"ab\"}}-{{randInt .request.probe.postprocessor.n}}-{{randInt .request.probe.postprocessor.n 5}}-{{randInt 5 .request.probe.postprocessor.n}}`,
	"xpath": "x", "assert": "x", "all": "{{.request.probe.postprocessor.tok}}{{.request.probe.postprocessor.h2}}"}

// postPre: in the funcs variant the last step also has a preprocessor that calls the functions
// directly (not from a template) with both numbers taken from the probe's response.
var postPre = map[string]string{"funcs": `    preprocessor:
      mapping: {"r": "randInt(request.probe.postprocessor.n, request.probe.postprocessor.m)", "q": "randInt(request.probe.postprocessor.m)", "s": "randString(request.probe.postprocessor.m, xy)"}
`}

func scenarioCase(res *vkit.Result, p *peer, c Case) {
	b := p.byKey[c.Behaviour]
	base := vkit.WriteMem(nil)
	vkit.RemoveMem(base)
	csv := base + ".csv"
	var rows strings.Builder
	shots := 2 * c.Rounds
	for r := 0; r < c.Rounds; r++ {
		fmt.Fprintf(&rows, "%d,%s\n%d,good\n", 2*r, c.Behaviour, 2*r+1)
	}
	_ = vkit.WriteMemAt(csv, []byte(rows.String()))
	defer vkit.RemoveMem(csv)
	yaml := `variable_sources:
  - type: "file/csv"
    name: "rows"
    file: "` + csv + `"
    fields: ["id", "kind"]
requests:
  - name: "pre"
    method: "GET"
    uri: "/k/good/` + c.Variant + `/pre"
    headers: {}
  - name: "probe"
    method: "GET"
    uri: "/k/{{.request.probe.preprocessor.kind}}/` + c.Variant + `/probe"
    headers: {}
    preprocessor:
      mapping: {"kind": "source.rows[next].kind"}
    postprocessors:
` + variants[c.Variant] + `  - name: "post"
    method: "GET"
    uri: "/k/good/` + c.Variant + `/post-` + usePost[c.Variant] + `"
    headers: {}
` + postPre[c.Variant] + `scenarios:
  - name: "scn"
    weight: 1
    min_waiting_time: 0
    requests: ["pre", "probe", "post"]
`
	sp := base + ".yaml"
	_ = vkit.WriteMemAt(sp, []byte(yaml))
	defer vkit.RemoveMem(sp)
	gun := map[string]any{"type": c.Gun, "target": p.rt.Addr, "response-header-timeout": headerTimeout(c), "dial": map[string]any{"timeout": "10s"}}
	if c.Trace {
		gun["httptrace"] = map[string]any{"dump": true, "trace": true}
	}
	samples, rr, err := runPool(poolConf(map[string]any{"type": "http/scenario", "file": sp, "limit": shots}, gun, c.Instances), 240*time.Second)
	if err != nil {
		res.Inconclusive(true, "scenario pool rejected: %v", err)
		return
	}
	if rr.Hang || rr.WaitHang {
		res.Violate(key(c, "hang"), "the run did not end within 240 s:\n"+rr.Stacks, c)
		return
	}
	if rr.Err != nil {
		res.Violate(key(c, "run-aborted"), fmt.Sprintf("Engine.Run returned %v", rr.Err), c)
		return
	}
	cnt := map[string]int{}
	okc := map[string]int{}
	for _, s := range samples {
		step := strings.Split(s.Tags, "|")[0]
		cnt[step]++
		if s.Net == 0 && s.Proto != 0 {
			okc[step]++
		}
		if step == "scn.probe" && s.Net == 0 && s.Proto == 0 {
			res.Violate(key(c, "failure-not-reported"), fmt.Sprintf("probe step sample carries neither a status nor a failure: %+v", s), c)
		}
	}
	if timingCase(c) {
		// only counts are judged: with a 300 ms client timer a loaded machine may time out good steps too
		if cnt["scn.pre"] != shots {
			res.Violate(key(c, "next-shot-affected"), fmt.Sprintf("%d shots, first step reported %d times", shots, cnt["scn.pre"]), c)
		}
		res.Count("scenario_samples", int64(len(samples)))
		res.Eval(vkit.JSON(c), true)
		return
	}
	if cnt["scn.pre"] != shots || okc["scn.pre"] != shots {
		res.Violate(key(c, "next-shot-affected"), fmt.Sprintf("%d shots: the first step of every shot must run and succeed, got %d samples of it, %d ok (all steps: %v)", shots, cnt["scn.pre"], okc["scn.pre"], cnt), c)
	}
	if cnt["scn.probe"] != shots {
		res.Violate(key(c, "sample-count"), fmt.Sprintf("%d shots, %d samples of the probe step", shots, cnt["scn.probe"]), c)
	}
	if okc["scn.probe"] < c.Rounds || okc["scn.post"] < c.Rounds {
		var d []string
		for _, s := range samples {
			d = append(d, fmt.Sprintf("%s proto=%d net=%d %s", s.Tags, s.Proto, s.Net, s.Err))
		}
		res.Violate(key(c, "good-shot-affected"), fmt.Sprintf("%d of the shots got only well-behaved responses, yet probe succeeded %d times and the last step %d times; samples: %s", c.Rounds, okc["scn.probe"], okc["scn.post"], strings.Join(d, " ; ")), c)
	}
	_ = b
	res.Count("scenario_samples", int64(len(samples)))
	res.Count("scenario_probe_failed", int64(cnt["scn.probe"]-okc["scn.probe"]))
	res.Eval(vkit.JSON(c), c.Behaviour != "good")
}

// ---------------------------------------------------------------- responses arriving all at once

// burstTarget holds every request until `want` of them are waiting (or 300 ms have passed since
// the first), then answers them all at the same moment: every instance of the pool is handed its
// response — and runs its postprocessors — simultaneously, round after round.
type burstTarget struct {
	mu      sync.Mutex
	want    int
	waiting int
	gate    chan struct{}
	served  atomic.Int64
}

func (b *burstTarget) ServeHTTP(w http.ResponseWriter, r *http.Request) {
	b.mu.Lock()
	if b.gate == nil {
		b.gate = make(chan struct{})
		g := b.gate
		time.AfterFunc(300*time.Millisecond, func() {
			b.mu.Lock()
			if b.gate == g {
				close(g)
				b.gate, b.waiting = nil, 0
			}
			b.mu.Unlock()
		})
	}
	g := b.gate
	b.waiting++
	if b.waiting >= b.want {
		close(g)
		b.gate, b.waiting = nil, 0
	}
	b.mu.Unlock()
	<-g
	b.served.Add(1)
	w.Header().Set("X-Tok", "abcdefgh")
	if strings.HasSuffix(r.URL.Path, "/json") {
		w.Header().Set("Content-Type", "application/json")
		_, _ = io.WriteString(w, `{"tok":"t1","n":5,"a":{"b":[1,2]},"ok":true}`)
		return
	}
	w.Header().Set("Content-Type", "text/html")
	var sb strings.Builder
	sb.WriteString("<html><head><title>ok</title></head><body>")
	for i := 0; i < 16; i++ {
		fmt.Fprintf(&sb, `<div class="d%d"><a href="/l%d">ok %d</a></div>`, i, i, i)
	}
	sb.WriteString("</body></html>")
	_, _ = io.WriteString(w, sb.String())
}

// burstCase: nothing in the responses is wrong; what is hostile is their timing. Many instances,
// every postprocessor kind with many mappings, and all the responses of a round arriving at one
// moment. The run must end without an error with one ok sample per step (and the process must
// survive, which the parent sees).
func burstCase(res *vkit.Result, c Case) {
	bt := &burstTarget{want: c.Instances}
	ln, err := net.Listen("tcp", "127.0.0.1:0")
	if err != nil {
		res.Inconclusive(true, "listen: %v", err)
		return
	}
	srv := &http.Server{Handler: bt, ErrorLog: log.New(io.Discard, "", 0)}
	go func() { _ = srv.Serve(ln) }()
	defer srv.Close()
	var xm, hm, jm []string
	for i := 0; i < 16; i++ {
		xm = append(xm, fmt.Sprintf(`"x%d": "//div[@class='d%d']/a/@href"`, i, i))
		hm = append(hm, fmt.Sprintf(`"h%d": "X-Tok|substr(%d)|upper"`, i, i%6))
		jm = append(jm, fmt.Sprintf(`"j%d": "$.a.b[%d]"`, i, i%2))
	}
	yaml := `requests:
  - name: "html"
    method: "GET"
    uri: "/burst/html"
    headers: {}
    postprocessors:
      - type: "var/xpath"
        mapping: {` + strings.Join(xm, ", ") + `}
      - type: "var/header"
        mapping: {` + strings.Join(hm, ", ") + `}
      - type: "assert/response"
        body: ["ok"]
        status_code: 200
  - name: "json"
    method: "GET"
    uri: "/burst/json"
    headers: {"X-From": "{{.request.html.postprocessor.x3}}-{{.request.html.postprocessor.h2}}"}
    postprocessors:
      - type: "var/jsonpath"
        mapping: {` + strings.Join(jm, ", ") + `, "tok": "$.tok"}
      - type: "var/header"
        mapping: {` + strings.Join(hm, ", ") + `}
scenarios:
  - name: "scn"
    weight: 1
    min_waiting_time: 0
    requests: ["html", "json"]
`
	base := vkit.WriteMem(nil)
	vkit.RemoveMem(base)
	sp := base + ".yaml"
	_ = vkit.WriteMemAt(sp, []byte(yaml))
	defer vkit.RemoveMem(sp)
	shots := c.Instances * c.Rounds
	gun := map[string]any{"type": "http/scenario", "target": ln.Addr().String()}
	pool := poolConf(map[string]any{"type": "http/scenario", "file": sp, "limit": shots}, gun, c.Instances)
	pool["rps"] = map[string]any{"type": "once", "times": shots}
	samples, rr, err := runPool(pool, 240*time.Second)
	if err != nil {
		res.Inconclusive(true, "burst pool rejected: %v", err)
		return
	}
	if rr.Hang || rr.WaitHang {
		res.Violate(key(c, "hang"), "the run did not end within 240 s:\n"+rr.Stacks, c)
		return
	}
	if rr.Err != nil {
		res.Violate(key(c, "run-aborted"), fmt.Sprintf("Engine.Run returned %v", rr.Err), c)
		return
	}
	ok := 0
	for _, s := range samples {
		if s.Net == 0 && s.Proto == 200 {
			ok++
		}
	}
	if len(samples) != 2*shots || ok != 2*shots {
		res.Violate(key(c, "good-shot-affected"), fmt.Sprintf("%d shots of two steps against a target that answers everything well: %d samples, %d of them ok", shots, len(samples), ok), c)
	}
	res.Count("scenario_samples", int64(len(samples)))
	res.Count("burst_rounds", int64(c.Rounds))
	res.Count("burst_responses", bt.served.Load())
	res.Eval(vkit.JSON(c), true)
}

// ---------------------------------------------------------------- lists of any length in responses

// listShapes: what the target may put where the scenario expects a list.
var listShapes = map[string]string{
	"0": `{"items":[]}`, "1": `{"items":["a"]}`, "2": `{"items":["a","b"]}`, "4": `{"items":["a","b","c","d"]}`,
	"str": `{"items":"abc"}`, "obj": `{"items":{"x":1}}`, "null": `{"items":null}`, "nested": `{"items":[["x"],[]]}`,
	"missing": `{"other":1}`, "mixed": `{"items":[1,2.5,true,null,{"k":[]}]}`,
}

var listShapeNames = []string{"4", "0", "1", "2", "str", "obj", "null", "nested", "missing", "mixed"}

// listIndexCase: a step takes element [idx] of a list captured from the previous response; the
// target answers with lists of every length (and with things that are not lists). Whatever the
// step makes of an index the response does not have, the run goes on: every shot starts, and
// the engine ends without an error.
func listIndexCase(res *vkit.Result, p *peer, c Case) {
	base := vkit.WriteMem(nil)
	vkit.RemoveMem(base)
	csv := base + ".csv"
	var rows strings.Builder
	shots := 0
	for r := 0; r < c.Rounds; r++ {
		for _, sh := range listShapeNames {
			fmt.Fprintf(&rows, "%d,list-%s\n", shots, sh)
			shots++
		}
	}
	_ = vkit.WriteMemAt(csv, []byte(rows.String()))
	defer vkit.RemoveMem(csv)
	yaml := `variable_sources:
  - type: "file/csv"
    name: "rows"
    file: "` + csv + `"
    fields: ["id", "kind"]
requests:
  - name: "pre"
    method: "GET"
    uri: "/k/good/plain/pre"
    headers: {}
  - name: "list"
    method: "GET"
    uri: "/k/{{.request.list.preprocessor.kind}}/plain/list"
    headers: {}
    preprocessor:
      mapping: {"kind": "source.rows[next].kind"}
    postprocessors:
      - type: "var/jsonpath"
        mapping: {"items": "$.items"}
  - name: "use"
    method: "GET"
    uri: "/k/good/plain/use-{{.request.use.preprocessor.item}}"
    headers: {}
    preprocessor:
      mapping: {"item": "request.list.postprocessor.items[` + c.Behaviour + `]"}
scenarios:
  - name: "scn"
    weight: 1
    min_waiting_time: 0
    requests: ["pre", "list", "use"]
`
	sp := base + ".yaml"
	_ = vkit.WriteMemAt(sp, []byte(yaml))
	defer vkit.RemoveMem(sp)
	gun := map[string]any{"type": "http/scenario", "target": p.rt.Addr, "dial": map[string]any{"timeout": "10s"}}
	samples, rr, err := runPool(poolConf(map[string]any{"type": "http/scenario", "file": sp, "limit": shots}, gun, c.Instances), 240*time.Second)
	if err != nil {
		res.Inconclusive(true, "list-index scenario pool rejected: %v", err)
		return
	}
	if rr.Hang || rr.WaitHang {
		res.Violate(key(c, "hang"), "the run did not end within 240 s:\n"+rr.Stacks, c)
		return
	}
	if rr.Err != nil {
		res.Violate(key(c, "run-aborted"), fmt.Sprintf("items[%s] over responses with lists of every length: Engine.Run returned %v", c.Behaviour, rr.Err), c)
		return
	}
	cnt := map[string]int{}
	okc := map[string]int{}
	for _, s := range samples {
		step := strings.Split(s.Tags, "|")[0]
		cnt[step]++
		if s.Net == 0 && s.Proto != 0 {
			okc[step]++
		}
	}
	if cnt["scn.pre"] != shots || okc["scn.pre"] != shots || cnt["scn.list"] != shots {
		res.Violate(key(c, "next-shot-affected"), fmt.Sprintf("%d shots: the first two steps of every shot must run, got %v (ok %v)", shots, cnt, okc), c)
	}
	// the 4-element list is long enough for every index form used here but 7/-7, which wrap around
	if okc["scn.use"] < c.Rounds {
		res.Violate(key(c, "good-shot-affected"), fmt.Sprintf("%d shots got a 4-element list, yet the step using items[%s] succeeded only %d times", c.Rounds, c.Behaviour, okc["scn.use"]), c)
	}
	res.Count("scenario_samples", int64(len(samples)))
	res.Count("list_index_shots", int64(shots))
	res.Eval(vkit.JSON(c), true)
}

// grpcWKTCase: methods whose response type is a protobuf well-known type (Empty, Timestamp,
// Duration, Struct, StringValue): a successful answer of such a method is an answer like any
// other — the call is reported and the run goes on with the next call.
func grpcWKTCase(res *vkit.Result, c Case) {
	tgt, err := vkit.NewGRPCTarget()
	if err != nil {
		res.Inconclusive(true, "grpc target: %v", err)
		return
	}
	defer tgt.Close()
	methods := []string{"Ping", "Now", "Took", "Info", "Name"}
	var ammo map[string]any
	total := 0
	if c.Gun == "grpc" {
		var b strings.Builder
		for r := 0; r < 3; r++ {
			for _, m := range methods {
				fmt.Fprintf(&b, `{"tag":"good","call":"target.TargetService.Hello","payload":{"name":"fine"}}`+"\n")
				fmt.Fprintf(&b, `{"tag":"wkt-%s","call":"verifwkt.Wkt.%s","payload":{}}`+"\n", m, m)
				total += 2
			}
		}
		path := vkit.WriteMem([]byte(b.String()))
		defer vkit.RemoveMem(path)
		ammo = map[string]any{"type": "grpc/json", "file": path, "passes": 1}
	} else {
		var calls, reqs strings.Builder
		calls.WriteString("  - name: \"hello\"\n    tag: \"hello\"\n    call: \"target.TargetService.Hello\"\n    payload: '{\"name\": \"fine\"}'\n")
		reqs.WriteString(`"hello"`)
		for _, m := range methods {
			fmt.Fprintf(&calls, "  - name: \"%s\"\n    tag: \"wkt-%s\"\n    call: \"verifwkt.Wkt.%s\"\n    payload: '{}'\n", strings.ToLower(m), m, m)
			fmt.Fprintf(&reqs, `, "%s", "hello"`, strings.ToLower(m))
		}
		yaml := "calls:\n" + calls.String() + "scenarios:\n  - name: \"scn\"\n    weight: 1\n    min_waiting_time: 0\n    requests: [" + reqs.String() + "]\n"
		base := vkit.WriteMem(nil)
		vkit.RemoveMem(base)
		sp := base + ".yaml"
		_ = vkit.WriteMemAt(sp, []byte(yaml))
		defer vkit.RemoveMem(sp)
		total = 4 * (1 + 2*len(methods))
		ammo = map[string]any{"type": "grpc/scenario", "file": sp, "limit": 4}
	}
	samples, rr, err := runPool(poolConf(ammo, map[string]any{"type": c.Gun, "target": tgt.Addr, "timeout": "5s"}, c.Instances), 120*time.Second)
	if err != nil {
		res.Inconclusive(true, "grpc wkt pool rejected: %v", err)
		return
	}
	if rr.Hang || rr.WaitHang {
		res.Violate(key(c, "hang"), "the run did not end within 120 s:\n"+rr.Stacks, c)
		return
	}
	if rr.Err != nil {
		res.Violate(key(c, "run-aborted"), fmt.Sprintf("methods answering with well-known types: Engine.Run returned %v", rr.Err), c)
		return
	}
	bad := map[string]int{}
	first := 0
	for _, s := range samples {
		if s.Proto != 200 {
			bad[strings.Split(s.Tags, "|")[0]]++
		}
		if strings.HasPrefix(s.Tags, "scn.hello") {
			first++
		}
	}
	// The plain gun makes one call per entry. A scenario may end early: the scenario gun turns every
	// response into a JSON object for later steps and gives the scenario up — after reporting the
	// step with its status — when the response is not an object (a Timestamp is a JSON string);
	// what this property asks is that the step is reported and the next shot starts.
	if len(bad) > 0 || (c.Gun == "grpc" && len(samples) != total) || (c.Gun != "grpc" && first < 4) {
		res.Violate(key(c, "sample-count"), fmt.Sprintf("%d calls, every one answered successfully by the target: %d samples (%d scenario shots started), not reported as 200: %v", total, len(samples), first, bad), c)
	}
	res.Count("grpc_samples", int64(len(samples)))
	res.Eval(vkit.JSON(c), true)
}

// ---------------------------------------------------------------- gRPC behind a chaos proxy

type chaosProxy struct {
	ln     net.Listener
	Addr   string
	target string
	mode   atomic.Int32 // 0 pass, 1 drop new+existing, 2 garble server→client, 3 blackhole
	mu     sync.Mutex
	conns  []net.Conn
}

func newChaosProxy(target string) (*chaosProxy, error) {
	ln, err := net.Listen("tcp", "127.0.0.1:0")
	if err != nil {
		return nil, err
	}
	p := &chaosProxy{ln: ln, Addr: ln.Addr().String(), target: target}
	go func() {
		for {
			c, err := ln.Accept()
			if err != nil {
				return
			}
			go p.handle(c)
		}
	}()
	return p, nil
}

func (p *chaosProxy) handle(c net.Conn) {
	if p.mode.Load() == 1 {
		rst(c)
		c.Close()
		return
	}
	up, err := net.Dial("tcp", p.target)
	if err != nil {
		c.Close()
		return
	}
	p.mu.Lock()
	p.conns = append(p.conns, c, up)
	p.mu.Unlock()
	go func() { _, _ = io.Copy(up, c); up.Close() }()
	buf := make([]byte, 32<<10)
	for {
		n, err := up.Read(buf)
		if n > 0 {
			switch p.mode.Load() {
			case 2:
				for i := 0; i < n; i++ {
					buf[i] ^= 0x5a
				}
				_, _ = c.Write(buf[:n])
			case 3:
				// swallow
			default:
				_, _ = c.Write(buf[:n])
			}
		}
		if err != nil {
			c.Close()
			return
		}
	}
}

func (p *chaosProxy) dropAll() {
	p.mu.Lock()
	for _, c := range p.conns {
		rst(c)
		c.Close()
	}
	p.conns = nil
	p.mu.Unlock()
}

func grpcCase(res *vkit.Result, c Case) {
	tgt, err := vkit.NewGRPCTarget()
	if err != nil {
		res.Inconclusive(true, "grpc target: %v", err)
		return
	}
	defer tgt.Close()
	tgt.Status = func(rec *vkit.CallRec) (codes.Code, string) {
		name := ""
		switch r := rec.Req.(type) {
		case *server.HelloRequest:
			name = r.Name
		case *server.AuthRequest:
			name = r.Login
		}
		if strings.HasPrefix(name, "code-") {
			n, _ := strconv.Atoi(strings.TrimPrefix(name, "code-"))
			return codes.Code(n), strings.Repeat("scripted \x00 message ", 50)
		}
		return codes.OK, ""
	}
	tgt.Delay = func(rec *vkit.CallRec) time.Duration {
		if r, ok := rec.Req.(*server.HelloRequest); ok && r.Name == "slow" {
			return 600 * time.Millisecond
		}
		return 0
	}
	proxy, err := newChaosProxy(tgt.Addr)
	if err != nil {
		res.Inconclusive(true, "proxy: %v", err)
		return
	}
	defer proxy.ln.Close()
	// refused-while-starting: the target refuses connections for a while during which the startup
	// profile is still adding instances; dead-target-live-reflection: the method list comes from a
	// live reflection port while the target port itself refuses every connection
	refusing := c.Behaviour == "refused-while-starting"
	dead := c.Behaviour == "dead-target-live-reflection"
	chaos := c.Behaviour == "chaos" || refusing || dead
	total := 0
	var ammo map[string]any
	var cleanup []string
	defer func() {
		for _, f := range cleanup {
			vkit.RemoveMem(f)
		}
	}()
	if c.Gun == "grpc" {
		var sb strings.Builder
		names := []string{}
		for code := 0; code <= 17; code++ {
			names = append(names, fmt.Sprintf("code-%d", code), "fine")
		}
		names = append(names, "code-99", "fine", "slow", "fine", "code--1", "fine")
		if chaos {
			names = nil
			for i := 0; i < map[bool]int{false: 600, true: 60}[dead]; i++ {
				names = append(names, "fine")
			}
		}
		for _, nm := range names {
			tag := "bad"
			if nm == "fine" {
				tag = "good"
			}
			fmt.Fprintf(&sb, `{"tag":"%s","call":"target.TargetService.Hello","payload":{"name":"%s"}}`+"\n", tag, nm)
			total++
		}
		path := vkit.WriteMem([]byte(sb.String()))
		cleanup = append(cleanup, path)
		ammo = map[string]any{"type": "grpc/json", "file": path, "passes": 1}
	} else {
		base := vkit.WriteMem(nil)
		vkit.RemoveMem(base)
		csv := base + ".csv"
		var rows strings.Builder
		shots := 0
		names := []string{"code-5", "fine", "code-13", "fine", "slow", "fine", "code-16", "fine", "code-99", "fine"}
		if chaos {
			names = nil
			for i := 0; i < map[bool]int{false: 300, true: 30}[dead]; i++ {
				names = append(names, "fine")
			}
		}
		for _, nm := range names {
			fmt.Fprintf(&rows, "%s\n", nm)
			shots++
		}
		_ = vkit.WriteMemAt(csv, []byte(rows.String()))
		yaml := `variable_sources:
  - type: "file/csv"
    name: "rows"
    file: "` + csv + `"
    fields: ["name"]
calls:
  - name: "pre"
    tag: "pre"
    call: "target.TargetService.Hello"
    payload: '{"name": "fine"}'
  - name: "probe"
    tag: "probe"
    call: "target.TargetService.Hello"
    preprocessors:
      - type: "prepare"
        mapping: {"nm": "source.rows[next].name"}
    payload: '{"name": "{{.request.probe.preprocessor.nm}}"}'
    postprocessors:
      - type: "assert/response"
        payload: ["Hello"]
        status_code: 200
scenarios:
  - name: "scn"
    weight: 1
    min_waiting_time: 0
    requests: ["pre", "probe"]
`
		sp := base + ".yaml"
		_ = vkit.WriteMemAt(sp, []byte(yaml))
		cleanup = append(cleanup, csv, sp)
		ammo = map[string]any{"type": "grpc/scenario", "file": sp, "limit": shots}
		total = shots
	}
	gun := map[string]any{"type": c.Gun, "target": proxy.Addr, "timeout": "300ms"}
	if dead {
		_, tport, _ := net.SplitHostPort(proxy.Addr)
		rp, _ := strconv.Atoi(tport)
		gun["target"], gun["reflect_port"] = vkit.ClosedPort(), rp
	}
	pool := poolConf(ammo, gun, c.Instances)
	if refusing {
		// one instance at once, the others over the next two seconds; connections are refused
		// (accepted and reset at once) from 0.3 s to 1.8 s
		pool["rps"] = map[string]any{"type": "const", "ops": 100, "duration": "120s"}
		pool["startup"] = []any{map[string]any{"type": "once", "times": 1}, map[string]any{"type": "const", "ops": 5, "duration": "2s"}}
		go func() {
			time.Sleep(300 * time.Millisecond)
			proxy.mode.Store(1)
			proxy.dropAll()
			time.Sleep(1500 * time.Millisecond)
			proxy.mode.Store(0)
		}()
	} else if dead {
		pool["rps"] = map[string]any{"type": "const", "ops": 100, "duration": "120s"}
	} else if chaos {
		pool["rps"] = map[string]any{"type": "const", "ops": 100, "duration": "120s"}
		go func() {
			time.Sleep(800 * time.Millisecond)
			proxy.mode.Store(2) // garble
			time.Sleep(300 * time.Millisecond)
			proxy.mode.Store(1) // refuse + reset
			proxy.dropAll()
			time.Sleep(300 * time.Millisecond)
			proxy.mode.Store(3) // blackhole
			time.Sleep(300 * time.Millisecond)
			proxy.dropAll()
			proxy.mode.Store(0)
		}()
	}
	samples, rr, err := runPool(pool, 120*time.Second)
	if err != nil {
		res.Inconclusive(true, "grpc pool rejected: %v", err)
		return
	}
	if rr.Hang || rr.WaitHang {
		res.Violate(key(c, "hang"), "the run did not end within 120 s:\n"+rr.Stacks, c)
		return
	}
	if rr.Err != nil {
		res.Violate(key(c, "run-aborted"), fmt.Sprintf("Engine.Run returned %v", rr.Err), c)
		return
	}
	if c.Gun == "grpc" {
		if len(samples) != total {
			res.Violate(key(c, "sample-count"), fmt.Sprintf("%d calls in the ammo, %d samples", total, len(samples)), c)
		}
		okAfter := 0
		for _, s := range samples {
			if s.Tags == "good" && !chaos && s.Proto != 200 {
				res.Violate(key(c, "next-request-affected"), fmt.Sprintf("a well-behaved call after an error status was reported with code %d", s.Proto), c)
			}
			if s.Tags == "bad" && s.Proto == 200 && !chaos {
				// code-0 is OK
				continue
			}
			if s.Proto == 200 {
				okAfter++
			}
		}
		if chaos && okAfter == 0 && !dead {
			res.Violate(key(c, "never-recovers"), "no call succeeded in a run with 1.2 s of connection chaos followed by seconds of normal service", c)
		}
	} else {
		cnt, okc := map[string]int{}, map[string]int{}
		for _, s := range samples {
			step := strings.Split(s.Tags, "|")[0]
			cnt[step]++
			if s.Proto == 200 {
				okc[step]++
			}
		}
		if !chaos {
			if cnt["scn.pre"] != total || okc["scn.pre"] != total {
				res.Violate(key(c, "next-shot-affected"), fmt.Sprintf("%d shots, first step ran %d times, ok %d (%v)", total, cnt["scn.pre"], okc["scn.pre"], cnt), c)
			}
			if cnt["scn.probe"] != total {
				res.Violate(key(c, "sample-count"), fmt.Sprintf("%d shots, %d probe samples", total, cnt["scn.probe"]), c)
			}
		} else if cnt["scn.pre"] != total {
			res.Violate(key(c, "sample-count"), fmt.Sprintf("%d shots, first step reported %d times (%v)", total, cnt["scn.pre"], cnt), c)
		}
	}
	res.Count("grpc_samples", int64(len(samples)))
	res.Eval(vkit.JSON(c), true)
}

// ---------------------------------------------------------------- http2 guns against TLS peers

func http2Case(res *vkit.Result, c Case) {
	cert, err := vkit.SelfSignedCert()
	if err != nil {
		res.Inconclusive(true, "cert: %v", err)
		return
	}
	conf := &tls.Config{Certificates: []tls.Certificate{cert}, NextProtos: []string{"h2", "http/1.1"}}
	fatalAllowed := false
	switch c.Behaviour {
	case "h2-statuses":
	case "tls12-client-cert-required":
		conf.ClientAuth = tls.RequireAnyClientCert
		conf.MaxVersion = tls.VersionTLS12
	case "tls13-client-cert-required":
		conf.ClientAuth = tls.RequireAnyClientCert
	case "tls-getconfig-fails":
		conf.GetConfigForClient = func(*tls.ClientHelloInfo) (*tls.Config, error) {
			return nil, fmt.Errorf("scripted: no config for this client")
		}
	case "tls-no-h2":
		conf.NextProtos = []string{"http/1.1"}
		fatalAllowed = true // the documented fatal condition
	}
	ln, err := net.Listen("tcp", "127.0.0.1:0")
	if err != nil {
		res.Inconclusive(true, "listen: %v", err)
		return
	}
	var n atomic.Int64
	srv := &http.Server{TLSConfig: conf, ErrorLog: log.New(io.Discard, "", 0), Handler: http.HandlerFunc(func(w http.ResponseWriter, r *http.Request) {
		k := n.Add(1)
		switch {
		case strings.HasPrefix(r.URL.Path, "/good"):
			w.WriteHeader(200)
			_, _ = w.Write([]byte("ok"))
		case k%4 == 0:
			panic(http.ErrAbortHandler) // stream reset
		case k%4 == 1:
			w.WriteHeader(500)
		case k%4 == 2:
			w.Header().Set("Content-Length", "100")
			w.WriteHeader(200)
			_, _ = w.Write([]byte("short"))
		default:
			w.WriteHeader(404)
		}
	})}
	go func() { _ = srv.ServeTLS(ln, "", "") }()
	defer srv.Close()
	var sb strings.Builder
	total := 0
	for r := 0; r < c.Rounds; r++ {
		fmt.Fprintf(&sb, "/bad/%d bad\n/good/%d good\n", r, r)
		total += 2
	}
	path := vkit.WriteMem([]byte(sb.String()))
	defer vkit.RemoveMem(path)
	gun := map[string]any{"type": "http2", "target": ln.Addr().String(), "dial": map[string]any{"timeout": "10s"}}
	samples, rr, err := runPool(poolConf(map[string]any{"type": "uri", "file": path, "passes": 1}, gun, c.Instances), 240*time.Second)
	if err != nil {
		res.Inconclusive(true, "http2 pool rejected: %v", err)
		return
	}
	if rr.Hang || rr.WaitHang {
		res.Violate(key(c, "hang"), "the run did not end within 240 s:\n"+rr.Stacks, c)
		return
	}
	if fatalAllowed {
		// a target without HTTP/2 is the one documented reason to stop
		res.Count("http2_documented_fatal_runs", 1)
		res.Eval(vkit.JSON(c), true)
		return
	}
	if rr.Err != nil {
		res.Violate(key(c, "run-aborted"), fmt.Sprintf("Engine.Run returned %v although the target speaks HTTP/2 (or fails before any protocol was negotiated)", rr.Err), c)
		return
	}
	if len(samples) != total {
		res.Violate(key(c, "sample-count"), fmt.Sprintf("%d requests, %d samples", total, len(samples)), c)
	}
	for _, s := range samples {
		if c.Behaviour == "h2-statuses" {
			if s.Tags == "good" && (s.Proto != 200 || s.Net != 0) {
				res.Violate(key(c, "next-request-affected"), fmt.Sprintf("well-behaved request after a bad one: proto %d net %d (%s)", s.Proto, s.Net, s.Err), c)
			}
		} else if s.Net == 0 {
			res.Violate(key(c, "failure-not-reported"), fmt.Sprintf("the TLS handshake cannot succeed but the sample has net code 0 (proto %d)", s.Proto), c)
		}
	}
	res.Count("http2_samples", int64(len(samples)))
	res.Eval(vkit.JSON(c), true)
}

// closed port: every shot fails, the run still reaches the end of its ammo
func closedPortCase(res *vkit.Result, c Case) {
	path := vkit.WriteMem([]byte("/a bad\n/b bad\n/c bad\n/d bad\n"))
	defer vkit.RemoveMem(path)
	gun := map[string]any{"type": c.Gun, "target": vkit.ClosedPort(), "dial": map[string]any{"timeout": "1s"}}
	if c.Trace {
		gun["httptrace"] = map[string]any{"dump": true, "trace": true}
	}
	switch c.Variant {
	case "tls": // the refused connection would have been a TLS one
		if c.Gun == "connect" {
			gun["connect-ssl"] = true
		} else {
			gun["ssl"] = true
		}
	}
	samples, rr, err := runPool(poolConf(map[string]any{"type": "uri", "file": path, "passes": 2}, gun, c.Instances), 240*time.Second)
	if err != nil {
		res.Inconclusive(true, "pool rejected: %v", err)
		return
	}
	if rr.Hang || rr.WaitHang || rr.Err != nil {
		res.Violate(key(c, "run-aborted"), fmt.Sprintf("closed port: Engine.Run returned %v (hang %v)", rr.Err, rr.Hang), c)
		return
	}
	if len(samples) != 8 {
		res.Violate(key(c, "sample-count"), fmt.Sprintf("8 requests, %d samples", len(samples)), c)
	}
	for _, s := range samples {
		if s.Net == 0 {
			res.Violate(key(c, "failure-not-reported"), fmt.Sprintf("connection refused reported with net code 0: %+v", s), c)
		}
	}
	res.Count("http_samples", int64(len(samples)))
	res.Eval(vkit.JSON(c), true)
}

// lateNamedTargetCase: the target is given by name and refuses connections while the config is
// decoded and for the first half second of the run; then it comes up and closes the connection
// after every answer, so that all instances keep dialling at the same moments (first through the
// name, then through whatever the dialers remember of it). The run must end by itself with one
// sample per request.
func lateNamedTargetCase(res *vkit.Result, c Case) {
	port := vkit.FreePort()
	path := vkit.WriteMem([]byte("/a t\n/b t\n/c t\n/d t\n"))
	defer vkit.RemoveMem(path)
	gun := map[string]any{"type": c.Gun, "target": fmt.Sprintf("localhost:%d", port), "dial": map[string]any{"timeout": "1s"}}
	var tgt atomic.Pointer[vkit.HTTPTarget]
	stop := make(chan struct{})
	defer close(stop)
	go func() {
		select {
		case <-time.After(500 * time.Millisecond):
		case <-stop:
			return
		}
		t, err := vkit.NewHTTPTargetAt(fmt.Sprintf("127.0.0.1:%d", port), false)
		if err != nil {
			return
		}
		t.Respond = func(rec *vkit.ReqRec, w http.ResponseWriter, r *http.Request) {
			w.Header().Set("Connection", "close")
			_, _ = w.Write([]byte("ok"))
		}
		tgt.Store(t)
	}()
	defer func() {
		if t := tgt.Load(); t != nil {
			t.Close()
		}
	}()
	// as fast as the instances can go for 1.5 s: when the target comes up, many of them dial at once
	pool := poolConf(map[string]any{"type": "uri", "file": path}, gun, c.Instances)
	pool["rps"] = map[string]any{"type": "unlimited", "duration": "1500ms"}
	samples, rr, err := runPool(pool, 60*time.Second)
	if err != nil {
		res.Inconclusive(true, "pool rejected: %v", err)
		return
	}
	if rr.Hang || rr.WaitHang {
		res.Violate(key(c, "hang"), "the run did not end within 60 s (an unlimited profile of 1.5 s against a target that comes up after half a second):\n"+rr.Stacks, c)
		return
	}
	if rr.Err != nil {
		res.Violate(key(c, "run-aborted"), fmt.Sprintf("Engine.Run returned %v", rr.Err), c)
		return
	}
	if len(samples) == 0 {
		res.Violate(key(c, "sample-count"), "1.5 s of shooting and not one sample", c)
	}
	ok := 0
	for _, s := range samples {
		if s.Proto == 200 {
			ok++
		}
	}
	res.Count("late_named_target_ok_samples", int64(ok))
	res.Count("http_samples", int64(len(samples)))
	res.Eval(vkit.JSON(c), true)
}

// connectRefusedCase: the connect gun's CONNECT is answered with a refusal — complete; with a body
// shorter than its declared length on a connection that stays open; with a body that only ends
// when the connection does (which it does not). Each request is a failed sample and the run goes on.
func connectRefusedCase(res *vkit.Result, c Case) {
	hold := make(chan struct{})
	defer close(hold)
	rt, err := vkit.NewRawTarget(func(conn net.Conn, n int64) {
		buf := make([]byte, 4096)
		_ = conn.SetReadDeadline(time.Now().Add(2 * time.Second))
		_, _ = conn.Read(buf)
		switch c.Variant {
		case "complete":
			_, _ = conn.Write([]byte("HTTP/1.1 403 Forbidden\r\nContent-Length: 9\r\n\r\nforbidden"))
			return
		case "body-never-completed":
			_, _ = conn.Write([]byte("HTTP/1.1 403 Forbidden\r\nContent-Length: 1000\r\n\r\nno tunnel for you"))
		default: // body-until-close
			_, _ = conn.Write([]byte("HTTP/1.0 502 Bad Gateway\r\n\r\nupstream is down"))
		}
		<-hold // the connection stays open for as long as the case runs
	})
	if err != nil {
		res.Inconclusive(true, "raw target: %v", err)
		return
	}
	defer rt.Close()
	path := vkit.WriteMem([]byte("/a t\n/b t\n/c t\n/d t\n"))
	defer vkit.RemoveMem(path)
	gun := map[string]any{"type": "connect", "target": rt.Addr, "dial": map[string]any{"timeout": "1s"}}
	samples, rr, err := runPool(poolConf(map[string]any{"type": "uri", "file": path, "passes": 1}, gun, c.Instances), 45*time.Second)
	if err != nil {
		res.Inconclusive(true, "pool rejected: %v", err)
		return
	}
	if rr.Hang || rr.WaitHang {
		res.Violate(key(c, "hang"), "the run did not end within 45 s (4 requests whose CONNECT is refused):\n"+rr.Stacks, c)
		return
	}
	if rr.Err != nil {
		res.Violate(key(c, "run-aborted"), fmt.Sprintf("Engine.Run returned %v", rr.Err), c)
		return
	}
	if len(samples) != 4 {
		res.Violate(key(c, "sample-count"), fmt.Sprintf("4 requests, %d samples", len(samples)), c)
	}
	for _, sm := range samples {
		if sm.Net == 0 {
			res.Violate(key(c, "failure-not-reported"), fmt.Sprintf("the tunnel was refused, the sample has net code 0: %+v", sm), c)
			break
		}
	}
	res.Count("http_samples", int64(len(samples)))
	res.Eval(vkit.JSON(c), true)
}

// redirectCase: the gun follows redirects (redirect: true) and the target redirects in a circle, or
// to a new place every time, or to itself. Each request ends as one sample (whatever it carries)
// and the run goes on to its end.
func redirectCase(res *vkit.Result, c Case) {
	tgt, err := vkit.NewHTTPTarget(false)
	if err != nil {
		res.Inconclusive(true, "target: %v", err)
		return
	}
	defer tgt.Close()
	var n atomic.Int64
	tgt.Respond = func(rec *vkit.ReqRec, w http.ResponseWriter, r *http.Request) {
		k := n.Add(1)
		switch c.Variant {
		case "circle":
			if strings.HasPrefix(r.URL.Path, "/a") {
				w.Header().Set("Location", "/b")
			} else {
				w.Header().Set("Location", "/a")
			}
		case "endless":
			w.Header().Set("Location", fmt.Sprintf("/next/%d", k))
		default: // to itself
			w.Header().Set("Location", r.URL.Path)
		}
		w.WriteHeader([]int{301, 302, 307}[int(k)%3])
	}
	path := vkit.WriteMem([]byte("/a t\n/b t\n/a t\n"))
	defer vkit.RemoveMem(path)
	gun := map[string]any{"type": c.Gun, "target": tgt.Addr, "redirect": true}
	samples, rr, err := runPool(poolConf(map[string]any{"type": "uri", "file": path, "passes": 2}, gun, c.Instances), 45*time.Second)
	if err != nil {
		res.Inconclusive(true, "pool rejected: %v", err)
		return
	}
	if rr.Hang || rr.WaitHang {
		res.Violate(key(c, "hang"), fmt.Sprintf("the run did not end within 45 s (6 requests, the target had answered %d redirects by then):\n%s", n.Load(), rr.Stacks), c)
		return
	}
	if rr.Err != nil {
		res.Violate(key(c, "run-aborted"), fmt.Sprintf("Engine.Run returned %v", rr.Err), c)
		return
	}
	if len(samples) != 6 {
		res.Violate(key(c, "sample-count"), fmt.Sprintf("6 requests, %d samples", len(samples)), c)
	}
	res.Count("http_samples", int64(len(samples)))
	res.Count("redirects_served", n.Load())
	res.Eval(vkit.JSON(c), true)
}

func runCase(res *vkit.Result, p *peer, c Case) {
	defer func() {
		if r := recover(); r != nil {
			res.Violate(key(c, "panic"), fmt.Sprintf("panic escaped into the harness: %v", r), c)
		}
	}()
	switch {
	case c.Gun == "http2":
		http2Case(res, c)
	case c.Behaviour == "closed-port":
		closedPortCase(res, c)
	case c.Behaviour == "redirects-followed":
		redirectCase(res, c)
	case c.Behaviour == "connect-refused":
		connectRefusedCase(res, c)
	case c.Behaviour == "named-target-comes-up-late":
		lateNamedTargetCase(res, c)
	case (c.Gun == "grpc" || c.Gun == "grpc/scenario") && c.Behaviour == "wkt":
		grpcWKTCase(res, c)
	case c.Gun == "grpc" || c.Gun == "grpc/scenario":
		grpcCase(res, c)
	case c.Gun == "http/scenario" && c.Behaviour == "burst":
		burstCase(res, c)
	case c.Gun == "http/scenario" && c.Variant == "list-index":
		listIndexCase(res, p, c)
	case c.Gun == "http/scenario":
		scenarioCase(res, p, c)
	default:
		httpCase(res, p, c)
	}
}

func child() {
	vkit.Fs()
	res := vkit.NewResult("")
	p, err := newPeer()
	if err != nil {
		res.Inconclusive(true, "peer: %v", err)
		res.ChildDone()
		return
	}
	for i, raw := range vkit.ChildCases() {
		var c Case
		_ = json.Unmarshal(raw, &c)
		vkit.LogCase(i)
		runCase(res, p, c)
	}
	res.ChildDone()
}

func main() {
	if vkit.IsChild() {
		child()
		return
	}
	res := vkit.NewResult("fault enumeration: every scripted peer behaviour (statuses, body/header/status-line malformations, closes and resets at every stage, stalls, unparsable JSON/HTML, short/missing/multibyte header values) × gun kind {http, connect, http/scenario × postprocessor set {var/header with substr/upper/replace, var/jsonpath, var/xpath, assert/response, all}}; http2 guns against TLS peers (h2 with statuses / stream resets / short bodies, client certificate required under TLS 1.2 and 1.3, failing TLS configuration, no h2 offered = the documented fatal case); gRPC statuses 0…17, 99, deadline, and connection chaos (garbled bytes, resets, blackhole) behind a TCP proxy × {grpc, grpc/scenario}; closed port. distinct = (gun, variant, behaviour, instances, keep-alive); non-trivial = the peer misbehaves")
	var cases []Case
	names := []string{}
	for _, b := range behaviours() {
		names = append(names, b.Name)
	}
	for _, nm := range names {
		cases = append(cases, Case{Gun: "http", Behaviour: nm, Instances: 2, Rounds: 3})
		cases = append(cases, Case{Gun: "http", Behaviour: nm, Instances: 2, Rounds: 2, Trace: true})
		cases = append(cases, Case{Gun: "http/scenario", Variant: "all", Behaviour: nm, Instances: 2, Rounds: 2, Trace: true})
		cases = append(cases, Case{Gun: "connect", Behaviour: nm, Instances: 2, Rounds: 2})
		for _, v := range []string{"header", "jsonpath", "xpath", "assert", "all"} {
			cases = append(cases, Case{Gun: "http/scenario", Variant: v, Behaviour: nm, Instances: 2, Rounds: 3})
		}
		if strings.HasPrefix(nm, "n-") || nm == "good" || nm == "header-x-tok-missing" {
			cases = append(cases, Case{Gun: "http/scenario", Variant: "funcs", Behaviour: nm, Instances: 2, Rounds: 3})
		}
		if vkit.Thorough() {
			cases = append(cases, Case{Gun: "http", Behaviour: nm, Instances: 8, Rounds: 8})
			cases = append(cases, Case{Gun: "http", Behaviour: nm, Instances: 1, Rounds: 3, NoKeep: true})
			cases = append(cases, Case{Gun: "connect", Behaviour: nm, Instances: 4, Rounds: 4, NoKeep: true})
			for _, v := range []string{"header", "jsonpath", "xpath", "assert", "all"} {
				cases = append(cases, Case{Gun: "http/scenario", Variant: v, Behaviour: nm, Instances: 6, Rounds: 6})
			}
		}
	}
	for _, idx := range []string{"0", "1", "3", "7", "-1", "-2", "-3", "-4", "-7", "last", "rand", "next"} {
		cases = append(cases, Case{Gun: "http/scenario", Variant: "list-index", Behaviour: idx, Instances: 2, Rounds: 2})
	}
	for _, g := range []string{"http", "connect"} {
		cases = append(cases, Case{Gun: g, Behaviour: "closed-port", Instances: 2})
		cases = append(cases, Case{Gun: g, Behaviour: "closed-port", Instances: 2, Trace: true})
		cases = append(cases, Case{Gun: g, Behaviour: "closed-port", Variant: "tls", Instances: 2})
		cases = append(cases, Case{Gun: g, Behaviour: "closed-port", Variant: "tls", Instances: 1, Trace: true})
		cases = append(cases, Case{Gun: g, Behaviour: "named-target-comes-up-late", Instances: 32})
		cases = append(cases, Case{Gun: g, Behaviour: "named-target-comes-up-late", Instances: 48})
	}
	for _, g := range []string{"http", "connect"} {
		for _, v := range []string{"circle", "endless", "to-itself"} {
			cases = append(cases, Case{Gun: g, Behaviour: "redirects-followed", Variant: v, Instances: 2})
		}
	}
	for _, v := range []string{"complete", "body-never-completed", "body-until-close"} {
		cases = append(cases, Case{Gun: "connect", Behaviour: "connect-refused", Variant: v, Instances: 2})
	}
	for _, b := range []string{"h2-statuses", "tls12-client-cert-required", "tls13-client-cert-required", "tls-getconfig-fails", "tls-no-h2"} {
		cases = append(cases, Case{Gun: "http2", Behaviour: b, Instances: 2, Rounds: 4})
	}
	cases = append(cases, Case{Gun: "http/scenario", Variant: "all-kinds", Behaviour: "burst", Instances: 48, Rounds: 20})
	cases = append(cases, Case{Gun: "http/scenario", Variant: "all-kinds", Behaviour: "burst", Instances: 16, Rounds: 30})
	for _, g := range []string{"grpc", "grpc/scenario"} {
		cases = append(cases, Case{Gun: g, Behaviour: "statuses", Instances: 2})
		cases = append(cases, Case{Gun: g, Behaviour: "chaos", Instances: 3})
		cases = append(cases, Case{Gun: g, Behaviour: "refused-while-starting", Instances: 11})
		cases = append(cases, Case{Gun: g, Behaviour: "dead-target-live-reflection", Instances: 3})
		cases = append(cases, Case{Gun: g, Behaviour: "wkt", Instances: 2})
		if vkit.Thorough() {
			cases = append(cases, Case{Gun: g, Behaviour: "statuses", Instances: 8})
			cases = append(cases, Case{Gun: g, Behaviour: "chaos", Instances: 8})
		}
	}
	// spread over children so that slow (stall) behaviours do not queue behind each other
	nb := 14
	buckets := make([][]Case, nb)
	for i, c := range cases {
		buckets[i%nb] = append(buckets[i%nb], c)
	}
	var batches [][]json.RawMessage
	for _, b := range buckets {
		batches = append(batches, vkit.Batches(b, len(b)+1)...)
	}
	vkit.RunChildren(res, vkit.ChildSpec{Kind: "c19", Batches: batches, Parallel: 14, Timeout: 30 * time.Minute, MemKB: 8 << 20,
		OnCrash: func(cr vkit.Crash) {
			var c Case
			_ = json.Unmarshal(cr.Case, &c)
			res.Violate(key(c, "process-died"), "the process died or hung while running this case:\n"+cr.Output, c)
		}})
	res.Set("behaviours", names)
	res.Set("cases_total", len(cases))
	res.Sample(map[string]any{"case": cases[7], "meaning": "pool of the real engine: ammo alternates the named peer behaviour with well-behaved requests"})
	res.Sample(map[string]any{"case": cases[len(cases)-2]})
	if res.Counter("http_samples") < 200 || res.Counter("scenario_samples") < 500 || res.Counter("grpc_samples") < 50 {
		res.Inconclusive(true, "too little observed: http %d scenario %d grpc %d samples", res.Counter("http_samples"), res.Counter("scenario_samples"), res.Counter("grpc_samples"))
	}
	res.Write()
}
