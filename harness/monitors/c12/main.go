// C12 — Instance startup profile: how many instances start, when, and with which ids.
package main

import (
	"context"
	"fmt"
	"math/rand"
	"sort"
	"sync"
	"sync/atomic"
	"time"

	"github.com/yandex/pandora/core"
	"github.com/yandex/pandora/core/engine"
	"github.com/yandex/pandora/core/schedule"

	"go.uber.org/zap"
	"go.uber.org/zap/zapcore"
	"go.uber.org/zap/zaptest/observer"

	"verif/harness/vkit"
)

type Case struct {
	Startup  vkit.SchedSpec `json:"startup"`
	Scenario string         `json:"scenario"` // free shared-long ammo-early rps-early fail-k cancel
	K        int            `json:"k"`
	CancelMs int            `json:"cancel_ms"`
	Seed     int64          `json:"seed"`
}

func genStartup(rng *rand.Rand, depth int) vkit.SchedSpec {
	k := rng.Intn(8)
	if depth > 1 || (depth == 1 && rng.Intn(3) != 0) {
		// a part of a list may itself be a list (one level deep, one time in three)
		k = rng.Intn(6)
	}
	switch {
	case k < 2:
		return vkit.SchedSpec{Kind: "once", N: int64(1 + rng.Intn(10))}
	case k < 4:
		// integer ops and ms duration with ops·duration well away from a whole number of
		// tokens, so that the token count ⌊ops·duration⌋ does not depend on float rounding
		for {
			dur := 100 + rng.Intn(600)
			ops := 2 + rng.Intn(40)
			if f := ops * dur % 1000; f >= 100 && f <= 900 && ops*dur/1000 >= 1 && ops*dur/1000 <= 12 {
				return vkit.SchedSpec{Kind: "const", A: float64(ops), DurMs: dur}
			}
		}
	case k < 6:
		from := rng.Intn(4)
		step := 1 + rng.Intn(4)
		return vkit.SchedSpec{Kind: "instance_step", A: float64(from), B: float64(from + step*rng.Intn(4) + rng.Intn(step)), N: int64(step), DurMs: 40 + rng.Intn(200)}
	default:
		s := vkit.SchedSpec{Kind: "composite"}
		n := 2 + rng.Intn(2)
		for i := 0; i < n; i++ {
			// pauses between the parts, and before the first one
			if rng.Intn(2) == 0 {
				s.Parts = append(s.Parts, vkit.SchedSpec{Kind: "const", A: 0, DurMs: 30 + rng.Intn(200)})
			}
			s.Parts = append(s.Parts, genStartup(rng, depth+1))
		}
		return s
	}
}

// startupModel returns the release offsets (relative to start) demanded by the documentation
// for once/const/instance_step leaves in sequence.
func startupModel(s vkit.SchedSpec) (offs []time.Duration, total time.Duration) {
	var off time.Duration
	for _, l := range s.Leaves() {
		d := time.Duration(l.DurMs) * time.Millisecond
		switch l.Kind {
		case "once":
			for i := int64(0); i < l.N; i++ {
				offs = append(offs, off)
			}
		case "const":
			n := int64(l.A * float64(l.DurMs) / 1000)
			for i := int64(0); i < n; i++ {
				offs = append(offs, off+time.Duration(float64(i)/l.A*1e9))
			}
			off += d
		case "instance_step":
			from, to, step := int64(l.A), int64(l.B), l.N
			for i := int64(0); i < from; i++ {
				offs = append(offs, off)
			}
			for i := from + step; i <= to; i += step {
				off += d
				for j := int64(0); j < step; j++ {
					offs = append(offs, off)
				}
			}
		}
	}
	return offs, off
}

func runCase(res *vkit.Result, c Case) {
	fail := func(check, f string, a ...any) {
		res.Violate("C12/"+c.Scenario+"/"+check, fmt.Sprintf(f, a...), c)
	}
	modelOffs, startupDur := startupModel(c.Startup)
	total := len(modelOffs)
	startup := &vkit.RecSchedule{Schedule: c.Startup.Build()}
	if c.Seed%4 == 1 {
		// a quarter of the profiles are written as config (lists, lists within lists) and decoded
		// the way a real run decodes its `startup` section
		pc, err := vkit.DecodedPool(map[string]any{"type": "once", "times": 1}, c.Startup.ConfMap(), false)
		if err != nil {
			fail("startup-rejected", "valid startup section rejected: %v (%s)", err, vkit.JSON(c.Startup.ConfMap()))
			return
		}
		startup = &vkit.RecSchedule{Schedule: pc.StartupSchedule}
		res.Count("startup_profiles_decoded_from_config", 1)
	}
	if l := startup.Schedule.Left(); l != total {
		fail("profile-count", "startup profile holds %d tokens, documentation model gives %d", l, total)
		return
	}
	prov := &vkit.MockProvider{Items: -1, FailAfter: -1}
	aggr := &vkit.MockAggregator{}
	plan := vkit.NewGunPlan()
	plan.Closer = true
	perInstance := true
	const rate = 200.0
	rpsDur := startupDur + 300*time.Millisecond
	switch c.Scenario {
	case "free-short":
		// per-instance profiles that end long before the startup profile does: early
		// instances finish while later ones are still being started; that is not a reason
		// to stop starting them
		rpsDur = startupDur/5 + 5*time.Millisecond
	case "shared-long":
		perInstance = false
		rpsDur = startupDur + 1500*time.Millisecond
	case "shared-unknown-tail":
		// a shared profile of unknown total: a short paced part, one single request, and an
		// unlimited part that outlasts the startup profile — the profile is not over before the
		// unlimited part is, whatever the parts in front of it hold
		perInstance = false
		rpsDur = startupDur + 1500*time.Millisecond
	case "rps-early":
		perInstance = false
		rpsDur = startupDur/2 + time.Millisecond
	case "slow-first-shot":
		// discard_overflow on and the first shot of instance 0 takes 2.3 s: that instance discards
		// what became 2 s late and goes on — an instance, once started, keeps firing
		rpsDur = startupDur + 2600*time.Millisecond
		plan.ShotDur = func(inst, shot, ammo int) time.Duration {
			if inst == 0 && shot == 0 {
				return 2300 * time.Millisecond
			}
			return 0
		}
	case "ammo-early":
		prov.Items = c.K
	case "fail-k":
		plan.NewGunErrAt = c.K + 1 // call 0 is the warm-up gun
		plan.NewGunErr = fmt.Errorf("verif: cannot create gun %d", c.K)
	}
	perTokens := schedule.NewConst(rate, rpsDur).Left()
	// in a third of the cases with per-instance profiles the profile is written as config (a list of
	// two parts) and the factory is the one the config decoder builds, as in a real run
	var decoded func() (core.Schedule, error)
	if perInstance && c.Seed%3 == 0 && rpsDur >= 4*time.Millisecond {
		d1 := (rpsDur / 2).Truncate(time.Millisecond)
		d2 := (rpsDur - d1).Truncate(time.Millisecond)
		pc, err := vkit.DecodedPool([]any{map[string]any{"type": "const", "ops": rate, "duration": d1.String()}, map[string]any{"type": "const", "ops": rate, "duration": d2.String()}}, nil, true)
		if err != nil {
			res.Inconclusive(true, "rps config rejected: %v", err)
			return
		}
		decoded = pc.NewRPSSchedule
		perTokens = schedule.NewConst(rate, d1).Left() + schedule.NewConst(rate, d2).Left()
	}
	if (c.Scenario == "free" || c.Scenario == "free-short") && c.Seed%3 == 1 {
		// a finite supply that is more than the run can use, queued at once: the provider's Run
		// returns while the startup profile has hardly begun — which is not "ammo ran out"
		prov.Items = total*perTokens + 64
		prov.Buffer = prov.Items
		res.Count("cases_with_supply_queued_at_once", 1)
	}
	var smu sync.Mutex
	byGoid := map[int64]*vkit.RecSchedule{}
	var shared *vkit.RecSchedule
	newSched := func() (core.Schedule, error) {
		smu.Lock()
		defer smu.Unlock()
		if !perInstance {
			if shared == nil {
				var inner core.Schedule = schedule.NewConst(rate, rpsDur)
				if c.Scenario == "shared-unknown-tail" {
					inner = schedule.NewComposite(schedule.NewConst(rate, 60*time.Millisecond), schedule.NewOnce(1), schedule.NewUnlimited(rpsDur))
				} else if c.Scenario == "shared-long" && c.Seed%4 == 1 {
					// a shared profile made of thousands of small bursts with a pause of 500 µs after
					// each: the instances cross a boundary into an empty part all the time
					var parts []core.Schedule
					for d := time.Duration(0); d < rpsDur; d += 500 * time.Microsecond {
						parts = append(parts, schedule.NewOnce(2), schedule.NewConst(0, 500*time.Microsecond))
					}
					inner = schedule.NewComposite(parts...)
				} else if c.Seed%2 == 0 {
					// a shared profile made of several parts (an rps list): crossing a part boundary
					// must not look like the end of the profile to any instance
					inner = schedule.NewComposite(schedule.NewConst(rate, rpsDur/3), schedule.NewConst(rate, rpsDur/3), schedule.NewConst(rate, rpsDur-2*(rpsDur/3)))
				}
				shared = &vkit.RecSchedule{Schedule: inner}
			}
			return shared, nil
		}
		var inner core.Schedule = schedule.NewConst(rate, rpsDur)
		if decoded != nil {
			var err error
			if inner, err = decoded(); err != nil {
				return nil, err
			}
		}
		r := &vkit.RecSchedule{Schedule: inner}
		byGoid[vkit.Goid()] = r
		return r, nil
	}
	var cancelledAt, firstFinishUncaused int64
	_ = firstFinishUncaused
	var bmu sync.Mutex
	var bindTimes []time.Time
	var ids []int
	plan.OnBind = func(g *vkit.MockGun) {
		smu.Lock()
		if perInstance {
			g.User = byGoid[vkit.Goid()]
		} else {
			g.User = shared
		}
		smu.Unlock()
		bmu.Lock()
		bindTimes = append(bindTimes, g.BindAt)
		ids = append(ids, g.InstanceID)
		bmu.Unlock()
	}
	ctx, cancel := context.WithCancel(context.Background())
	defer cancel()
	var cmu sync.Mutex
	var abandoned atomic.Bool
	plan.OnClose = func(g *vkit.MockGun) {
		// the instance has finished: one of the permitted causes must have been observed
		rs, _ := g.User.(*vkit.RecSchedule)
		cmu.Lock()
		ca := cancelledAt
		cmu.Unlock()
		if abandoned.Load() {
			return // the case hit the monitor's watchdog and was cancelled by the monitor itself: not judged
		}
		caused := (rs != nil && rs.FinishSeenAt.Load() != 0) || prov.ExhaustedAt.Load() != 0 || ca != 0 || plan.FaultFired.Load()
		if !caused {
			fail("instance-stopped", "instance %d finished although its RPS profile was not exhausted, ammo was not exhausted, nothing failed and the run was not cancelled", g.InstanceID)
		}
	}
	m := vkit.NewMetrics()
	eng := engine.New(vkit.NopLog(), m, engine.Config{Pools: []engine.InstancePoolConfig{{
		ID: "p", Provider: prov, Aggregator: aggr, NewGun: plan.NewGun, RPSPerInstance: perInstance,
		NewRPSSchedule: newSched, StartupSchedule: startup, DiscardOverflow: c.Scenario == "slow-first-shot",
	}}})
	done := make(chan error, 1)
	runStart := time.Now()
	go func() { done <- eng.Run(ctx) }()
	if c.Scenario == "cancel" {
		go func() {
			time.Sleep(time.Duration(c.CancelMs) * time.Millisecond)
			cmu.Lock()
			cancelledAt = time.Now().UnixNano()
			cmu.Unlock()
			cancel()
		}()
	}
	var err error
	select {
	case err = <-done:
	case <-time.After(30 * time.Second):
		abandoned.Store(true)
		res.Inconclusive(false, "case did not end within 30s: %s", vkit.JSON(c))
		return
	}
	eng.Wait()
	_ = err
	S := int(m.InstanceStart.Get())
	bmu.Lock()
	defer bmu.Unlock()
	// ids
	sort.Ints(ids)
	for i := 1; i < len(ids); i++ {
		if ids[i] == ids[i-1] {
			fail("ids", "instance id %d given twice (ids %v)", ids[i], ids)
			break
		}
	}
	if c.Scenario != "fail-k" {
		if len(ids) != S {
			fail("ids", "%d instances started but %d guns bound", S, len(ids))
		}
		for i, id := range ids {
			if id != i {
				fail("ids", "started instances have ids %v, want 0…%d", ids, S-1)
				break
			}
		}
	}
	// never more instances than the profile has released by that moment
	var tok []time.Time
	for _, t := range startup.Tokens {
		if t.OK {
			tok = append(tok, t.T)
		}
	}
	sort.Slice(tok, func(i, j int) bool { return tok[i].Before(tok[j]) })
	sort.Slice(bindTimes, func(i, j int) bool { return bindTimes[i].Before(bindTimes[j]) })
	if len(bindTimes) > len(tok) {
		fail("too-many", "%d instances created from %d released startup tokens", len(bindTimes), len(tok))
	}
	if len(tok) > total {
		fail("too-many", "%d startup tokens drawn from a profile of %d", len(tok), total)
	}
	for k := 0; k < len(bindTimes) && k < len(tok); k++ {
		if bindTimes[k].Before(tok[k]) {
			fail("too-early", "instance #%d was created %v before the startup profile released its token", k, tok[k].Sub(bindTimes[k]))
			break
		}
	}
	// the profile starts no earlier than the run: neither a token nor an instance may come before
	// the run's start plus the documented offset (a lower bound — timers never fire early)
	for k := range tok {
		if lb := runStart.Add(modelOffs[k]); tok[k].Before(lb) {
			fail("profile-anchor", "startup token %d is dated %v, before the start of the run (%v) plus its documented offset %v", k, tok[k].Format("2006-01-02 15:04:05.000000"), runStart.Format("15:04:05.000000"), modelOffs[k])
			break
		}
	}
	for k := 0; k < len(bindTimes) && k < len(modelOffs); k++ {
		if lb := runStart.Add(modelOffs[k]); bindTimes[k].Before(lb) {
			fail("too-early", "instance #%d was created %v after the start of the run; the profile releases it at +%v", k, bindTimes[k].Sub(runStart), modelOffs[k])
			break
		}
	}
	// token times follow the documented shape (relative to the first token)
	for k := range tok {
		if want := tok[0].Add(modelOffs[k] - modelOffs[0]); absDur(tok[k].Sub(want)) > 2*time.Microsecond {
			fail("profile-shape", "startup token %d released at +%v, documentation model says +%v", k, tok[k].Sub(tok[0]), modelOffs[k]-modelOffs[0])
			break
		}
	}
	if S > total {
		fail("too-many", "%d instances started, profile holds %d tokens", S, total)
	}
	switch c.Scenario {
	case "free", "free-short", "shared-long", "shared-unknown-tail", "slow-first-shot":
		if S != total {
			fail("not-all-started", "%d instances started, profile holds %d tokens and nothing cut the start short", S, total)
		}
		if err != nil {
			fail("run-error", "run ended with %v", err)
		}
		if c.Scenario == "free" || c.Scenario == "free-short" {
			if got, want := plan.ShotCount(), int64(S*perTokens); got != want {
				fail("kept-firing", "%d instances with %d tokens each fired %d shots, want %d", S, perTokens, got, want)
			}
		}
		if c.Scenario == "slow-first-shot" {
			if got, want := plan.ShotCount()+aggr.Discarded.Load(), int64(S*perTokens); got != want {
				fail("kept-firing", "%d instances with %d tokens each fired %d shots and discarded %d tokens, want %d in all", S, perTokens, plan.ShotCount(), aggr.Discarded.Load(), want)
			}
			res.Count("discarded_by_slow_instance", aggr.Discarded.Load())
		}
	}
	res.Count("scenario_"+c.Scenario, 1)
	res.Count("instances_started", int64(S))
	res.Count("startup_tokens", int64(total))
	if S < total {
		res.Count("cases_start_cut_short", 1)
	}
	res.Eval(vkit.JSON(c), total >= 2)
	if c.Seed%25 == 0 {
		res.Sample(map[string]any{"case": c, "profile_tokens": total, "instances_started": S, "ids": ids, "run_error": fmt.Sprint(err)})
	}
}

func absDur(d time.Duration) time.Duration {
	if d < 0 {
		return -d
	}
	return d
}

var seeds = []Case{
	{Startup: vkit.SchedSpec{Kind: "instance_step", A: 2, B: 8, N: 3, DurMs: 60}, Scenario: "free"},
	{Startup: vkit.SchedSpec{Kind: "instance_step", A: 0, B: 4, N: 2, DurMs: 50}, Scenario: "shared-long"},
	{Startup: vkit.SchedSpec{Kind: "composite", Parts: []vkit.SchedSpec{{Kind: "once", N: 8}, {Kind: "const", A: 0, DurMs: 400}, {Kind: "once", N: 4}}}, Scenario: "shared-long", Seed: 33},
	{Startup: vkit.SchedSpec{Kind: "composite", Parts: []vkit.SchedSpec{{Kind: "once", N: 1}, {Kind: "const", A: 0, DurMs: 300}, {Kind: "once", N: 2}}}, Scenario: "shared-unknown-tail", Seed: 31},
	{Startup: vkit.SchedSpec{Kind: "once", N: 6}, Scenario: "free"},
	{Startup: vkit.SchedSpec{Kind: "instance_step", A: 1, B: 4, N: 1, DurMs: 150}, Scenario: "free-short"},
	{Startup: vkit.SchedSpec{Kind: "const", A: 20, DurMs: 400}, Scenario: "free-short"},
	{Startup: vkit.SchedSpec{Kind: "const", A: 20, DurMs: 320}, Scenario: "free"},
	{Startup: vkit.SchedSpec{Kind: "once", N: 3}, Scenario: "slow-first-shot"},
	{Startup: vkit.SchedSpec{Kind: "instance_step", A: 1, B: 3, N: 1, DurMs: 100}, Scenario: "slow-first-shot"},
	{Startup: vkit.SchedSpec{Kind: "composite", Parts: []vkit.SchedSpec{{Kind: "once", N: 2}, {Kind: "const", A: 0, DurMs: 100}, {Kind: "once", N: 3}}}, Scenario: "free"},
	// lists within lists, decoded from config (Seed%4 == 1): a wave written once and used twice, then more
	{Startup: vkit.SchedSpec{Kind: "composite", Parts: []vkit.SchedSpec{
		{Kind: "composite", Parts: []vkit.SchedSpec{{Kind: "once", N: 1}, {Kind: "const", A: 0, DurMs: 150}}},
		{Kind: "composite", Parts: []vkit.SchedSpec{{Kind: "once", N: 1}, {Kind: "const", A: 0, DurMs: 150}}},
		{Kind: "once", N: 2}}}, Scenario: "free", Seed: 1},
	{Startup: vkit.SchedSpec{Kind: "composite", Parts: []vkit.SchedSpec{
		{Kind: "composite", Parts: []vkit.SchedSpec{{Kind: "once", N: 2}, {Kind: "once", N: 1}}},
		{Kind: "const", A: 0, DurMs: 200}, {Kind: "once", N: 1}}}, Scenario: "free", Seed: 5},
	{Startup: vkit.SchedSpec{Kind: "composite", Parts: []vkit.SchedSpec{
		{Kind: "once", N: 1},
		{Kind: "composite", Parts: []vkit.SchedSpec{{Kind: "const", A: 0, DurMs: 100}, {Kind: "once", N: 2}, {Kind: "const", A: 0, DurMs: 100}}},
		{Kind: "instance_step", A: 1, B: 3, N: 1, DurMs: 60}, {Kind: "once", N: 1}}}, Scenario: "shared-long", Seed: 9},
}

// sharedUnlimitedStart: the shortest runs — 16 instances released at once on one shared unlimited
// profile of an hour, which is started by whichever first shot comes first, stopped after a few
// milliseconds. In those milliseconds nothing has happened that may stop an instance or cut the
// start short: the engine must not have cancelled the start of instances and none may have finished before the cancel.
func sharedUnlimitedStart(res *vkit.Result, rounds int) {
	c := map[string]any{"scenario": "shared unlimited(1h), startup once(16), cancelled after 3 ms", "rounds": rounds}
	bad := ""
	for r := 0; r < rounds && bad == ""; r++ {
		prov := &vkit.MockProvider{Items: -1, FailAfter: -1}
		plan := vkit.NewGunPlan()
		shared := schedule.NewUnlimited(time.Hour)
		m := vkit.NewMetrics()
		obs, logs := observer.New(zapcore.InfoLevel)
		eng := engine.New(zap.New(obs), m, engine.Config{Pools: []engine.InstancePoolConfig{{
			ID: "p", Provider: prov, Aggregator: &vkit.MockAggregator{}, NewGun: plan.NewGun,
			NewRPSSchedule:  func() (core.Schedule, error) { return shared, nil },
			StartupSchedule: schedule.NewOnce(16),
		}}})
		ctx, cancel := context.WithCancel(context.Background())
		done := make(chan error, 1)
		go func() { done <- eng.Run(ctx) }()
		time.Sleep(3 * time.Millisecond)
		finishedBefore := m.InstanceFinish.Get()
		startCut := logs.FilterMessageSnippet("Canceling instance start").Len()
		ended := false
		select {
		case <-done:
			ended = true
		default:
		}
		cancel()
		if !ended {
			<-done
		}
		eng.Wait()
		switch {
		case ended:
			bad = fmt.Sprintf("round %d: the run ended by itself within 3 ms", r)
		case finishedBefore > 0:
			bad = fmt.Sprintf("round %d: %d of the instances had already finished 3 ms after the start: the shared profile lasts an hour, ammo is endless, nothing was cancelled", r, finishedBefore)
		case startCut > 0:
			// decided on what the engine says it did, not on how many instances 3 ms were enough for
			bad = fmt.Sprintf("round %d: the engine cancelled the start of instances (%d started of 16) 3 ms into the run: %q", r, m.InstanceStart.Get(), logs.FilterMessageSnippet("Canceling instance start").All()[0].Message)
		}
		res.Count("shared_unlimited_starts", 1)
	}
	if bad != "" {
		res.Violate("C12/shared-unlimited-start/instance-stopped", bad, c)
	}
	res.Eval(vkit.JSON(c), true)
}

func main() {
	res := vkit.NewResult("mock pools with startup profiles once/const/instance_step/composites (≤ ~1.5 s, 1–30 tokens) × scenario {free: per-instance profile outliving the startup profile, unbounded ammo; free-short: per-instance profiles ending long before the startup profile; shared-long; ammo exhausted early; shared profile ending before the startup profile; creation failure at instance k; cancel at a seeded instant}; distinct = distinct case descriptions; non-trivial = startup profile with ≥ 2 tokens")
	rng := vkit.Rand("c12")
	cases := append([]Case{}, seeds...)
	n := vkit.N(200, 5000)
	scen := []string{"free", "free-short", "free-short", "shared-long", "shared-unknown-tail", "ammo-early", "rps-early", "fail-k", "cancel"}
	for i := 0; i < n; i++ {
		c := Case{Startup: genStartup(rng, 0), Scenario: scen[rng.Intn(len(scen))], Seed: rng.Int63()}
		if i%40 == 13 {
			c.Scenario = "slow-first-shot"
		}
		offs, dur := startupModel(c.Startup)
		if len(offs) == 0 {
			continue
		}
		c.K = rng.Intn(len(offs))
		if c.Scenario == "ammo-early" {
			c.K = rng.Intn(40)
		}
		c.CancelMs = rng.Intn(int(dur/time.Millisecond) + 200)
		cases = append(cases, c)
	}
	sem := make(chan struct{}, 12)
	var wg sync.WaitGroup
	for _, c := range cases {
		wg.Add(1)
		sem <- struct{}{}
		go func(c Case) {
			defer wg.Done()
			defer func() { <-sem }()
			runCase(res, c)
		}(c)
	}
	wg.Wait()
	sharedUnlimitedStart(res, vkit.N(400, 6000))
	vkit.CheckRaceLog(res, "C12")
	if res.Counter("scenario_free") < 10 || res.Counter("cases_start_cut_short") == 0 {
		res.Inconclusive(true, "too few free-running cases or no case where the start was cut short")
	}
	res.Write()
}
