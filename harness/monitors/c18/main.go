// C18 — Plugin registry: every constructor shape yields rightly configured components.
//
// Exhaustive cross product: constructor shape {component | factory} × config {none | struct |
// *struct} × constructor error result × inner factory error result × default-config func ×
// requested form {New, factory with error, factory without error} × outcome {ok, constructor
// error, inner factory error, config error} × sequences of 1–5 factory calls with mutation of
// each product's configuration in between. A second pass goes through the config hooks
// (`type:` key) of the default registry.
package main

import (
	"errors"
	"fmt"
	"net"
	"os"
	"runtime"
	"reflect"
	"sort"
	"strings"
	"sync"
	"sync/atomic"
	"time"

	"github.com/yandex/pandora/core"
	"github.com/yandex/pandora/core/config"
	"github.com/yandex/pandora/core/plugin"
	"github.com/yandex/pandora/core/register"

	"verif/harness/vkit"
)

type Conf struct {
	A string         `config:"a"`
	B int            `config:"b"`
	M map[string]int `config:"m"`
	S []int          `config:"s"`
	P *int           `config:"p"`
}

func (c Conf) String() string {
	p := "nil"
	if c.P != nil {
		p = fmt.Sprint(*c.P)
	}
	keys := make([]string, 0, len(c.M))
	for k := range c.M {
		keys = append(keys, k)
	}
	sort.Strings(keys)
	var m []string
	for _, k := range keys {
		m = append(m, fmt.Sprintf("%s:%d", k, c.M[k]))
	}
	return fmt.Sprintf("{A:%q B:%d M:[%s] S:%v P:%s}", c.A, c.B, strings.Join(m, ","), c.S, p)
}

func defaultConf() Conf {
	p := 5
	return Conf{A: "defA", B: 7, M: map[string]int{"d": 1}, S: []int{1, 2}, P: &p}
}

// user settings, as a fill function
func userFill(c *Conf) {
	c.B = 42
	if c.M == nil {
		c.M = map[string]int{}
	}
	c.M["u"] = 2
}

func expected(withDefault bool) Conf {
	var c Conf
	if withDefault {
		c = defaultConf()
	}
	userFill(&c)
	return c
}

type Comp interface {
	Conf() *Conf
	Serial() int
}

type comp struct {
	conf   *Conf
	serial int
}

func (c *comp) Conf() *Conf { return c.conf }
func (c *comp) Serial() int { return c.serial }

var compType = plugin.PtrType((*Comp)(nil))

type Shape struct {
	Factory  bool   `json:"factory_constructor"`
	Conf     string `json:"config"` // none struct ptr
	CtorErr  bool   `json:"constructor_has_error_result"`
	InnerErr bool   `json:"inner_factory_has_error_result"`
	Impl     bool   `json:"returns_impl_type"`
	Default  bool   `json:"default_config_func"`
}

type Case struct {
	Shape   Shape  `json:"shape"`
	Form    string `json:"form"`    // new factory-err factory-noerr
	Outcome string `json:"outcome"` // ok ctor-error inner-error config-error
	Calls   int    `json:"calls"`
}

type log struct {
	ctorCalls, innerCalls, fillCalls, defaultCalls int
	serial                                         int
}

var errCtor = errors.New("verif: constructor error")
var errInner = errors.New("verif: inner factory error")
var errConf = errors.New("verif: config error")

// constructor builds the function value to register, with the exact Go type of the shape.
func constructor(s Shape, l *log, outcome string) any {
	mk := func(c *Conf) *comp {
		l.serial++
		return &comp{conf: c, serial: l.serial}
	}
	ctorFail := func() error {
		if outcome == "ctor-error" {
			return errCtor
		}
		return nil
	}
	innerFail := func() error {
		if outcome == "inner-error" {
			return errInner
		}
		return nil
	}
	if !s.Factory {
		// component constructors
		body := func(c *Conf) (*comp, error) {
			l.ctorCalls++
			if err := ctorFail(); err != nil {
				return nil, err
			}
			return mk(c), nil
		}
		switch {
		case s.Conf == "none" && !s.CtorErr && !s.Impl:
			return func() Comp { c, _ := body(nil); return c }
		case s.Conf == "none" && !s.CtorErr && s.Impl:
			return func() *comp { c, _ := body(nil); return c }
		case s.Conf == "none" && s.CtorErr && !s.Impl:
			return func() (Comp, error) { c, err := body(nil); return iface(c), err }
		case s.Conf == "none" && s.CtorErr && s.Impl:
			return func() (*comp, error) { return body(nil) }
		case s.Conf == "struct" && !s.CtorErr && !s.Impl:
			return func(c Conf) Comp { r, _ := body(&c); return r }
		case s.Conf == "struct" && !s.CtorErr && s.Impl:
			return func(c Conf) *comp { r, _ := body(&c); return r }
		case s.Conf == "struct" && s.CtorErr && !s.Impl:
			return func(c Conf) (Comp, error) { r, err := body(&c); return iface(r), err }
		case s.Conf == "struct" && s.CtorErr && s.Impl:
			return func(c Conf) (*comp, error) { return body(&c) }
		case s.Conf == "ptr" && !s.CtorErr && !s.Impl:
			return func(c *Conf) Comp { r, _ := body(c); return r }
		case s.Conf == "ptr" && !s.CtorErr && s.Impl:
			return func(c *Conf) *comp { r, _ := body(c); return r }
		case s.Conf == "ptr" && s.CtorErr && !s.Impl:
			return func(c *Conf) (Comp, error) { r, err := body(c); return iface(r), err }
		case s.Conf == "ptr" && s.CtorErr && s.Impl:
			return func(c *Conf) (*comp, error) { return body(c) }
		}
	}
	// factory constructors
	innerE := func(c *Conf) func() (Comp, error) {
		return func() (Comp, error) {
			l.innerCalls++
			if err := innerFail(); err != nil {
				return nil, err
			}
			return mk(c), nil
		}
	}
	innerN := func(c *Conf) func() Comp {
		return func() Comp {
			l.innerCalls++
			return mk(c)
		}
	}
	switch {
	case s.Conf == "none" && !s.CtorErr && !s.InnerErr:
		return func() func() Comp { l.ctorCalls++; return innerN(nil) }
	case s.Conf == "none" && !s.CtorErr && s.InnerErr:
		return func() func() (Comp, error) { l.ctorCalls++; return innerE(nil) }
	case s.Conf == "none" && s.CtorErr && !s.InnerErr:
		return func() (func() Comp, error) { l.ctorCalls++; return innerN(nil), ctorFail() }
	case s.Conf == "none" && s.CtorErr && s.InnerErr:
		return func() (func() (Comp, error), error) { l.ctorCalls++; return innerE(nil), ctorFail() }
	case s.Conf == "struct" && !s.CtorErr && !s.InnerErr:
		return func(c Conf) func() Comp { l.ctorCalls++; return innerN(&c) }
	case s.Conf == "struct" && !s.CtorErr && s.InnerErr:
		return func(c Conf) func() (Comp, error) { l.ctorCalls++; return innerE(&c) }
	case s.Conf == "struct" && s.CtorErr && !s.InnerErr:
		return func(c Conf) (func() Comp, error) { l.ctorCalls++; return innerN(&c), ctorFail() }
	case s.Conf == "struct" && s.CtorErr && s.InnerErr:
		return func(c Conf) (func() (Comp, error), error) { l.ctorCalls++; return innerE(&c), ctorFail() }
	case s.Conf == "ptr" && !s.CtorErr && !s.InnerErr:
		return func(c *Conf) func() Comp { l.ctorCalls++; return innerN(c) }
	case s.Conf == "ptr" && !s.CtorErr && s.InnerErr:
		return func(c *Conf) func() (Comp, error) { l.ctorCalls++; return innerE(c) }
	case s.Conf == "ptr" && s.CtorErr && !s.InnerErr:
		return func(c *Conf) (func() Comp, error) { l.ctorCalls++; return innerN(c), ctorFail() }
	case s.Conf == "ptr" && s.CtorErr && s.InnerErr:
		return func(c *Conf) (func() (Comp, error), error) { l.ctorCalls++; return innerE(c), ctorFail() }
	}
	panic("shape")
}

func iface(c *comp) Comp {
	if c == nil {
		return nil
	}
	return c
}

func defaultFunc(s Shape, l *log) any {
	switch s.Conf {
	case "struct":
		return func() Conf { l.defaultCalls++; return defaultConf() }
	case "ptr":
		return func() *Conf { l.defaultCalls++; c := defaultConf(); return &c }
	}
	return nil
}

func shapes() []Shape {
	var out []Shape
	for _, fac := range []bool{false, true} {
		for _, conf := range []string{"none", "struct", "ptr"} {
			for _, ce := range []bool{false, true} {
				for _, x := range []bool{false, true} { // Impl (component) / InnerErr (factory)
					for _, def := range []bool{false, true} {
						if def && conf == "none" {
							continue
						}
						s := Shape{Factory: fac, Conf: conf, CtorErr: ce, Default: def}
						if fac {
							s.InnerErr = x
						} else {
							s.Impl = x
						}
						out = append(out, s)
					}
				}
			}
		}
	}
	return out
}

// callSafely calls f and converts a panic into (panicValue, true).
type namedFactoryErr func() (Comp, error)
type namedFactory func() Comp

func callSafely(f func()) (pv any, panicked bool) {
	defer func() {
		if r := recover(); r != nil {
			pv, panicked = r, true
		}
	}()
	f()
	return nil, false
}

func runCase(res *vkit.Result, c Case) {
	key := func(check string) string {
		k := "component"
		if c.Shape.Factory {
			k = "factory"
		}
		return fmt.Sprintf("C18/%s-constructor/config-%s/%s/%s/%s", k, c.Shape.Conf, c.Form, c.Outcome, check)
	}
	fail := func(check, f string, a ...any) { res.Violate(key(check), fmt.Sprintf(f, a...), c) }
	l := &log{}
	reg := plugin.NewRegistry()
	var defs []any
	if c.Shape.Default {
		defs = append(defs, defaultFunc(c.Shape, l))
	}
	if _, p := callSafely(func() { reg.Register(compType, "x", constructor(c.Shape, l, c.Outcome), defs...) }); p {
		fail("register", "Register panicked for a supported constructor shape")
		return
	}
	fill := func(conf any) error {
		l.fillCalls++
		if c.Outcome == "config-error" {
			return errConf
		}
		if cp, ok := conf.(*Conf); ok {
			userFill(cp)
		} else if c.Shape.Conf != "none" {
			return fmt.Errorf("fill got %T", conf)
		}
		return nil
	}
	want := expected(c.Shape.Default)
	hasConf := c.Shape.Conf != "none"
	// which error is expected, and where
	var wantErr error
	where := "" // creation | call
	switch c.Outcome {
	case "ctor-error":
		wantErr = errCtor
		where = "call"
		if c.Shape.Factory {
			where = "creation"
		}
	case "inner-error":
		wantErr, where = errInner, "call"
	case "config-error":
		wantErr = errConf
		where = "call"
		if c.Shape.Factory || !hasConf {
			where = "creation"
		}
	}
	checkProduct := func(p Comp, i int) {
		if p == nil || reflect.ValueOf(p).IsNil() {
			fail("nil-product", "product %d is nil without an error", i)
			return
		}
		if hasConf {
			if got := p.Conf(); got == nil || got.String() != want.String() {
				fail("config", "product %d configured with %v, want defaults overlaid by user settings %v", i, got, want)
			}
		}
	}
	switch c.Form {
	case "new":
		var p any
		var err error
		pv, panicked := callSafely(func() { p, err = reg.New(compType, "x", fill) })
		if panicked {
			fail("panic", "New panicked: %v", pv)
			return
		}
		if wantErr != nil {
			if !errors.Is(err, wantErr) && (err == nil || !strings.Contains(err.Error(), wantErr.Error())) {
				fail("error-lost", "New returned err=%v, want %v", err, wantErr)
			}
			return
		}
		if err != nil {
			fail("unexpected-error", "New returned %v", err)
			return
		}
		cp, _ := p.(Comp)
		checkProduct(cp, 0)
		if l.fillCalls != 1 {
			fail("fill-count", "fill function called %d times for one New", l.fillCalls)
		}
	default:
		// the requested factory type is a plain func type or a named one (type NewComp func() …):
		// what comes back must be of exactly the requested type
		withErr := strings.HasPrefix(c.Form, "factory-err")
		var ft reflect.Type
		switch c.Form {
		case "factory-err":
			ft = reflect.TypeOf((func() (Comp, error))(nil))
		case "factory-noerr":
			ft = reflect.TypeOf((func() Comp)(nil))
		case "factory-err-named":
			ft = reflect.TypeOf((namedFactoryErr)(nil))
		default:
			ft = reflect.TypeOf((namedFactory)(nil))
		}
		var f any
		var err error
		pv, panicked := callSafely(func() { f, err = reg.NewFactory(ft, "x", fill) })
		if panicked {
			fail("panic", "NewFactory panicked: %v", pv)
			return
		}
		if where == "creation" {
			if err == nil || !strings.Contains(err.Error(), wantErr.Error()) {
				fail("error-lost", "NewFactory returned err=%v, want %v", err, wantErr)
			}
			return
		}
		if err != nil {
			fail("unexpected-error", "NewFactory returned %v", err)
			return
		}
		if got := reflect.TypeOf(f); got != ft {
			fail("factory-type", "a factory of type %v was requested, NewFactory returned a %v", ft, got)
			return
		}
		var prev []Comp
		for i := 0; i < c.Calls; i++ {
			var p Comp
			var cerr error
			pv, panicked := callSafely(func() {
				outs := reflect.ValueOf(f).Call(nil)
				if !outs[0].IsNil() {
					p, _ = outs[0].Interface().(Comp)
				}
				if withErr && !outs[1].IsNil() {
					cerr, _ = outs[1].Interface().(error)
				}
			})
			if where == "call" {
				switch {
				case withErr:
					if panicked {
						fail("panic", "factory with an error result panicked instead of returning the error: %v", pv)
					} else if cerr == nil || !strings.Contains(cerr.Error(), wantErr.Error()) {
						fail("error-lost", "factory call %d returned err=%v, want %v", i, cerr, wantErr)
					}
				default:
					pe, _ := pv.(error)
					if !panicked {
						fail("error-lost", "factory without error result neither panicked nor could report %v (product %v)", wantErr, p)
					} else if pe == nil || !strings.Contains(pe.Error(), wantErr.Error()) {
						fail("panic-value", "factory panicked with %v, want a panic carrying %v", pv, wantErr)
					}
				}
				continue
			}
			if panicked {
				fail("panic", "factory call %d panicked: %v", i, pv)
				return
			}
			if cerr != nil {
				fail("unexpected-error", "factory call %d returned %v", i, cerr)
				return
			}
			checkProduct(p, i)
			for _, q := range prev {
				if q == p {
					fail("same-product", "factory returned the same component twice")
				}
			}
			prev = append(prev, p)
			// mutate this product's configuration: must be invisible to the next product
			// (component constructors only: they get a fresh config per product)
			if hasConf && !c.Shape.Factory && p != nil && p.Conf() != nil {
				pc := p.Conf()
				pc.A, pc.B = "mutated", -1
				pc.M["mut"] = 99
				if len(pc.S) > 0 {
					pc.S[0] = -5
				}
				if pc.P != nil {
					*pc.P = -7
				}
			}
		}
		if where == "" {
			if c.Shape.Factory {
				if l.ctorCalls != 1 {
					fail("ctor-count", "factory constructor invoked %d times for one NewFactory", l.ctorCalls)
				}
				if hasConf && l.fillCalls != 1 {
					fail("fill-count", "factory constructor: config decoded %d times, want once", l.fillCalls)
				}
				if l.innerCalls != c.Calls {
					fail("inner-count", "registered factory invoked %d times for %d products", l.innerCalls, c.Calls)
				}
			} else {
				if l.ctorCalls != c.Calls {
					fail("ctor-count", "component constructor invoked %d times for %d products", l.ctorCalls, c.Calls)
				}
				if hasConf && l.fillCalls != c.Calls {
					fail("fill-count", "component constructor: config decoded %d times for %d products (want a fresh decode per product)", l.fillCalls, c.Calls)
				}
				if hasConf && c.Shape.Default && l.defaultCalls != c.Calls {
					fail("default-count", "default config created %d times for %d products (want a fresh one per product)", l.defaultCalls, c.Calls)
				}
			}
		}
	}
	res.Eval(vkit.JSON(c), true)
	res.Count("form_"+c.Form, 1)
	res.Count("outcome_"+c.Outcome, 1)
}

// ---- pass 2: through the config hooks of the default registry ----

type holder struct {
	C  Comp                 `config:"c"`
	F  func() (Comp, error) `config:"f"`
	F2 func() Comp          `config:"f2"`
}

func hookPass(res *vkit.Result) {
	for i, s := range shapes() {
		if s.Conf == "none" {
			continue
		}
		l := &log{}
		// plugin names are matched as written: half of them have upper-case letters and a slash
		name := fmt.Sprintf("shape%d", i)
		if i%2 == 1 {
			name = fmt.Sprintf("Verif/Shape-%dX", i)
		}
		var defs []any
		if s.Default {
			defs = append(defs, defaultFunc(s, l))
		}
		plugin.Register(compType, name, constructor(s, l, "ok"), defs...)
		c := Case{Shape: s, Form: "config-hook", Outcome: "ok"}
		fail := func(check, f string, a ...any) {
			res.Violate("C18/config-hook/"+check, fmt.Sprintf(f, a...), c)
		}
		// the key that selects the plugin is matched whatever its letter case
		typeKey := []string{"type", "Type", "TYPE", "tYpE"}[(i/2)%4]
		user := func() map[string]any {
			return map[string]any{typeKey: name, "b": 42, "m": map[string]any{"u": 2}}
		}
		var h holder
		err := config.Decode(map[string]any{"c": user(), "f": user(), "f2": user()}, &h)
		if err != nil {
			fail("decode", "decoding a plugin and its factories failed: %v", err)
			continue
		}
		want := expected(s.Default)
		if got := h.C.Conf(); got.String() != want.String() {
			fail("config", "component from config has %v, want %v", got, want)
		}
		for k := 0; k < 3; k++ {
			p, err := h.F()
			if err != nil || p.Conf().String() != want.String() {
				fail("config", "factory product %d from config has %v (err %v), want %v", k, p, err, want)
				break
			}
			if !s.Factory {
				p.Conf().M["mut"] = 1
				p.Conf().B = -1
			}
			p2 := h.F2()
			if p2.Conf().String() != want.String() {
				fail("config", "no-error factory product %d from config has %v, want %v", k, p2.Conf(), want)
				break
			}
		}
		// unknown key inside the plugin's config must be rejected (at decode or at first use)
		bad := user()
		bad["bogus"] = 1
		var h2 holder
		err = config.Decode(map[string]any{"c": bad}, &h2)
		if err == nil {
			fail("unknown-key", "unknown key in a plugin config was accepted")
		}
		bad2 := user()
		bad2["bogus"] = 1
		var h3 holder
		err = config.Decode(map[string]any{"f": bad2}, &h3)
		if err == nil {
			_, err = h3.F()
		}
		if err == nil {
			fail("unknown-key", "unknown key in a plugin factory config was accepted by decode and by the first factory call")
		}
		res.Eval(vkit.JSON(c), true)
		res.Count("form_config-hook", 1)
	}
}

// ---- pass 3: nested plugins of the same registered name, and overlapping creations ----
//
// A plugin's config may itself contain a plugin of the same kind and name (composite
// schedules do), and the engine creates instances — hence guns and schedules — from several
// goroutines at once. Every product must still see its own freshly decoded configuration.

type Node interface{ Info() NodeConf }

type gate string

var (
	gateMu      sync.Mutex
	gateArrived = map[string]chan struct{}{}
	gateRelease = map[string]chan struct{}{}
)

func gateChans(id string) (arrived, release chan struct{}) {
	gateMu.Lock()
	defer gateMu.Unlock()
	if gateArrived[id] == nil {
		gateArrived[id] = make(chan struct{})
		gateRelease[id] = make(chan struct{})
	}
	return gateArrived[id], gateRelease[id]
}

// UnmarshalText blocks for values "block:<id>" until the monitor releases that id: it lets
// the monitor hold one creation in the middle of decoding its config.
func (g *gate) UnmarshalText(b []byte) error {
	*g = gate(b)
	if strings.HasPrefix(string(b), "block:") {
		arrived, release := gateChans(string(b))
		close(arrived)
		<-release
	}
	return nil
}

type NodeConf struct {
	Name   string `config:"name"`
	Gate   gate   `config:"gate"`
	Child  Node   `config:"child"`
	Weight int    `config:"weight"`
	Tags   []string
}

type node struct{ c NodeConf }

func (n *node) Info() NodeConf { return n.c }

type nodeHolder struct {
	N Node                 `config:"n"`
	F func() (Node, error) `config:"f"`
}

func nodeString(n Node) string { return nodeStringDepth(n, 0) }

func nodeStringDepth(n Node, depth int) string {
	if n == nil {
		return "nil"
	}
	if depth > 5 {
		return "…(deeper than the description: a cycle)"
	}
	c := n.Info()
	return fmt.Sprintf("{%s w=%d tags=%v child=%s}", c.Name, c.Weight, c.Tags, nodeStringDepth(c.Child, depth+1))
}

func nestedAndOverlap(res *vkit.Result) {
	nodeType := plugin.PtrType((*Node)(nil))
	type shape struct {
		name string
		ctor any
		def  any
	}
	def := func() NodeConf { return NodeConf{Weight: 7, Tags: []string{"d"}} }
	shapes := []shape{
		{"node-val", func(c NodeConf) Node { return &node{c} }, def},
		{"node-val-nodefault", func(c NodeConf) Node { return &node{c} }, nil},
		{"node-ptr", func(c *NodeConf) Node { return &node{*c} }, func() *NodeConf { d := def(); return &d }},
		{"node-val-err", func(c NodeConf) (Node, error) { return &node{c}, nil }, def},
		{"node-factory-val", func(c NodeConf) func() (Node, error) { return func() (Node, error) { return &node{c}, nil } }, def},
	}
	for _, sh := range shapes {
		if sh.def != nil {
			plugin.Register(nodeType, sh.name, sh.ctor, sh.def)
		} else {
			plugin.Register(nodeType, sh.name, sh.ctor)
		}
		defW := 0
		defTags := "[]"
		if sh.def != nil {
			defW, defTags = 7, "[d]"
		}
		c := map[string]any{"shape": sh.name, "probe": "nested same-name"}
		conf := func() map[string]any {
			return map[string]any{"type": sh.name, "name": "outer", "weight": 3,
				"child": map[string]any{"type": sh.name, "name": "inner", "weight": 5,
					"child": map[string]any{"type": sh.name, "name": "innermost"}}}
		}
		want := fmt.Sprintf("{outer w=3 tags=%s child={inner w=5 tags=%s child={innermost w=%d tags=%s child=nil}}}", defTags, defTags, defW, defTags)
		var h nodeHolder
		if err := config.Decode(map[string]any{"n": conf(), "f": conf()}, &h); err != nil {
			res.Violate("C18/nested/decode", fmt.Sprintf("decoding a plugin nested in a plugin of the same name failed: %v", err), c)
			continue
		}
		if got := nodeString(h.N); got != want {
			res.Violate("C18/nested/config", fmt.Sprintf("component built from nested config is %s, want %s", got, want), c)
		}
		for k := 0; k < 3; k++ {
			p, err := h.F()
			if err != nil || nodeString(p) != want {
				res.Violate("C18/nested/config", fmt.Sprintf("factory product %d built from nested config is %s (err %v), want %s", k, nodeString(p), err, want), c)
				break
			}
		}
		res.Eval(vkit.JSON(c), true)
		res.Count("form_nested", 1)

		// overlapping creations: A is held in the middle of decoding its config while B is created
		id := "block:" + sh.name
		arrived, release := gateChans(id)
		type out struct {
			n   Node
			err error
		}
		aDone, bDone := make(chan out, 1), make(chan out, 1)
		go func() {
			var ha nodeHolder
			err := config.Decode(map[string]any{"n": map[string]any{"type": sh.name, "name": "A", "gate": id, "weight": 1}}, &ha)
			aDone <- out{ha.N, err}
		}()
		c2 := map[string]any{"shape": sh.name, "probe": "overlapping creations"}
		select {
		case <-arrived:
		case <-time.After(10 * time.Second):
			res.Inconclusive(false, "%s: creation A never reached its gate", sh.name)
			close(release)
			continue
		}
		go func() {
			var hb nodeHolder
			err := config.Decode(map[string]any{"n": map[string]any{"type": sh.name, "name": "B", "gate": "pass", "weight": 2}}, &hb)
			bDone <- out{hb.N, err}
		}()
		var b out
		serialised := false
		select {
		case b = <-bDone:
		case <-time.After(3 * time.Second):
			// creations are serialised by the implementation: legal, nothing to judge about overlap
			serialised = true
		}
		close(release)
		a := <-aDone
		if serialised {
			b = <-bDone
			res.Count("overlap_serialised", 1)
		}
		wantA := fmt.Sprintf("{A w=1 tags=%s child=nil}", defTags)
		wantB := fmt.Sprintf("{B w=2 tags=%s child=nil}", defTags)
		if a.err != nil || b.err != nil {
			res.Violate("C18/overlap/error", fmt.Sprintf("overlapping creations failed: %v / %v", a.err, b.err), c2)
		} else {
			if got := nodeString(a.n); got != wantA {
				res.Violate("C18/overlap/config", fmt.Sprintf("creation A (held while B was created) got %s, want %s", got, wantA), c2)
			}
			if got := nodeString(b.n); got != wantB {
				res.Violate("C18/overlap/config", fmt.Sprintf("creation B (made while A was in progress) got %s, want %s", got, wantB), c2)
			}
		}
		res.Eval(vkit.JSON(c2), true)
		res.Count("form_overlap", 1)
	}
}

// sameFactoryConcurrently: the engine creates instances from several goroutines, all calling the
// same decoded factory. Every product must be built from its own freshly created default
// (counted by a serial the default function stamps) — no two products may share a configuration.
func sameFactoryConcurrently(res *vkit.Result, rounds int) {
	nodeType := plugin.PtrType((*Node)(nil))
	var serial atomic.Int64
	type shape struct {
		name string
		ctor any
		def  any
	}
	shapes := []shape{
		{"cnode-val", func(c NodeConf) Node { return &node{c} }, func() NodeConf { return NodeConf{Weight: int(serial.Add(1))} }},
		{"cnode-ptr", func(c *NodeConf) (Node, error) { return &ptrNode{c}, nil }, func() *NodeConf { return &NodeConf{Weight: int(serial.Add(1))} }},
	}
	for _, sh := range shapes {
		plugin.Register(nodeType, sh.name, sh.ctor, sh.def)
		var h nodeHolder
		c := map[string]any{"shape": sh.name, "probe": "one factory called from 16 goroutines"}
		if err := config.Decode(map[string]any{"f": map[string]any{"type": sh.name, "name": "same"}}, &h); err != nil {
			res.Violate("C18/concurrent-factory/decode", fmt.Sprintf("decode failed: %v", err), c)
			continue
		}
		bad := ""
		for r := 0; r < rounds && bad == ""; r++ {
			const workers, per = 16, 50
			out := make([][]Node, workers)
			var wg sync.WaitGroup
			start := make(chan struct{})
			for w := 0; w < workers; w++ {
				wg.Add(1)
				go func(w int) {
					defer wg.Done()
					<-start
					for i := 0; i < per; i++ {
						n, err := h.F()
						if err != nil {
							return
						}
						out[w] = append(out[w], n)
					}
				}(w)
			}
			close(start)
			wg.Wait()
			seenSerial := map[int]int{}
			seenPtr := map[*NodeConf]int{}
			total := 0
			for _, l := range out {
				for _, n := range l {
					total++
					seenSerial[n.Info().Weight]++
					if pn, ok := n.(*ptrNode); ok {
						seenPtr[pn.c]++
					}
					if n.Info().Name != "same" {
						bad = fmt.Sprintf("a product has name %q, want the decoded %q", n.Info().Name, "same")
					}
				}
			}
			if total != workers*per {
				bad = fmt.Sprintf("%d products for %d factory calls", total, workers*per)
			}
			if len(seenSerial) != total {
				bad = fmt.Sprintf("%d products were built from only %d freshly created default configurations", total, len(seenSerial))
			}
			if len(seenPtr) > 0 && len(seenPtr) != total {
				bad = fmt.Sprintf("%d products share %d configuration objects", total, len(seenPtr))
			}
			res.Count("concurrent_factory_products", int64(total))
		}
		if bad != "" {
			res.Violate("C18/concurrent-factory/shared-config", bad, c)
		}
		res.Eval(vkit.JSON(c), true)
		res.Count("form_concurrent_factory", 1)
	}
}

// mixedOutcomesConcurrently: the same, but one setting comes from an environment variable that a
// further goroutine keeps switching between a number and a word: some creations decode, some do
// not. A creation that reports success has a product with the decoded number; a failed decode is
// never turned into a success by a neighbour's.
func mixedOutcomesConcurrently(res *vkit.Result, rounds int) {
	nodeType := plugin.PtrType((*Node)(nil))
	var serial atomic.Int64
	plugin.Register(nodeType, "cnode-flip", func(c NodeConf) Node { return &node{c} }, func() NodeConf { return NodeConf{Weight: -int(serial.Add(1))} })
	const env = "VERIF_C18_FLIP"
	os.Setenv(env, "5")
	defer os.Unsetenv(env)
	var h nodeHolder
	c := map[string]any{"shape": "cnode-flip", "probe": "one factory called from 16 goroutines while ${ENV:" + env + "} flips between 5 and a word"}
	if err := config.Decode(map[string]any{"f": map[string]any{"type": "cnode-flip", "name": "same", "weight": "${ENV:" + env + "}"}}, &h); err != nil {
		res.Violate("C18/concurrent-factory/decode", fmt.Sprintf("decode failed: %v", err), c)
		return
	}
	bad := ""
	var okN, errN atomic.Int64
	for r := 0; r < rounds && bad == ""; r++ {
		var stop atomic.Bool
		var fwg sync.WaitGroup
		fwg.Add(1)
		go func() {
			defer fwg.Done()
			for i := 0; !stop.Load(); i++ {
				os.Setenv(env, []string{"5", "certainly not a number"}[i%2])
				runtime.Gosched()
			}
		}()
		var mu sync.Mutex
		var wg sync.WaitGroup
		for w := 0; w < 16; w++ {
			wg.Add(1)
			go func() {
				defer wg.Done()
				for i := 0; i < 50; i++ {
					n, err := h.F()
					if err != nil {
						errN.Add(1)
						continue
					}
					okN.Add(1)
					if n == nil || n.Info().Name != "same" || n.Info().Weight != 5 {
						mu.Lock()
						if n == nil {
							bad = "a creation reported success without a product"
						} else {
							bad = fmt.Sprintf("a creation reported success; its product is configured with name %q weight %d, want the decoded \"same\" and 5 (a negative weight is the untouched default)", n.Info().Name, n.Info().Weight)
						}
						mu.Unlock()
						return
					}
				}
			}()
		}
		wg.Wait()
		stop.Store(true)
		fwg.Wait()
	}
	res.Count("concurrent_factory_mixed_ok", okN.Load())
	res.Count("concurrent_factory_mixed_errors", errN.Load())
	if bad != "" {
		res.Violate("C18/concurrent-factory/failed-decode-reported-as-success", bad, c)
	}
	res.Eval(vkit.JSON(c), okN.Load() > 0 && errN.Load() > 0)
}

type ptrNode struct{ c *NodeConf }

func (n *ptrNode) Info() NodeConf { return *n.c }

// ---- pass 5: a section that holds nothing but the plugin's type ----
//
// `gun: {type: x}` is a complete section: the component is configured from its registered
// defaults, and those are validated like any other configuration — a default that lacks a
// required value must be reported, not handed to the constructor.

type VConf struct {
	Req string `config:"req" validate:"required"`
	N   int    `config:"n" validate:"min=1"`
}
type VComp interface{ V() VConf }
type vcomp struct{ c VConf }

func (v *vcomp) V() VConf { return v.c }

type vholder struct {
	C  VComp                 `config:"c"`
	F  func() (VComp, error) `config:"f"`
	F2 func() VComp          `config:"f2"`
}

func typeOnlySections(res *vkit.Result) {
	vType := plugin.PtrType((*VComp)(nil))
	ctors := map[string]any{
		"value":   func(c VConf) VComp { return &vcomp{c} },
		"pointer": func(c *VConf) (VComp, error) { return &vcomp{*c}, nil },
		"factory": func(c VConf) func() (VComp, error) { return func() (VComp, error) { return &vcomp{c}, nil } },
	}
	for shape, ctor := range ctors {
		for _, defaults := range []string{"incomplete", "complete", "none"} {
			name := "v-" + shape + "-" + defaults
			switch {
			case defaults == "none":
				plugin.Register(vType, name, ctor)
			case shape == "pointer":
				plugin.Register(vType, name, ctor, func() *VConf {
					if defaults == "complete" {
						return &VConf{Req: "d", N: 1}
					}
					return &VConf{N: 1}
				})
			default:
				plugin.Register(vType, name, ctor, func() VConf {
					if defaults == "complete" {
						return VConf{Req: "d", N: 1}
					}
					return VConf{N: 1}
				})
			}
			for _, section := range []string{"type-only", "completed", "invalid-value"} {
				user := map[string]any{"type": name}
				switch section {
				case "completed":
					user["req"], user["n"] = "u", 2
				case "invalid-value":
					user["req"], user["n"] = "u", 0
				}
				wantOK := section == "completed" || (section == "type-only" && defaults == "complete")
				for _, form := range []string{"c", "f", "f2"} {
					c := map[string]any{"constructor": shape, "defaults": defaults, "section": section, "form": form}
					var h vholder
					var got VComp
					err := config.Decode(map[string]any{form: user}, &h)
					if err == nil {
						switch form {
						case "c":
							got = h.C
						case "f":
							got, err = h.F()
						case "f2":
							if pv, panicked := callSafely(func() { got = h.F2() }); panicked {
								err = fmt.Errorf("panic: %v", pv)
							}
						}
					}
					key := "C18/type-only/" + shape + "/" + defaults + "-defaults/" + section
					switch {
					case wantOK && err != nil:
						res.Violate(key+"/rejected", fmt.Sprintf("a valid section was rejected: %v", err), c)
					case wantOK && got == nil:
						res.Violate(key+"/nil", "no component and no error", c)
					case !wantOK && err == nil:
						res.Violate(key+"/invalid-config-accepted", fmt.Sprintf("component created with the invalid configuration %+v (req is required, n ≥ 1)", got.V()), c)
					case wantOK:
						want := VConf{Req: "u", N: 2}
						if section == "type-only" {
							want = VConf{Req: "d", N: 1}
						}
						if got.V() != want {
							res.Violate(key+"/config", fmt.Sprintf("configured with %+v, want %+v", got.V(), want), c)
						}
					}
					res.Eval(vkit.JSON(c), true)
					res.Count("form_type-only", 1)
				}
			}
		}
	}
}

// ---- pass 6: components registered through core/register, as all built-in ones are ----

type RConf struct {
	Target  string   `config:"target"`
	Retries int      `config:"retries"`
	Hosts   []string `config:"hosts"`
}
type rgun struct{ c *RConf }

func (g *rgun) Bind(core.Aggregator, core.GunDeps) error { return nil }
func (g *rgun) Shoot(core.Ammo)                          {}

type rholder struct {
	G core.Gun                 `config:"g"`
	F func() (core.Gun, error) `config:"f"`
}

// registerHelpers: a gun registered with register.Gun whose default-config function returns a
// pointer (and a list inside it). Two sections in a row, and several products of one factory:
// what the first one set, or did to its config, must not be the second one's default.
func registerHelpers(res *vkit.Result) {
	register.Gun("verif-rgun", func(c *RConf) core.Gun { return &rgun{c} }, func() *RConf {
		return &RConf{Target: "default-target", Retries: 3, Hosts: []string{"a", "b"}}
	})
	defer func() {
		if p := recover(); p != nil {
			res.Violate("C18/register-helper/panic", fmt.Sprintf("panic while creating guns registered through register.Gun: %v", p), nil)
		}
	}()
	conf := func(g core.Gun) *RConf { return g.(*rgun).c }
	show := func(c *RConf) string { return fmt.Sprintf("%+v", *c) }
	fail := func(check, f string, a ...any) {
		res.Violate("C18/register-helper/"+check, fmt.Sprintf(f, a...), map[string]any{"registration": "register.Gun with func() *Conf default"})
	}
	var h1, h2 rholder
	if err := config.Decode(map[string]any{"g": map[string]any{"type": "verif-rgun", "target": "first:80", "retries": 9, "hosts": []any{"x"}}}, &h1); err != nil {
		fail("decode", "first section rejected: %v", err)
		return
	}
	conf(h1.G).Hosts[0] = "mutated-by-first"
	if err := config.Decode(map[string]any{"g": map[string]any{"type": "verif-rgun"}}, &h2); err != nil {
		fail("decode", "second section rejected: %v", err)
		return
	}
	if got, want := show(conf(h2.G)), show(&RConf{Target: "default-target", Retries: 3, Hosts: []string{"a", "b"}}); got != want {
		fail("config", "a section holding only the type, decoded after another gun of the same type, is configured with %s, want the registered defaults %s", got, want)
	}
	if got, want := show(conf(h1.G)), show(&RConf{Target: "first:80", Retries: 9, Hosts: []string{"mutated-by-first"}}); got != want {
		fail("config", "the first gun's configuration changed when the second was created: %s, want %s", got, want)
	}
	var hf rholder
	if err := config.Decode(map[string]any{"f": map[string]any{"type": "verif-rgun", "retries": 5}}, &hf); err != nil {
		fail("decode", "factory section rejected: %v", err)
		return
	}
	var prods []*RConf
	for i := 0; i < 3; i++ {
		g, err := hf.F()
		if err != nil {
			fail("factory", "product %d: %v", i, err)
			return
		}
		c := conf(g)
		if got, want := show(c), show(&RConf{Target: "default-target", Retries: 5, Hosts: []string{"a", "b"}}); got != want {
			fail("config", "factory product %d configured with %s, want %s", i, got, want)
		}
		for _, p := range prods {
			if p == c {
				fail("shared", "factory products %d and an earlier one hold the same configuration object", i)
			}
		}
		prods = append(prods, c)
		c.Retries = -1
		if len(c.Hosts) > 1 {
			c.Hosts[1] = "mutated"
		}
	}
	res.Eval("register-helpers", true)
	res.Count("form_register-helper", 1)
}

// ---- pass 7: config fields that validate themselves ----

// Mode is a string-kind config type whose own UnmarshalText decides what is valid.
type Mode string

func (m *Mode) UnmarshalText(b []byte) error {
	switch string(b) {
	case "fast", "slow":
		*m = Mode(b)
		return nil
	}
	return fmt.Errorf("unknown mode %q", b)
}

type MConf struct {
	Mode  Mode `config:"mode"`
	Level int  `config:"level"`
}
type MComp interface{ M() MConf }
type mcomp struct{ c MConf }

func (m *mcomp) M() MConf { return m.c }

type mholder struct {
	C  MComp                 `config:"c"`
	F  func() (MComp, error) `config:"f"`
	F2 func() MComp          `config:"f2"`
}

// selfValidatingFields: a value that the field's own UnmarshalText rejects is a config error like
// any other: it reaches the caller for every constructor shape and requested form, and no
// component is built with the raw text in the field.
func selfValidatingFields(res *vkit.Result) {
	mType := plugin.PtrType((*MComp)(nil))
	ctors := map[string]any{
		"value":   func(c MConf) MComp { return &mcomp{c} },
		"pointer": func(c *MConf) (MComp, error) { return &mcomp{*c}, nil },
		"factory": func(c MConf) func() (MComp, error) { return func() (MComp, error) { return &mcomp{c}, nil } },
	}
	for shape, ctor := range ctors {
		name := "m-" + shape
		if shape == "pointer" {
			plugin.Register(mType, name, ctor, func() *MConf { return &MConf{Mode: "slow", Level: 1} })
		} else {
			plugin.Register(mType, name, ctor, func() MConf { return MConf{Mode: "slow", Level: 1} })
		}
		for _, val := range []string{"fast", "bogus", ""} {
			for _, form := range []string{"c", "f", "f2"} {
				c := map[string]any{"constructor": shape, "mode": val, "form": form}
				var h mholder
				var got MComp
				err := config.Decode(map[string]any{form: map[string]any{"type": name, "mode": val, "level": 3}}, &h)
				if err == nil {
					switch form {
					case "c":
						got = h.C
					case "f":
						got, err = h.F()
					case "f2":
						if pv, panicked := callSafely(func() { got = h.F2() }); panicked {
							err = fmt.Errorf("panic: %v", pv)
						}
					}
				}
				key := "C18/self-validating-field/" + shape
				switch {
				case val == "fast" && err != nil:
					res.Violate(key+"/rejected", fmt.Sprintf("valid value rejected: %v", err), c)
				case val == "fast" && (got == nil || got.M() != MConf{Mode: "fast", Level: 3}):
					res.Violate(key+"/config", fmt.Sprintf("configured with %+v, want {Mode:fast Level:3}", got), c)
				case val != "fast" && err == nil:
					res.Violate(key+"/invalid-value-accepted", fmt.Sprintf("mode %q is rejected by the field's own UnmarshalText, yet a component was created with %+v", val, got.M()), c)
				}
				res.Eval(vkit.JSON(c), true)
				res.Count("form_self-validating-field", 1)
			}
		}
	}
}

// realComponentProducts: the same promise through the built-in components. Three pools of one gun
// type are decoded in one process, each with its own keys in a map-valued option (one leaves the
// option out), and each pool's factory is called three times in turn. Every gun must hold exactly
// the keys its own pool wrote: a default configuration that is not made afresh for every product
// lets the keys of one pool show up in the guns of another.
func realComponentProducts(res *vkit.Result) {
	type mapOpt struct {
		gun, key, field string
		extra           map[string]any
	}
	opts := []mapOpt{
		{"grpc", "reflect_metadata", "ReflectMetadata", nil},
		{"grpc/scenario", "reflect_metadata", "ReflectMetadata", nil},
	}
	for _, o := range opts {
		c := map[string]any{"gun": o.gun, "option": o.key}
		key := "C18/built-in/" + o.gun + "/" + o.key
		written := []map[string]any{{"tenant": "alpha"}, {"token": "beta", "zone": "z"}, nil, {"tenant": "gamma"}}
		var pools []any
		for i, w := range written {
			g := map[string]any{"type": o.gun, "target": "127.0.0.1:1"}
			if w != nil {
				g[o.key] = w
			}
			pools = append(pools, map[string]any{"id": fmt.Sprintf("p%d", i), "gun": g,
				"ammo":   map[string]any{"type": "dummy"},
				"result": map[string]any{"type": "discard"},
				"rps":    map[string]any{"type": "once", "times": 1}, "startup": map[string]any{"type": "once", "times": 1}})
		}
		ec, err := vkit.DecodePools(map[string]any{"pools": pools})
		if err != nil {
			res.Inconclusive(true, "built-in pools of %s guns rejected: %v", o.gun, err)
			continue
		}
		bad := ""
		for round := 0; round < 3 && bad == ""; round++ {
			for i, p := range ec.Pools {
				var g core.Gun
				var gerr error
				if pv, panicked := callSafely(func() { g, gerr = p.NewGun() }); panicked {
					bad = fmt.Sprintf("pool %d call %d: NewGun panicked: %v", i, round, pv)
					break
				}
				if gerr != nil {
					bad = fmt.Sprintf("pool %d call %d: NewGun failed: %v", i, round, gerr)
					break
				}
				f, ok := vkit.FindField(g, o.field)
				if !ok || f.Kind() != reflect.Map {
					res.Inconclusive(true, "%s gun has no map field %s", o.gun, o.field)
					break
				}
				got := map[string]string{}
				for _, k := range f.MapKeys() {
					got[k.String()] = f.MapIndex(k).String()
				}
				want := map[string]string{}
				for k, v := range written[i] {
					want[k] = v.(string)
				}
				if !reflect.DeepEqual(got, want) {
					bad = fmt.Sprintf("pool %d wrote %s: %v; the gun made by call %d of its factory holds %v", i, o.key, want, round, got)
					break
				}
				res.Count("built_in_products_compared", 1)
			}
		}
		if bad != "" {
			res.Violate(key+"/foreign-settings", bad, c)
		}
		res.Eval(vkit.JSON(c), true)
	}
}

// builtInFactoryProducts: every product of one built-in gun factory carries the same
// configuration (defaults overlaid by the pool's settings), the first like the fifth. The target
// is given by name and is reachable, so whatever the gun derives from it while the config is
// decoded (the pre-resolved address) is part of that configuration.
func builtInFactoryProducts(res *vkit.Result) {
	ln, err := net.Listen("tcp", "127.0.0.1:0")
	if err != nil {
		res.Inconclusive(true, "listen: %v", err)
		return
	}
	defer ln.Close()
	go func() {
		for {
			c, err := ln.Accept()
			if err != nil {
				return
			}
			c.Close()
		}
	}()
	_, port, _ := net.SplitHostPort(ln.Addr().String())
	for _, gunType := range []string{"http", "http2", "connect", "http/scenario", "http2/scenario"} {
		c := map[string]any{"gun": gunType, "target": "localhost:<port>", "products": 5}
		ec, err := vkit.DecodePools(map[string]any{"pools": []any{map[string]any{"id": "p",
			"gun":    map[string]any{"type": gunType, "target": "localhost:" + port},
			"ammo":   map[string]any{"type": "dummy"},
			"result": map[string]any{"type": "discard"},
			"rps":    map[string]any{"type": "once", "times": 1}, "startup": map[string]any{"type": "once", "times": 1}}}})
		if err != nil {
			res.Inconclusive(true, "pool of %s guns rejected: %v", gunType, err)
			continue
		}
		var first, firstDesc string
		for i := 0; i < 5; i++ {
			var g core.Gun
			var gerr error
			if pv, panicked := callSafely(func() { g, gerr = ec.Pools[0].NewGun() }); panicked || gerr != nil {
				res.Violate("C18/built-in/"+gunType+"/factory-call", fmt.Sprintf("call %d of the gun factory: panic %v, error %v", i, pv, gerr), c)
				break
			}
			f, ok := vkit.FindField(g, "Config")
			if !ok {
				res.Inconclusive(true, "%s gun has no Config field", gunType)
				break
			}
			h := vkit.DeepHash2(f, nil)
			tr, _ := vkit.FindField(g, "TargetResolved")
			dc, _ := vkit.FindField(g, "DNSCache")
			desc := fmt.Sprintf("TargetResolved=%v DNSCache=%v", tr, dc)
			if i == 0 {
				first, firstDesc = h, desc
			} else if h != first {
				res.Violate("C18/built-in/"+gunType+"/products-differ", fmt.Sprintf("product 0 of the factory has %s, product %d has %s (their configurations hash differently)", firstDesc, i, desc), c)
				break
			}
			res.Count("built_in_products_compared", 1)
		}
		res.Eval(vkit.JSON(c), true)
	}
}

// ---------------------------------------------------------------- placeholders in plugin settings

type PIntConf struct {
	N int `config:"n"`
}
type PStrConf struct {
	N string `config:"n"`
}
type PFloatConf struct {
	N float64 `config:"n"`
}
type PComp interface{ P() string }
type pcomp struct{ v string }

func (p *pcomp) P() string { return p.v }

type pholder struct {
	C PComp                 `config:"c"`
	F func() (PComp, error) `config:"f"`
}

// placeholderSettings: a setting written as ${ENV:NAME} is resolved whenever a configuration is
// decoded, for the field it is decoded into. The same placeholder is given to plugins whose
// field is an int, a string and a float, in every order (one variable per order), and each
// must get the value in its own kind; a value that does not fit the field (1.9 for an int) is a
// config error whatever was decoded before; and the products of one component-constructor
// factory, each decoded afresh, see the environment as it is when they are made.
func placeholderSettings(res *vkit.Result) {
	pType := plugin.PtrType((*PComp)(nil))
	plugin.Register(pType, "p-int", func(c PIntConf) PComp { return &pcomp{fmt.Sprintf("int:%d", c.N)} })
	plugin.Register(pType, "p-str", func(c PStrConf) PComp { return &pcomp{"str:" + c.N} })
	plugin.Register(pType, "p-float", func(c PFloatConf) PComp { return &pcomp{fmt.Sprintf("float:%g", c.N)} })
	want := map[string]string{"p-int": "int:17", "p-str": "str:17", "p-float": "float:17"}
	orders := [][]string{{"p-int", "p-str", "p-float"}, {"p-str", "p-float", "p-int"}, {"p-float", "p-int", "p-str"}, {"p-str", "p-int", "p-float"}}
	for oi, order := range orders {
		env := fmt.Sprintf("VERIF_C18_NUM_%d", oi)
		os.Setenv(env, "17")
		for _, typ := range order {
			c := map[string]any{"order": order, "plugin": typ, "setting": "${ENV:" + env + "}"}
			var h pholder
			err := config.Decode(map[string]any{"c": map[string]any{"type": typ, "n": "${ENV:" + env + "}"}}, &h)
			switch {
			case err != nil:
				res.Violate("C18/placeholder/rejected", fmt.Sprintf("valid setting (the variable holds 17) rejected for %s: %v", typ, err), c)
			case h.C == nil || h.C.P() != want[typ]:
				res.Violate("C18/placeholder/config", fmt.Sprintf("%s configured with %v, want %s", typ, h.C, want[typ]), c)
			}
			res.Eval(vkit.JSON(c), true)
		}
		os.Unsetenv(env)
	}
	// 1.9 fits a float and a string, not an int — whatever was decoded first
	for oi, first := range []string{"p-float", "p-str", ""} {
		env := fmt.Sprintf("VERIF_C18_FRAC_%d", oi)
		os.Setenv(env, "1.9")
		c := map[string]any{"decoded_first": first, "then": "p-int", "setting": "${ENV:" + env + "} = 1.9"}
		if first != "" {
			var h pholder
			_ = config.Decode(map[string]any{"c": map[string]any{"type": first, "n": "${ENV:" + env + "}"}}, &h)
		}
		var h pholder
		if err := config.Decode(map[string]any{"c": map[string]any{"type": "p-int", "n": "${ENV:" + env + "}"}}, &h); err == nil {
			res.Violate("C18/placeholder/invalid-value-accepted", fmt.Sprintf("1.9 was accepted for an int field: component configured with %s", h.C.P()), c)
		}
		os.Unsetenv(env)
		res.Eval(vkit.JSON(c), true)
	}
	// products of one factory, the environment changing in between
	os.Setenv("VERIF_C18_LIVE", "1")
	var h pholder
	c := map[string]any{"plugin": "p-int", "form": "factory", "setting": "${ENV:VERIF_C18_LIVE}"}
	if err := config.Decode(map[string]any{"f": map[string]any{"type": "p-int", "n": "${ENV:VERIF_C18_LIVE}"}}, &h); err != nil {
		res.Violate("C18/placeholder/rejected", fmt.Sprintf("valid factory setting rejected: %v", err), c)
	} else {
		for i := 1; i <= 4; i++ {
			os.Setenv("VERIF_C18_LIVE", fmt.Sprint(i))
			p, err := h.F()
			if err != nil || p.P() != fmt.Sprintf("int:%d", i) {
				res.Violate("C18/placeholder/stale-product", fmt.Sprintf("product %d of the factory was made while the variable held %d; it is configured with %v (error %v)", i, i, p, err), c)
				break
			}
			res.Count("placeholder_products", 1)
		}
	}
	os.Unsetenv("VERIF_C18_LIVE")
	res.Eval(vkit.JSON(c), true)
}

func main() {
	vkit.Fs() // registers the config hooks (pluginconfig.AddHooks via core import)
	res := vkit.NewResult("exhaustive cross product of constructor shapes (component|factory × no config|struct|*struct × error result × inner error result / impl-typed result × default-config func) × requested form (New, factory with error, factory without error) × outcome (ok, constructor error, inner factory error, config error) × 1–5 factory calls with mutation of each product's config; plus every config-taking shape through the `type:` config hooks; plus plugins nested three deep in plugins of the same registered name and two overlapping creations (one held in the middle of decoding by a blocking field) for value/pointer/factory shapes; plus one decoded factory called from 16 goroutines at once (every product must come from its own freshly created default); distinct = distinct (shape, form, outcome, calls); all are non-trivial")
	n := 0
	for _, s := range shapes() {
		for _, form := range []string{"new", "factory-err", "factory-noerr", "factory-err-named", "factory-noerr-named"} {
			for _, outcome := range []string{"ok", "ctor-error", "inner-error", "config-error"} {
				if outcome == "ctor-error" && !s.CtorErr {
					continue
				}
				if outcome == "inner-error" && !(s.Factory && s.InnerErr) {
					continue
				}
				calls := []int{1}
				if form != "new" {
					calls = []int{1, 2, 3, 5}
				}
				for _, k := range calls {
					runCase(res, Case{Shape: s, Form: form, Outcome: outcome, Calls: k})
					n++
				}
			}
		}
	}
	hookPass(res)
	nestedAndOverlap(res)
	sameFactoryConcurrently(res, vkit.N(60, 1500))
	mixedOutcomesConcurrently(res, vkit.N(40, 1000))
	typeOnlySections(res)
	registerHelpers(res)
	selfValidatingFields(res)
	realComponentProducts(res)
	builtInFactoryProducts(res)
	placeholderSettings(res)
	res.Set("exhaustive", true)
	res.Set("shapes", len(shapes()))
	res.Sample(Case{Shape: shapes()[5], Form: "factory-noerr", Outcome: "config-error", Calls: 2})
	res.Sample(Case{Shape: shapes()[30], Form: "factory-err", Outcome: "ok", Calls: 5})
	res.Write()
}
