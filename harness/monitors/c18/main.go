// C18 — Plugin registry: every constructor shape yields rightly configured components.
//
// Exhaustive cross product: constructor shape {component | factory} × config {none | struct |
// *struct} × constructor error result × inner factory error result × default-config func ×
// requested form {New, factory with error, factory without error} × outcome {ok, constructor
// error, inner factory error, config error} × sequences of 1–5 factory calls with mutation of
// each product's configuration in between. A second pass goes through the config hooks
// (`type:` key) of the default registry.
package main

import (
	"errors"
	"fmt"
	"reflect"
	"sort"
	"strings"

	"github.com/yandex/pandora/core/config"
	"github.com/yandex/pandora/core/plugin"

	"verif/harness/vkit"
)

type Conf struct {
	A string         `config:"a"`
	B int            `config:"b"`
	M map[string]int `config:"m"`
	S []int          `config:"s"`
	P *int           `config:"p"`
}

func (c Conf) String() string {
	p := "nil"
	if c.P != nil {
		p = fmt.Sprint(*c.P)
	}
	keys := make([]string, 0, len(c.M))
	for k := range c.M {
		keys = append(keys, k)
	}
	sort.Strings(keys)
	var m []string
	for _, k := range keys {
		m = append(m, fmt.Sprintf("%s:%d", k, c.M[k]))
	}
	return fmt.Sprintf("{A:%q B:%d M:[%s] S:%v P:%s}", c.A, c.B, strings.Join(m, ","), c.S, p)
}

func defaultConf() Conf {
	p := 5
	return Conf{A: "defA", B: 7, M: map[string]int{"d": 1}, S: []int{1, 2}, P: &p}
}

// user settings, as a fill function
func userFill(c *Conf) {
	c.B = 42
	if c.M == nil {
		c.M = map[string]int{}
	}
	c.M["u"] = 2
}

func expected(withDefault bool) Conf {
	var c Conf
	if withDefault {
		c = defaultConf()
	}
	userFill(&c)
	return c
}

type Comp interface {
	Conf() *Conf
	Serial() int
}

type comp struct {
	conf   *Conf
	serial int
}

func (c *comp) Conf() *Conf { return c.conf }
func (c *comp) Serial() int { return c.serial }

var compType = plugin.PtrType((*Comp)(nil))

type Shape struct {
	Factory  bool   `json:"factory_constructor"`
	Conf     string `json:"config"` // none struct ptr
	CtorErr  bool   `json:"constructor_has_error_result"`
	InnerErr bool   `json:"inner_factory_has_error_result"`
	Impl     bool   `json:"returns_impl_type"`
	Default  bool   `json:"default_config_func"`
}

type Case struct {
	Shape   Shape  `json:"shape"`
	Form    string `json:"form"`    // new factory-err factory-noerr
	Outcome string `json:"outcome"` // ok ctor-error inner-error config-error
	Calls   int    `json:"calls"`
}

type log struct {
	ctorCalls, innerCalls, fillCalls, defaultCalls int
	serial                                         int
}

var errCtor = errors.New("verif: constructor error")
var errInner = errors.New("verif: inner factory error")
var errConf = errors.New("verif: config error")

// constructor builds the function value to register, with the exact Go type of the shape.
func constructor(s Shape, l *log, outcome string) any {
	mk := func(c *Conf) *comp {
		l.serial++
		return &comp{conf: c, serial: l.serial}
	}
	ctorFail := func() error {
		if outcome == "ctor-error" {
			return errCtor
		}
		return nil
	}
	innerFail := func() error {
		if outcome == "inner-error" {
			return errInner
		}
		return nil
	}
	if !s.Factory {
		// component constructors
		body := func(c *Conf) (*comp, error) {
			l.ctorCalls++
			if err := ctorFail(); err != nil {
				return nil, err
			}
			return mk(c), nil
		}
		switch {
		case s.Conf == "none" && !s.CtorErr && !s.Impl:
			return func() Comp { c, _ := body(nil); return c }
		case s.Conf == "none" && !s.CtorErr && s.Impl:
			return func() *comp { c, _ := body(nil); return c }
		case s.Conf == "none" && s.CtorErr && !s.Impl:
			return func() (Comp, error) { c, err := body(nil); return iface(c), err }
		case s.Conf == "none" && s.CtorErr && s.Impl:
			return func() (*comp, error) { return body(nil) }
		case s.Conf == "struct" && !s.CtorErr && !s.Impl:
			return func(c Conf) Comp { r, _ := body(&c); return r }
		case s.Conf == "struct" && !s.CtorErr && s.Impl:
			return func(c Conf) *comp { r, _ := body(&c); return r }
		case s.Conf == "struct" && s.CtorErr && !s.Impl:
			return func(c Conf) (Comp, error) { r, err := body(&c); return iface(r), err }
		case s.Conf == "struct" && s.CtorErr && s.Impl:
			return func(c Conf) (*comp, error) { return body(&c) }
		case s.Conf == "ptr" && !s.CtorErr && !s.Impl:
			return func(c *Conf) Comp { r, _ := body(c); return r }
		case s.Conf == "ptr" && !s.CtorErr && s.Impl:
			return func(c *Conf) *comp { r, _ := body(c); return r }
		case s.Conf == "ptr" && s.CtorErr && !s.Impl:
			return func(c *Conf) (Comp, error) { r, err := body(c); return iface(r), err }
		case s.Conf == "ptr" && s.CtorErr && s.Impl:
			return func(c *Conf) (*comp, error) { return body(c) }
		}
	}
	// factory constructors
	innerE := func(c *Conf) func() (Comp, error) {
		return func() (Comp, error) {
			l.innerCalls++
			if err := innerFail(); err != nil {
				return nil, err
			}
			return mk(c), nil
		}
	}
	innerN := func(c *Conf) func() Comp {
		return func() Comp {
			l.innerCalls++
			return mk(c)
		}
	}
	switch {
	case s.Conf == "none" && !s.CtorErr && !s.InnerErr:
		return func() func() Comp { l.ctorCalls++; return innerN(nil) }
	case s.Conf == "none" && !s.CtorErr && s.InnerErr:
		return func() func() (Comp, error) { l.ctorCalls++; return innerE(nil) }
	case s.Conf == "none" && s.CtorErr && !s.InnerErr:
		return func() (func() Comp, error) { l.ctorCalls++; return innerN(nil), ctorFail() }
	case s.Conf == "none" && s.CtorErr && s.InnerErr:
		return func() (func() (Comp, error), error) { l.ctorCalls++; return innerE(nil), ctorFail() }
	case s.Conf == "struct" && !s.CtorErr && !s.InnerErr:
		return func(c Conf) func() Comp { l.ctorCalls++; return innerN(&c) }
	case s.Conf == "struct" && !s.CtorErr && s.InnerErr:
		return func(c Conf) func() (Comp, error) { l.ctorCalls++; return innerE(&c) }
	case s.Conf == "struct" && s.CtorErr && !s.InnerErr:
		return func(c Conf) (func() Comp, error) { l.ctorCalls++; return innerN(&c), ctorFail() }
	case s.Conf == "struct" && s.CtorErr && s.InnerErr:
		return func(c Conf) (func() (Comp, error), error) { l.ctorCalls++; return innerE(&c), ctorFail() }
	case s.Conf == "ptr" && !s.CtorErr && !s.InnerErr:
		return func(c *Conf) func() Comp { l.ctorCalls++; return innerN(c) }
	case s.Conf == "ptr" && !s.CtorErr && s.InnerErr:
		return func(c *Conf) func() (Comp, error) { l.ctorCalls++; return innerE(c) }
	case s.Conf == "ptr" && s.CtorErr && !s.InnerErr:
		return func(c *Conf) (func() Comp, error) { l.ctorCalls++; return innerN(c), ctorFail() }
	case s.Conf == "ptr" && s.CtorErr && s.InnerErr:
		return func(c *Conf) (func() (Comp, error), error) { l.ctorCalls++; return innerE(c), ctorFail() }
	}
	panic("shape")
}

func iface(c *comp) Comp {
	if c == nil {
		return nil
	}
	return c
}

func defaultFunc(s Shape, l *log) any {
	switch s.Conf {
	case "struct":
		return func() Conf { l.defaultCalls++; return defaultConf() }
	case "ptr":
		return func() *Conf { l.defaultCalls++; c := defaultConf(); return &c }
	}
	return nil
}

func shapes() []Shape {
	var out []Shape
	for _, fac := range []bool{false, true} {
		for _, conf := range []string{"none", "struct", "ptr"} {
			for _, ce := range []bool{false, true} {
				for _, x := range []bool{false, true} { // Impl (component) / InnerErr (factory)
					for _, def := range []bool{false, true} {
						if def && conf == "none" {
							continue
						}
						s := Shape{Factory: fac, Conf: conf, CtorErr: ce, Default: def}
						if fac {
							s.InnerErr = x
						} else {
							s.Impl = x
						}
						out = append(out, s)
					}
				}
			}
		}
	}
	return out
}

// callSafely calls f and converts a panic into (panicValue, true).
func callSafely(f func()) (pv any, panicked bool) {
	defer func() {
		if r := recover(); r != nil {
			pv, panicked = r, true
		}
	}()
	f()
	return nil, false
}

func runCase(res *vkit.Result, c Case) {
	key := func(check string) string {
		k := "component"
		if c.Shape.Factory {
			k = "factory"
		}
		return fmt.Sprintf("C18/%s-constructor/config-%s/%s/%s/%s", k, c.Shape.Conf, c.Form, c.Outcome, check)
	}
	fail := func(check, f string, a ...any) { res.Violate(key(check), fmt.Sprintf(f, a...), c) }
	l := &log{}
	reg := plugin.NewRegistry()
	var defs []any
	if c.Shape.Default {
		defs = append(defs, defaultFunc(c.Shape, l))
	}
	if _, p := callSafely(func() { reg.Register(compType, "x", constructor(c.Shape, l, c.Outcome), defs...) }); p {
		fail("register", "Register panicked for a supported constructor shape")
		return
	}
	fill := func(conf any) error {
		l.fillCalls++
		if c.Outcome == "config-error" {
			return errConf
		}
		if cp, ok := conf.(*Conf); ok {
			userFill(cp)
		} else if c.Shape.Conf != "none" {
			return fmt.Errorf("fill got %T", conf)
		}
		return nil
	}
	want := expected(c.Shape.Default)
	hasConf := c.Shape.Conf != "none"
	// which error is expected, and where
	var wantErr error
	where := "" // creation | call
	switch c.Outcome {
	case "ctor-error":
		wantErr = errCtor
		where = "call"
		if c.Shape.Factory {
			where = "creation"
		}
	case "inner-error":
		wantErr, where = errInner, "call"
	case "config-error":
		wantErr = errConf
		where = "call"
		if c.Shape.Factory || !hasConf {
			where = "creation"
		}
	}
	checkProduct := func(p Comp, i int) {
		if p == nil || reflect.ValueOf(p).IsNil() {
			fail("nil-product", "product %d is nil without an error", i)
			return
		}
		if hasConf {
			if got := p.Conf(); got == nil || got.String() != want.String() {
				fail("config", "product %d configured with %v, want defaults overlaid by user settings %v", i, got, want)
			}
		}
	}
	switch c.Form {
	case "new":
		var p any
		var err error
		pv, panicked := callSafely(func() { p, err = reg.New(compType, "x", fill) })
		if panicked {
			fail("panic", "New panicked: %v", pv)
			return
		}
		if wantErr != nil {
			if !errors.Is(err, wantErr) && (err == nil || !strings.Contains(err.Error(), wantErr.Error())) {
				fail("error-lost", "New returned err=%v, want %v", err, wantErr)
			}
			return
		}
		if err != nil {
			fail("unexpected-error", "New returned %v", err)
			return
		}
		cp, _ := p.(Comp)
		checkProduct(cp, 0)
		if l.fillCalls != 1 {
			fail("fill-count", "fill function called %d times for one New", l.fillCalls)
		}
	default:
		var ft reflect.Type
		if c.Form == "factory-err" {
			ft = reflect.TypeOf((func() (Comp, error))(nil))
		} else {
			ft = reflect.TypeOf((func() Comp)(nil))
		}
		var f any
		var err error
		pv, panicked := callSafely(func() { f, err = reg.NewFactory(ft, "x", fill) })
		if panicked {
			fail("panic", "NewFactory panicked: %v", pv)
			return
		}
		if where == "creation" {
			if err == nil || !strings.Contains(err.Error(), wantErr.Error()) {
				fail("error-lost", "NewFactory returned err=%v, want %v", err, wantErr)
			}
			return
		}
		if err != nil {
			fail("unexpected-error", "NewFactory returned %v", err)
			return
		}
		var prev []Comp
		for i := 0; i < c.Calls; i++ {
			var p Comp
			var cerr error
			pv, panicked := callSafely(func() {
				if c.Form == "factory-err" {
					p, cerr = f.(func() (Comp, error))()
				} else {
					p = f.(func() Comp)()
				}
			})
			if where == "call" {
				switch {
				case c.Form == "factory-err":
					if panicked {
						fail("panic", "factory with an error result panicked instead of returning the error: %v", pv)
					} else if cerr == nil || !strings.Contains(cerr.Error(), wantErr.Error()) {
						fail("error-lost", "factory call %d returned err=%v, want %v", i, cerr, wantErr)
					}
				default:
					pe, _ := pv.(error)
					if !panicked {
						fail("error-lost", "factory without error result neither panicked nor could report %v (product %v)", wantErr, p)
					} else if pe == nil || !strings.Contains(pe.Error(), wantErr.Error()) {
						fail("panic-value", "factory panicked with %v, want a panic carrying %v", pv, wantErr)
					}
				}
				continue
			}
			if panicked {
				fail("panic", "factory call %d panicked: %v", i, pv)
				return
			}
			if cerr != nil {
				fail("unexpected-error", "factory call %d returned %v", i, cerr)
				return
			}
			checkProduct(p, i)
			for _, q := range prev {
				if q == p {
					fail("same-product", "factory returned the same component twice")
				}
			}
			prev = append(prev, p)
			// mutate this product's configuration: must be invisible to the next product
			// (component constructors only: they get a fresh config per product)
			if hasConf && !c.Shape.Factory && p != nil && p.Conf() != nil {
				pc := p.Conf()
				pc.A, pc.B = "mutated", -1
				pc.M["mut"] = 99
				if len(pc.S) > 0 {
					pc.S[0] = -5
				}
				if pc.P != nil {
					*pc.P = -7
				}
			}
		}
		if where == "" {
			if c.Shape.Factory {
				if l.ctorCalls != 1 {
					fail("ctor-count", "factory constructor invoked %d times for one NewFactory", l.ctorCalls)
				}
				if hasConf && l.fillCalls != 1 {
					fail("fill-count", "factory constructor: config decoded %d times, want once", l.fillCalls)
				}
				if l.innerCalls != c.Calls {
					fail("inner-count", "registered factory invoked %d times for %d products", l.innerCalls, c.Calls)
				}
			} else {
				if l.ctorCalls != c.Calls {
					fail("ctor-count", "component constructor invoked %d times for %d products", l.ctorCalls, c.Calls)
				}
				if hasConf && l.fillCalls != c.Calls {
					fail("fill-count", "component constructor: config decoded %d times for %d products (want a fresh decode per product)", l.fillCalls, c.Calls)
				}
				if hasConf && c.Shape.Default && l.defaultCalls != c.Calls {
					fail("default-count", "default config created %d times for %d products (want a fresh one per product)", l.defaultCalls, c.Calls)
				}
			}
		}
	}
	res.Eval(vkit.JSON(c), true)
	res.Count("form_"+c.Form, 1)
	res.Count("outcome_"+c.Outcome, 1)
}

// ---- pass 2: through the config hooks of the default registry ----

type holder struct {
	C  Comp                 `config:"c"`
	F  func() (Comp, error) `config:"f"`
	F2 func() Comp          `config:"f2"`
}

func hookPass(res *vkit.Result) {
	for i, s := range shapes() {
		if s.Conf == "none" {
			continue
		}
		l := &log{}
		name := fmt.Sprintf("shape%d", i)
		var defs []any
		if s.Default {
			defs = append(defs, defaultFunc(s, l))
		}
		plugin.Register(compType, name, constructor(s, l, "ok"), defs...)
		c := Case{Shape: s, Form: "config-hook", Outcome: "ok"}
		fail := func(check, f string, a ...any) {
			res.Violate("C18/config-hook/"+check, fmt.Sprintf(f, a...), c)
		}
		user := func() map[string]any {
			return map[string]any{"type": name, "b": 42, "m": map[string]any{"u": 2}}
		}
		var h holder
		err := config.Decode(map[string]any{"c": user(), "f": user(), "f2": user()}, &h)
		if err != nil {
			fail("decode", "decoding a plugin and its factories failed: %v", err)
			continue
		}
		want := expected(s.Default)
		if got := h.C.Conf(); got.String() != want.String() {
			fail("config", "component from config has %v, want %v", got, want)
		}
		for k := 0; k < 3; k++ {
			p, err := h.F()
			if err != nil || p.Conf().String() != want.String() {
				fail("config", "factory product %d from config has %v (err %v), want %v", k, p, err, want)
				break
			}
			if !s.Factory {
				p.Conf().M["mut"] = 1
				p.Conf().B = -1
			}
			p2 := h.F2()
			if p2.Conf().String() != want.String() {
				fail("config", "no-error factory product %d from config has %v, want %v", k, p2.Conf(), want)
				break
			}
		}
		// unknown key inside the plugin's config must be rejected (at decode or at first use)
		bad := user()
		bad["bogus"] = 1
		var h2 holder
		err = config.Decode(map[string]any{"c": bad}, &h2)
		if err == nil {
			fail("unknown-key", "unknown key in a plugin config was accepted")
		}
		bad2 := user()
		bad2["bogus"] = 1
		var h3 holder
		err = config.Decode(map[string]any{"f": bad2}, &h3)
		if err == nil {
			_, err = h3.F()
		}
		if err == nil {
			fail("unknown-key", "unknown key in a plugin factory config was accepted by decode and by the first factory call")
		}
		res.Eval(vkit.JSON(c), true)
		res.Count("form_config-hook", 1)
	}
}

func main() {
	vkit.Fs() // registers the config hooks (pluginconfig.AddHooks via core import)
	res := vkit.NewResult("exhaustive cross product of constructor shapes (component|factory × no config|struct|*struct × error result × inner error result / impl-typed result × default-config func) × requested form (New, factory with error, factory without error) × outcome (ok, constructor error, inner factory error, config error) × 1–5 factory calls with mutation of each product's config; plus every config-taking shape through the `type:` config hooks; distinct = distinct (shape, form, outcome, calls); all are non-trivial")
	n := 0
	for _, s := range shapes() {
		for _, form := range []string{"new", "factory-err", "factory-noerr"} {
			for _, outcome := range []string{"ok", "ctor-error", "inner-error", "config-error"} {
				if outcome == "ctor-error" && !s.CtorErr {
					continue
				}
				if outcome == "inner-error" && !(s.Factory && s.InnerErr) {
					continue
				}
				calls := []int{1}
				if form != "new" {
					calls = []int{1, 2, 3, 5}
				}
				for _, k := range calls {
					runCase(res, Case{Shape: s, Form: form, Outcome: outcome, Calls: k})
					n++
				}
			}
		}
	}
	hookPass(res)
	res.Set("exhaustive", true)
	res.Set("shapes", len(shapes()))
	res.Sample(Case{Shape: shapes()[5], Form: "factory-noerr", Outcome: "config-error", Calls: 2})
	res.Sample(Case{Shape: shapes()[30], Form: "factory-err", Outcome: "ok", Calls: 5})
	res.Write()
}
