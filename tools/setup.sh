#!/bin/sh
# Offline setup: warm the Go build cache for the harness (plain and race builds).
set -e
cd "$(dirname "$0")/../harness"
export GOFLAGS=-mod=mod GOPROXY=off GOSUMDB=off GOTOOLCHAIN=local
cat /repo/go.sum go.sum.extra | sort -u > go.sum
go build -tags verif ./... 
go build -race -tags verif ./... 
(cd /repo && go build -o /dev/null . )
echo setup ok
