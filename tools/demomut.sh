#!/bin/bash
# usage: tools/demomut.sh C10-a components/guns/http TestC10Demo  — runs a test-file demonstration in the
# scratch worktree /tmp/mutchk/<N> with the patch (must fail) and without it (must pass).
export GOFLAGS=-mod=mod GOPROXY=off GOSUMDB=off GOTOOLCHAIN=local
N=$1; PKG=$2; RUN=$3; CNT=${4:-1}
CH=/tmp/mutchk/$N; OUT=/tmp/mut/$N.out
cd $CH || exit 2
cp $OUT/demo/*_test.go $PKG/ 2>/dev/null
go test -vet=off $DEMO_FLAGS -count=$CNT -run "$RUN" ./$PKG/ > /tmp/demo-with.log 2>&1; w=$?
git apply -R $OUT/patch.diff || { echo "cannot revert"; exit 2; }
go test -vet=off $DEMO_FLAGS -count=$CNT -run "$RUN" ./$PKG/ > /tmp/demo-without.log 2>&1; wo=$?
git apply $OUT/patch.diff
for f in $OUT/demo/*_test.go; do rm -f $PKG/$(basename $f); done
echo "demo with patch rc=$w (want != 0), without rc=$wo (want 0)"
[ $w -ne 0 ] && tail -5 /tmp/demo-with.log | cut -c1-300
[ $wo -ne 0 ] && tail -15 /tmp/demo-without.log | cut -c1-300
