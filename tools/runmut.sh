#!/bin/bash
# usage: tools/runmut.sh C07-a C07 [quick|thorough]
# Runs a check against the scratch worktree /tmp/mutchk/<N> (patch applied there by evalmut.sh) via
# VERIF_REPO, so /repo is not touched. The evidence file of the real tree is preserved.
N=$1; P=$2; T=${3:-quick}
cd /verif
cp evidence/$P.json /tmp/evidence-$P-$N.bak 2>/dev/null
VERIF_REPO=/tmp/mutchk/$N ./check $P $T 2>&1 | grep -a "VIOLATION\|KNOWN\|INCONCL\|$P $T" | cut -c1-420 | head -${4:-10}
cp /tmp/evidence-$P-$N.bak evidence/$P.json 2>/dev/null
