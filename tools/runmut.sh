#!/bin/bash
# usage: tools/runmut.sh C07-a C07 [quick|thorough] — applies the seeded change to /repo, runs the check, undoes it.
N=$1; P=$2; T=${3:-quick}
cd /verif
[ -z "$(git -C /repo status --porcelain)" ] || { echo "/repo not clean"; exit 2; }
git -C /repo apply /tmp/mut/$N.out/patch.diff || { echo "patch does not apply to /repo"; exit 2; }
cp evidence/$P.json /tmp/evidence-$P.bak 2>/dev/null
./check $P $T 2>&1 | grep -a "VIOLATION\|KNOWN\|INCONCL\|$P $T" | cut -c1-500 | head -12
echo "check rc=${PIPESTATUS[0]}"
git -C /repo checkout -- . ; git -C /repo status --porcelain
cp /tmp/evidence-$P.bak evidence/$P.json 2>/dev/null
