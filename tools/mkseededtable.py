#!/usr/bin/env python3
"""Regenerates the table of seeded changes in DESIGN.md §9 from seeded/*/meta.json."""
import json, glob, re
rows = []
for f in sorted(glob.glob('/verif/seeded/*/meta.json')):
    m = json.load(open(f))
    summ = (m.get('summary') or '').replace('\n', ' ').replace('|', '/')
    first = re.split(r'(?<=[.!?])\s', summ)[0][:260]
    needs = (m.get('needs_to_manifest') or '').replace('\n', ' ').replace('|', '/')
    needs = re.split(r'(?<=[.!?])\s', needs)[0][:200]
    c = m['checks']
    rows.append(f"| `{m['id']}` | {m['property']} | {first} | {needs} | **{c['caught']}** — {c['detail'].replace('|','/')} |")
intro = f"""Sub-agents that were given only the text of one property and a scratch worktree (nothing from
/verif) each produced a change to pandora that breaks the property while compiling and passing
the whole existing suite, with a demonstration that fails with the change and passes without it.
Each change below was confirmed by me in a fresh scratch worktree (patch applies to the pinned
HEAD, `go build`, full suite in a private network namespace, demonstration with and without
the patch) and is kept under `seeded/<id>/` (patch.diff, demo/, meta.json).  The checks were run
against each (the patch applied to a scratch tree which the harness was pointed at, and again on
/repo itself — `git -C /repo apply`, check, `git -C /repo checkout -- .`).  "missed, then caught"
means the check as it stood did not notice the change; the last column says what was added,
always as more workload or a further oracle clause — never by loosening anything — and every
strengthened check was re-run on the unchanged tree at several seeds.

{len(rows)} seeded changes kept (several rounds of sub-agents per property; later rounds were told the earlier
ideas and asked for different mechanisms, concurrency- and fault-timing-driven ones in particular):
{sum(1 for r in rows if '**yes**' in r)} were caught at once by the owning property's check as it stood,
{sum(1 for r in rows if 'missed, then caught' in r)} only after that check was strengthened, and
{sum(1 for r in rows if 'made reliable' in r)} was caught at once but not on every run, and the check was strengthened until it was, and
{sum(1 for r in rows if ('**yes**' not in r and 'missed, then caught' not in r and 'made reliable' not in r))} are caught by another property's check (named in the last column) because the changed
code is that property's subject.  Every one of them makes its check exit 1 with a VIOLATION line
when applied to /repo (`confirmed_on_repo` in each meta.json), and all checks are silent on the
unchanged tree.

| seeded change | property | what was changed | needs, to manifest | caught by |
|---|---|---|---|---|
"""
table = intro + "\n".join(rows) + "\n"
p = '/verif/DESIGN.md'
s = open(p).read()
if '@@SEEDED@@' in s:
    s = s.replace('@@SEEDED@@', '<!-- seeded:begin -->\n' + table + '<!-- seeded:end -->')
else:
    s = re.sub(r'<!-- seeded:begin -->.*?<!-- seeded:end -->', lambda _: '<!-- seeded:begin -->\n' + table + '<!-- seeded:end -->', s, flags=re.S)
open(p, 'w').write(s)
print(len(rows), "rows")
