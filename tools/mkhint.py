#!/usr/bin/env python3
"""usage: mkhint.py C07 — prints a hint paragraph for mkmutprompt.py listing the ideas earlier sub-agents already used
for that property (files + first sentence), so that a new sub-agent looks for a different mechanism."""
import json, glob, sys, re
pid = sys.argv[1]
lines = []
for f in sorted(glob.glob(f'/verif/seeded/{pid}-*/meta.json')):
    m = json.load(open(f))
    s = (m.get('summary') or '').replace('\n', ' ')
    s = re.split(r'(?<=[.;])\s', s)[0][:260]
    fl = ','.join(x.split('/')[-1] for x in (m.get('files') or [])[:3])
    lines.append(f"  - [{fl}] {s}")
print("Earlier attempts at this task already used the ideas listed below. Do NOT repeat them or close variants of them: find a DIFFERENT mechanism, preferably in code they did not touch, and preferably one that needs concurrency, a fault/cancel at a particular moment, a multi-step history, an unusual but valid input, or two cooperating sites. Think about every clause of the property statement, including the less obvious ones, and about every component the property covers (not only the most central one).\n" + "\n".join(lines) + "\n")
