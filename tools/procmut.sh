#!/bin/bash
# usage: tools/procmut.sh <N> <Cxx> <pkgdir> <runregex> — evaluate (apply, build, suite), demo and check one sub-agent change.
N=$1; P=$2; PKG=$3; RUN=$4
cd /verif
echo "== $N"
tools/evalmut.sh $N 2>&1 | grep -E "SUITE|files? changed" | tr '\n' ' '; echo
NEW=0; [ -d /tmp/mutchk/$N/$PKG ] || { mkdir -p /tmp/mutchk/$N/$PKG; NEW=1; }
tools/demomut.sh $N $PKG "$RUN" | grep "demo with"
[ $NEW = 1 ] && rm -rf /tmp/mutchk/$N/$PKG
tools/runmut.sh $N $P quick 3 2>&1 | tail -3 | cut -c1-330
