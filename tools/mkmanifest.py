#!/usr/bin/env python3
"""Generates /verif/MANIFEST.json from the table below (one place to edit)."""
import json, os

VERIF = os.path.dirname(os.path.dirname(os.path.abspath(__file__)))
BASE = json.load(open("/root/.vp/BASELINE.json"))["cmd"] if os.path.exists("/root/.vp/BASELINE.json") else ""

# id: (category, technique, text, note, design_ref)
CLAIMED = {}

def claim(pid, category, technique, text, note):
    CLAIMED[pid] = dict(category=category, technique=technique, text=text, note=note)

exec(open(os.path.join(VERIF, "tools", "claims.py")).read())

ALL = [json.loads(l)["id"] for l in open(os.path.join(VERIF, "properties.jsonl"))]

checks = []
for pid in ALL:
    if pid not in CLAIMED:
        continue
    c = CLAIMED[pid]
    checks.append(dict(
        property_id=pid,
        quick_cmd="./check %s quick" % pid,
        thorough_cmd="./check %s thorough" % pid,
        evidence_file="/verif/evidence/%s.json" % pid,
        replay_cmd_template="./check %s --replay {path}" % pid,
        engine="monitors",
        level_claimed=dict(category=c["category"], text=c["text"], design_ref="DESIGN.md §4 " + pid),
        level_note=c["note"],
        technique=c["technique"],
    ))

NA_REASON = {}
na = [dict(property_id=p, reason=NA_REASON.get(p, "monitor designed in DESIGN.md §4 but not built yet in this session; no claim is made until its check is registered"))
      for p in ALL if p not in CLAIMED]

m = dict(
    version=1,
    setup_cmd="./tools/setup.sh",
    hooks=dict(
        guard="verif",
        enable="go build -tags verif (the ./check driver builds harness/monitors/<id> with `-tags verif`, the harness module replaces github.com/yandex/pandora by /repo, so /repo's current working tree is compiled with the hooks on)",
        baseline_off_cmd=BASE,
        source_commits=[l.strip() for l in open(os.path.join(VERIF, "MANIFEST.hooks")) if l.strip() and not l.startswith("#")] if os.path.exists(os.path.join(VERIF, "MANIFEST.hooks")) else [],
        add_only=True,
    ),
    engines=[dict(name="monitors", path="/verif/harness", serves_properties=sorted(CLAIMED),
                  kind_free_text="Go runtime monitors (one main package per property under harness/monitors) built against /repo's working tree with -tags verif (and -race where stated); oracles: reference models over recorded event logs, conservation/exactly-once counters, porcupine linearizability checks, differential checks, recording HTTP/gRPC targets, race detector, watchdogs. Driver: /verif/check")],
    checks=checks,
    not_applicable=na,
    notes="Technique family: runtime monitoring and sanitizers. Every verdict is 'held on the executions observed'; evidence files say what was observed. Genuine defects found on the pinned tree were repaired by 'fix:' commits in /repo or are listed in known_findings.json (see DESIGN.md §5).",
)
json.dump(m, open(os.path.join(VERIF, "MANIFEST.json"), "w"), indent=1)
print("claimed:", sorted(CLAIMED), "not claimed:", [x["property_id"] for x in na])
