#!/usr/bin/env python3
"""For every kept seeded change: git -C /repo apply, run the owning property's quick check, undo.
Records the outcome in seeded/<id>/meta.json (confirmed_on_repo). Evidence files are restored afterwards."""
import json, glob, subprocess, sys, os, re, shutil
os.chdir('/verif')
only = sys.argv[1:]
assert subprocess.run(['git','-C','/repo','status','--porcelain'],capture_output=True,text=True).stdout.strip()=="", "/repo not clean"
for f in sorted(glob.glob('seeded/*/meta.json')):
    m = json.load(open(f))
    sid, prop = m['id'], m['property']
    chk = m.get('confirm_with', prop)  # a change caught by another property's check is confirmed with that one
    if only and sid not in only and prop not in only:
        continue
    patch = os.path.join('seeded', sid, 'patch.diff')
    r = subprocess.run(['git','-C','/repo','apply',os.path.abspath(patch)],capture_output=True,text=True)
    if r.returncode != 0:
        print(sid, "PATCH DOES NOT APPLY", r.stderr[:200]); continue
    shutil.copy(f'evidence/{chk}.json', f'/tmp/ev-{chk}.bak')
    try:
        out = subprocess.run(['./check', chk, 'quick'], capture_output=True, text=True, timeout=3600)
        keys = sorted(set(re.findall(r'key=(\S+)', out.stdout)))
        m['confirmed_on_repo'] = {"how": "git -C /repo apply patch.diff; ./check %s quick; git -C /repo checkout -- ." % chk,
                                  "exit_status": out.returncode, "violation_keys": keys[:12]}
        print(sid, "exit", out.returncode, len(keys), "keys", keys[:2])
    finally:
        subprocess.run(['git','-C','/repo','checkout','--','.'])
        shutil.copy(f'/tmp/ev-{chk}.bak', f'evidence/{chk}.json')
    json.dump(m, open(f,'w'), indent=1, ensure_ascii=False)
print(subprocess.run(['git','-C','/repo','status','--porcelain'],capture_output=True,text=True).stdout or "repo clean")
