#!/usr/bin/env python3
"""Creates a scratch worktree of /repo for one sub-agent and prints the prompt to give it.
usage: mkmutprompt.py C07 a [hint]"""
import json, subprocess, sys, os
pid, suffix = sys.argv[1], sys.argv[2]
hint = sys.argv[3] if len(sys.argv) > 3 else ""
d = f"/tmp/mut/{pid}-{suffix}"
if not os.path.exists(d):
    subprocess.check_call(["git", "-C", "/repo", "worktree", "add", "--detach", d, "HEAD"], stdout=subprocess.DEVNULL, stderr=subprocess.DEVNULL)
os.makedirs(d + ".out/demo", exist_ok=True)
prop = None
for l in open("/verif/properties.jsonl"):
    p = json.loads(l)
    if p["id"] == pid:
        prop = p
print(f"""You are working in a scratch git worktree of the Go project yandex/pandora (an HTTP/gRPC load generator) at {d}. Do all of your work inside {d} and put your deliverables into {d}.out/ . Do not read, use or modify /repo or /verif (they are off limits), and do not commit anything.

The sandbox has no network. Prefix every shell command that runs go with:
  export GOFLAGS=-mod=mod GOPROXY=off GOSUMDB=off GOTOOLCHAIN=local
(env does not persist between tool calls). The default `go` works; nothing can be downloaded.

Here is a semantic property of pandora that currently HOLDS on this tree:

{json.dumps(prop, indent=1, ensure_ascii=False)}

YOUR TASK: make a realistic change to pandora's non-test source code that BREAKS this property — the kind of thing a well-meaning developer could plausibly commit: a refactoring slip, an "optimisation", a misplaced or dropped lock, an off-by-one, two reordered statements, a forgotten case, a wrong default. Requirements:
 (a) the project still compiles: `go build ./...`;
 (b) the ENTIRE existing test suite still passes, unedited (do not edit, delete or skip any existing test). Several packages under tests/ listen on fixed ports and other jobs on this machine run the same suite at the same time, so ALWAYS run the suite in a private network namespace: `unshare -n sh -c 'ip link set lo up; go test -vet=off -count=1 ./...'` from the worktree root;
 (c) the breakage must need something specific to manifest — a particular interleaving of instances/goroutines, a fault, cancel or signal at a particular point, a multi-step sequence of operations, an unusual but valid input or configuration, or two cooperating code sites that each look fine on their own — NOT something that ordinary use or the simplest possible input would expose at once;
 (d) keep it small (ideally under 30 changed lines), no new dependencies, no build tags, no environment-variable or magic-constant triggers, no comments that give it away.
{hint}
DELIVERABLES in {d}.out/ :
 1. patch.diff — the output of `git diff` for your source change only (it must apply with `git apply` to a clean checkout of the same commit; do not include the demo in it);
 2. demo/ — a demonstration that FAILS (non-zero exit status) with your change applied and PASSES without it: either a Go test file (say into which package directory of the tree it has to be copied) or a small Go program. Verify BOTH outcomes yourself: run it with the change, then revert with `git apply -R <your patch.diff>` and run it again, then re-apply the change with `git apply`. NEVER use `git stash` — the stash is shared by all worktrees of this repository and other jobs use it at the same time. Make it deterministic or make it retry enough that it fails reliably with the change and never fails without it;
 3. meta.json — {{"property": "{pid}", "summary": "<what you changed and why it breaks the property>", "needs": "<what it needs in order to manifest>", "files": ["<changed files>"], "demo_install": "<where to copy the demo files, if anywhere>", "demo_cmd": "<exact command(s) to run the demo from the worktree root>", "suite": "<the suite command you ran and its result>"}}.
Leave the worktree with your change applied (uncommitted) and the demo files NOT inside the tree (only under {d}.out/demo/). Finish with a short report: what you changed, how it manifests, and the results of the suite and of the demo with and without the change.""")
