#!/bin/bash
# usage: tools/evalmut.sh C07-a   — validates a sub-agent's seeded change in a fresh scratch worktree:
# patch applies, tree builds, the whole existing suite passes. Prints meta.json for the demo step.
set -u
export GOFLAGS=-mod=mod GOPROXY=off GOSUMDB=off GOTOOLCHAIN=local
N=$1
OUT=/tmp/mut/$N.out
CH=/tmp/mutchk/$N
mkdir -p /tmp/mutchk
[ -f "$OUT/patch.diff" ] || { echo "NO patch.diff in $OUT"; exit 2; }
git -C /repo worktree remove --force "$CH" >/dev/null 2>&1
git -C /repo worktree add --detach "$CH" HEAD >/dev/null 2>&1 || { echo "cannot create worktree"; exit 2; }
cd "$CH"
git apply "$OUT/patch.diff" || { echo "PATCH DOES NOT APPLY"; exit 1; }
git diff --stat | tail -3
if git diff --name-only | grep -q "_test.go"; then echo "PATCH TOUCHES TESTS"; fi
go build ./... || { echo "BUILD FAILS"; exit 1; }
go vet ./... >/dev/null 2>&1 || echo "(go vet complains)"
# own network namespace: several suites running at once on this machine collide on the fixed ports of tests/*
unshare -n sh -c 'ip link set lo up; go test -vet=off -count=1 ./...' > "$OUT/suite.log" 2>&1
rc=$?
if [ $rc -ne 0 ]; then
  grep -a "^--- FAIL\|^FAIL" "$OUT/suite.log" | head
  # one retry of failing packages (the baseline lists a flaky timing test)
  pk=$(grep -a "^FAIL" "$OUT/suite.log" | awk '{print $2}' | grep / | sort -u)
  if [ -n "$pk" ]; then unshare -n sh -c "ip link set lo up; go test -vet=off -count=1 $pk" > "$OUT/suite2.log" 2>&1 && rc=0; fi
fi
echo "SUITE rc=$rc"
echo "--- meta.json"; cat "$OUT/meta.json"; echo; ls "$OUT/demo"
