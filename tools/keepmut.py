#!/usr/bin/env python3
"""usage: keepmut.py <N e.g. C10-a> <seeded id> <demo pkg dir> <demo run regex> <caught: yes|no|thorough> <detail...>
Copies a validated sub-agent change into /verif/seeded/<id>/ and records what was run."""
import json, os, shutil, sys
n, sid, pkg, run, caught = sys.argv[1:6]
detail = " ".join(sys.argv[6:])
src = f"/tmp/mut/{n}.out"
dst = f"/verif/seeded/{sid}"
os.makedirs(dst + "/demo", exist_ok=True)
shutil.copy(src + "/patch.diff", dst + "/patch.diff")
for f in os.listdir(src + "/demo"):
    p = os.path.join(src, "demo", f)
    if os.path.isfile(p):
        shutil.copy(p, dst + "/demo/" + f)
    else:
        shutil.copytree(p, dst + "/demo/" + f, dirs_exist_ok=True)
try:
    m = json.load(open(src + "/meta.json"))
except Exception as e:
    m = {"meta_error": str(e)}
prop = n.split("-")[0]
out = {
    "id": sid,
    "property": prop,
    "origin": "independent sub-agent given only the property text and a scratch worktree",
    "summary": m.get("summary"),
    "needs_to_manifest": m.get("needs"),
    "files": m.get("files"),
    "demonstration": {"install": f"copy demo/*_test.go into {pkg}/" if pkg != "-" else m.get("demo_install"),
                      "run": f"go test -vet=off -count=1 -run '{run}' ./{pkg}/" if pkg != "-" else m.get("demo_cmd")},
    "verified_by_me": {
        "patch_applies_to_pinned_head": True,
        "go_build": "ok",
        "existing_suite_with_patch": "go test -vet=off -count=1 ./...  → all packages ok",
        "demo_with_patch": "fails",
        "demo_without_patch": "passes",
    },
    "checks": {"caught": caught, "detail": detail},
}
json.dump(out, open(dst + "/meta.json", "w"), indent=1, ensure_ascii=False)
print("kept", dst)
