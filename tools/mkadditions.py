#!/usr/bin/env python3
"""Regenerates the 'Second appendix to §4' of DESIGN.md (between the ADDITIONS markers) from the
extend(...) lines of tools/claims.py: what each monitor does beyond its original design."""
import re, collections
src = open('/verif/tools/claims.py').read()
add = collections.OrderedDict()
for m in re.finditer(r'^extend\("(C\d\d)",\s*"((?:[^"\\]|\\.)*)"\)\s*$', src, re.M):
    add.setdefault(m.group(1), []).append(m.group(2).replace('\\"', '"').replace("\\'", "'"))
lines = ["### Second appendix to §4 — what the monitors do beyond the designs above",
         "",
         "Every round of seeded changes (§9) that a check missed ended in more workload or a further",
         "oracle clause for that check.  The list below is generated from `tools/claims.py` (the same",
         "sentences appear in MANIFEST.json as part of each property's claim), so it is what the",
         "monitors run today, in both tiers unless a sentence says otherwise.",
         ""]
n = 0
for pid in sorted(add):
    lines.append(f"* **{pid}**")
    for t in add[pid]:
        lines.append(f"  * {t}")
        n += 1
lines.append("")
block = "<!-- ADDITIONS-BEGIN -->\n" + "\n".join(lines) + "<!-- ADDITIONS-END -->\n"
d = open('/verif/DESIGN.md').read()
if "<!-- ADDITIONS-BEGIN -->" in d:
    d = re.sub(r"<!-- ADDITIONS-BEGIN -->.*?<!-- ADDITIONS-END -->\n", lambda _: block, d, flags=re.S)
else:
    marker = "---------------------------------------------------------------------------------------\n\n## 5. Findings on the pinned tree"
    assert marker in d
    d = d.replace(marker, block + "\n" + marker, 1)
open('/verif/DESIGN.md', 'w').write(d)
print(n, "additions for", len(add), "properties")
