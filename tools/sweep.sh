#!/bin/bash
# usage: tools/sweep.sh <tier> <seed>... — runs every registered check at the given seeds; prints one line per run.
# Used to show that the checks stay silent on the unchanged tree whatever the seed.
T=$1; shift
cd "$(dirname "$0")/.."
for s in "$@"; do
  for i in 01 02 03 04 05 06 07 08 09 10 11 12 13 14 15 16 17 18 19 20; do
    VERIF_SEED=$s ./check C$i $T 2>&1 | grep -a "VIOLATION\|INCONCL\|KNOWN\|$T seed" | cut -c1-300
  done
done
